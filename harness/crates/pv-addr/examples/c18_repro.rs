//! Hand reproduction of finding C18-1: calls pallas-addresses directly, no harness code.
//! cargo run --release --offline -p pv-addr --example c18_repro
use pallas_addresses::{Address, Network, ShelleyAddress, ShelleyDelegationPart, ShelleyPaymentPart};
use pallas_crypto::hash::Hash;
use std::str::FromStr;

fn main() {
    let mut h1 = [0x11u8; 28];
    h1[..5].copy_from_slice(&[0xb5, 0xbe, 0x89, 0xf9, 0x6a]);
    let a: Address = ShelleyAddress::new(
        Network::from(7),
        ShelleyPaymentPart::script_hash(Hash::from(h1)),
        ShelleyDelegationPart::script_hash(Hash::from([0xffu8; 28])),
    )
    .into();
    let s = a.to_string();
    println!("to_string()            = {s}");
    println!("from_hex(to_hex())     == a : {}", Address::from_hex(&a.to_hex()).unwrap() == a);
    let back = Address::from_str(&s).unwrap();
    println!("from_str(to_string())  == a : {}", back == a);
    println!("from_str(to_string())  = {back:?}");
}
