//! Hand reproduction of the C19 finding: calls pallas-addresses directly, no harness code.
//! cargo run --release --offline -p pv-addr --example c19_repro
use pallas_addresses::{Address, ByronAddress};
use std::str::FromStr;

fn main() {
    // a published mainnet address (vector of the crate's own tests)
    let good = ByronAddress::from_base58("Ae2tdPwUPEZLs4HtbuNey7tK4hTKrwNwYtGqp7bDfCy2WdR3P6735W5Yfpe").unwrap();
    let mut bytes = good.to_vec();
    println!("valid      : {}", hex::encode(&bytes));
    let last = bytes.len() - 1;
    bytes[last] ^= 1; // lowest bit of the CRC-32 field
    println!("crc flipped: {}", hex::encode(&bytes));
    let a = ByronAddress::from_bytes(&bytes);
    println!("ByronAddress::from_bytes  -> {:?}", a.as_ref().map(|a| a.crc));
    let b58 = a.unwrap().to_base58();
    println!("base58 of the corrupted address: {b58}");
    println!("ByronAddress::from_base58 -> ok={}", ByronAddress::from_base58(&b58).is_ok());
    println!("Address::from_bytes       -> ok={}", Address::from_bytes(&bytes).is_ok());
    println!("Address::from_hex         -> ok={}", Address::from_hex(&hex::encode(&bytes)).is_ok());
    println!("Address::from_str(base58) -> ok={}", Address::from_str(&b58).is_ok());
    // payload corruption: flip one bit of the address root
    let mut bytes = good.to_vec();
    bytes[10] ^= 0x10;
    println!("payload bit flipped: Address::from_bytes -> ok={}", Address::from_bytes(&bytes).is_ok());
}
