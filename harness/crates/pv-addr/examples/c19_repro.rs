//! Hand reproduction of the C19 finding: calls pallas-addresses directly, no harness code.
//! cargo run --release --offline -p pv-addr --example c19_repro
use pallas_addresses::{Address, ByronAddress};
use std::str::FromStr;

fn main() {
    // a published mainnet address (vector of the crate's own tests)
    let good = ByronAddress::from_base58("Ae2tdPwUPEZLs4HtbuNey7tK4hTKrwNwYtGqp7bDfCy2WdR3P6735W5Yfpe").unwrap();
    let mut bytes = good.to_vec();
    println!("valid      : {}", hex::encode(&bytes));
    let last = bytes.len() - 1;
    bytes[last] ^= 1; // lowest bit of the CRC-32 field
    println!("crc flipped: {}", hex::encode(&bytes));
    let a = ByronAddress::from_bytes(&bytes);
    println!("ByronAddress::from_bytes  -> {:?}", a.as_ref().map(|a| a.crc));
    let b58 = a.unwrap().to_base58();
    println!("base58 of the corrupted address: {b58}");
    println!("ByronAddress::from_base58 -> ok={}", ByronAddress::from_base58(&b58).is_ok());
    println!("Address::from_bytes       -> ok={}", Address::from_bytes(&bytes).is_ok());
    println!("Address::from_hex         -> ok={}", Address::from_hex(&hex::encode(&bytes)).is_ok());
    println!("Address::from_str(base58) -> ok={}", Address::from_str(&b58).is_ok());
    // payload corruption: flip one bit of the address root
    let mut bytes = good.to_vec();
    bytes[10] ^= 0x10;
    println!("payload bit flipped: Address::from_bytes -> ok={}", Address::from_bytes(&bytes).is_ok());

    // C19-2: an address longer than 132 bytes does not survive base58
    for n in [122usize, 123] {
        let payload = vec![0u8; n];
        let crc = crc32(&payload);
        let a = ByronAddress::new(&payload, crc);
        let s = a.to_base58();
        println!("{}-byte address: from_base58(to_base58()) -> {:?}", a.to_vec().len(), ByronAddress::from_base58(&s).map(|b| b == a));
    }
}

fn crc32(data: &[u8]) -> u32 {
    let mut crc: u32 = 0xffff_ffff;
    for b in data {
        crc ^= *b as u32;
        for _ in 0..8 {
            crc = if crc & 1 == 1 { (crc >> 1) ^ 0xEDB8_8320 } else { crc >> 1 };
        }
    }
    !crc
}
