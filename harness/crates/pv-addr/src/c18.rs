//! C18 — Shelley / stake addresses round-trip with a faithful header (DESIGN §C18).
//!
//! Cases are built *by construction* from (type, network id, hashes, pointer); the expected wire
//! bytes come from the CIP-19 table below, an own varint encoder and an own bech32 encoder
//! (`crate::refs`) — never from `typeid()`, `to_header()`, `varuint::write` or the `bech32` crate.
use crate::refs;
use pallas_addresses::{
    varuint, Address, Network, Pointer, ShelleyAddress, ShelleyDelegationPart, ShelleyPaymentPart, StakeAddress,
    StakePayload,
};
use pallas_crypto::hash::Hash;
use proptest::prelude::*;
use pvkit::cborx::hexser;
use pvkit::{pv_ensure, Fail, Obs, Session};
use serde::{Deserialize, Serialize};
use std::io::Cursor;
use std::str::FromStr;

/// CIP-19 header types implemented by the crate.
pub const TYPES: [u8; 10] = [0, 1, 2, 3, 4, 5, 6, 7, 14, 15];

#[derive(Debug, Clone, Serialize, Deserialize)]
pub struct Case {
    /// CIP-19 address type (high nibble of the header): 0..=7, 14, 15
    pub ty: u8,
    /// network id 0..=15 (low nibble of the header)
    pub net: u8,
    /// payment credential hash (types 0..7) / stake credential hash (types 14, 15)
    #[serde(with = "hexser")]
    pub h1: Vec<u8>,
    /// delegation credential hash (types 0..3)
    #[serde(with = "hexser")]
    pub h2: Vec<u8>,
    /// pointer (types 4, 5)
    pub ptr: (u64, u64, u64),
}

fn h28(v: &[u8]) -> Hash<28> {
    let mut a = [0u8; 28];
    a.copy_from_slice(v);
    Hash::from(a)
}

/// u64 values concentrated around every 7-bit boundary, 0 and MAX.
pub fn word() -> impl Strategy<Value = u64> {
    prop_oneof![
        2 => any::<u64>(),
        // random magnitude: uniformly chosen bit length
        3 => (any::<u64>(), 0u32..64).prop_map(|(v, sh)| v >> sh),
        // around 2^(7k)
        4 => (0u32..=9, -2i64..=2).prop_map(|(k, d)| {
            let base: u128 = 1u128 << (7 * k);
            let v = base as i128 + d as i128;
            v.clamp(0, u64::MAX as i128) as u64
        }),
        1 => Just(0u64),
        1 => Just(u64::MAX),
        1 => Just(u64::MAX - 1),
        1 => Just(1u64 << 63),
        1 => 0u64..256,
    ]
}

fn hash28() -> impl Strategy<Value = Vec<u8>> {
    prop_oneof![
        8 => prop::collection::vec(any::<u8>(), 28),
        1 => Just(vec![0u8; 28]),
        1 => Just(vec![0xffu8; 28]),
        // bytes that look like varint continuations / headers
        1 => prop::collection::vec(prop_oneof![Just(0x80u8), Just(0xffu8), Just(0x00u8), Just(0x7fu8)], 28),
    ]
}

pub fn case() -> impl Strategy<Value = Case> {
    (0usize..TYPES.len(), 0u8..16, hash28(), hash28(), (word(), word(), word()))
        .prop_map(|(t, net, h1, h2, ptr)| Case { ty: TYPES[t], net, h1, h2, ptr })
}

/// Expected wire bytes according to CIP-19: header = type << 4 | network id, then the payment
/// hash and (hash | three varints | nothing); stake addresses: header then the hash.
pub fn expected_bytes(c: &Case) -> Vec<u8> {
    let mut b = vec![(c.ty << 4) | c.net];
    b.extend_from_slice(&c.h1);
    match c.ty {
        0..=3 => b.extend_from_slice(&c.h2),
        4 | 5 => {
            b.extend(refs::varint(c.ptr.0));
            b.extend(refs::varint(c.ptr.1));
            b.extend(refs::varint(c.ptr.2));
        }
        _ => {}
    }
    b
}

/// Build the pallas value through the public constructors (CIP-19 table: which credential kinds a
/// type number denotes).
pub fn build(c: &Case) -> Address {
    let net = Network::from(c.net);
    let pay_is_script = c.ty & 1 == 1; // types 1,3,5,7 pay to a script
    match c.ty {
        0..=7 => {
            let pay = if pay_is_script {
                ShelleyPaymentPart::script_hash(h28(&c.h1))
            } else {
                ShelleyPaymentPart::key_hash(h28(&c.h1))
            };
            let del = match c.ty {
                0 | 1 => ShelleyDelegationPart::key_hash(h28(&c.h2)),
                2 | 3 => ShelleyDelegationPart::script_hash(h28(&c.h2)),
                4 | 5 => ShelleyDelegationPart::Pointer(Pointer::new(c.ptr.0, c.ptr.1, c.ptr.2)),
                _ => ShelleyDelegationPart::Null,
            };
            Address::Shelley(ShelleyAddress::new(net, pay, del))
        }
        14 => Address::Stake(StakeAddress::new(net, StakePayload::Stake(h28(&c.h1)))),
        15 => Address::Stake(StakeAddress::new(net, StakePayload::Script(h28(&c.h1)))),
        _ => unreachable!("type outside the generated domain"),
    }
}

fn expected_hrp(c: &Case) -> Option<&'static str> {
    match (c.ty, c.net) {
        (0..=7, 1) => Some("addr"),
        (0..=7, 0) => Some("addr_test"),
        (14 | 15, 1) => Some("stake"),
        (14 | 15, 0) => Some("stake_test"),
        _ => None,
    }
}

fn check(c: &Case, obs: &mut Obs) -> Result<(), Fail> {
    let t = c.ty;
    let a = build(c);
    let exp = expected_bytes(c);
    let exp_hex = hex::encode(&exp);

    // ---- header and payload written as CIP-19 says
    let got = a.to_vec();
    pv_ensure!(!got.is_empty(), format!("to_vec-empty:type{t}"), "to_vec() is empty");
    pv_ensure!(
        got[0] == exp[0],
        format!("header-byte:type{t}"),
        "header byte {:#04x}, expected type<<4|net = {:#04x} (type {}, net {})",
        got[0], exp[0], c.ty, c.net
    );
    pv_ensure!(
        got == exp,
        format!("payload-bytes:type{t}"),
        "to_vec() = {} but CIP-19 encoding is {}",
        hex::encode(&got), exp_hex
    );
    pv_ensure!(a.typeid() == c.ty, format!("typeid:type{t}"), "typeid() = {} expected {}", a.typeid(), c.ty);
    // what the header type says about the parts (CIP-19 table), read back through the accessors
    let script_by_type = matches!(c.ty, 1 | 2 | 3 | 5 | 7 | 15);
    pv_ensure!(a.has_script() == script_by_type, format!("has_script-accessor:type{t}"), "has_script() = {} for address type {}", a.has_script(), c.ty);
    pv_ensure!(a.is_enterprise() == matches!(c.ty, 6 | 7), format!("is_enterprise-accessor:type{t}"), "is_enterprise() = {} for address type {}", a.is_enterprise(), c.ty);
    pv_ensure!(a.network().map(|n| n.is_mainnet()) == Some(c.net == 1), format!("is_mainnet-accessor:type{t}"), "network().is_mainnet() = {:?} for network id {}", a.network().map(|n| n.is_mainnet()), c.net);
    pv_ensure!(
        a.network().map(|n| n.value()) == Some(c.net),
        format!("network-accessor:type{t}"),
        "network() = {:?} expected id {}",
        a.network(), c.net
    );
    match &a {
        Address::Shelley(s) => {
            pv_ensure!(s.to_header() == exp[0], format!("to_header:type{t}"), "to_header() = {:#04x} expected {:#04x}", s.to_header(), exp[0]);
        }
        Address::Stake(s) => {
            pv_ensure!(s.to_header() == exp[0], format!("to_header:type{t}"), "to_header() = {:#04x} expected {:#04x}", s.to_header(), exp[0]);
        }
        Address::Byron(_) => unreachable!(),
    }

    // ---- bytes
    let back = Address::from_bytes(&exp);
    pv_ensure!(
        matches!(&back, Ok(b) if *b == a),
        format!("roundtrip-bytes:type{t}"),
        "from_bytes({}) = {:?}, expected {:?}",
        exp_hex, back, a
    );
    let back = Address::try_from(&exp[..]);
    pv_ensure!(matches!(&back, Ok(b) if *b == a), format!("roundtrip-tryfrom:type{t}"), "try_from({}) = {:?}", exp_hex, back);
    // the parsed value re-encodes to the same bytes and carries the same type / network
    if let Ok(b) = &back {
        pv_ensure!(
            b.to_vec() == exp && b.typeid() == c.ty && b.network().map(|n| n.value()) == Some(c.net),
            format!("reencode-parsed:type{t}"),
            "parsed address re-encodes to {} / type {} / network {:?}",
            hex::encode(b.to_vec()), b.typeid(), b.network()
        );
    }

    // ---- hex
    let hx = a.to_hex();
    pv_ensure!(hx == exp_hex, format!("to_hex:type{t}"), "to_hex() = {} expected {}", hx, exp_hex);
    let back = Address::from_hex(&hx);
    pv_ensure!(matches!(&back, Ok(b) if *b == a), format!("roundtrip-hex:type{t}"), "from_hex({}) = {:?}", hx, back);

    // ---- bech32
    let be = a.to_bech32();
    match expected_hrp(c) {
        Some(hrp) => {
            obs.class(format!("bech32-hrp:{hrp}"));
            let want = refs::bech32(hrp, &exp);
            pv_ensure!(
                matches!(&be, Ok(s) if *s == want),
                format!("bech32-encoding:type{t}"),
                "to_bech32() = {:?}, expected {} (hrp {})",
                be, want, hrp
            );
            pv_ensure!(
                matches!(a.hrp(), Ok(h) if h == hrp),
                format!("hrp-accessor:type{t}"),
                "hrp() = {:?}, expected {}",
                a.hrp(), hrp
            );
            let back = Address::from_bech32(&want);
            pv_ensure!(
                matches!(&back, Ok(b) if *b == a),
                format!("roundtrip-bech32:type{t}"),
                "from_bech32({}) = {:?}",
                want, back
            );
        }
        None => {
            obs.class("bech32-unavailable(net>=2)");
            pv_ensure!(be.is_err(), format!("bech32-other-network:type{t}"), "to_bech32() on network id {} = {:?}, expected Err", c.net, be);
        }
    }

    // ---- coverage bookkeeping
    obs.class(format!("type{t}"));
    obs.class(match c.net {
        0 => "net:testnet",
        1 => "net:mainnet",
        _ => "net:other",
    });
    if matches!(c.ty, 4 | 5) {
        let lens = [refs::varint(c.ptr.0).len(), refs::varint(c.ptr.1).len(), refs::varint(c.ptr.2).len()];
        for l in lens {
            obs.class(format!("pointer-varint-len:{l}"));
        }
        if [c.ptr.0, c.ptr.1, c.ptr.2].contains(&u64::MAX) {
            obs.class("pointer-component-u64max");
        }
    }
    obs.nontrivial();

    // ---- Display / FromStr (last: the hex-fallback ambiguity below is a known finding)
    let shown = a.to_string();
    let want_shown = match expected_hrp(c) {
        Some(hrp) => refs::bech32(hrp, &exp),
        None => exp_hex.clone(),
    };
    pv_ensure!(shown == want_shown, format!("to_string:type{t}"), "to_string() = {} expected {}", shown, want_shown);
    let back = Address::from_str(&shown);
    if expected_hrp(c).is_none() {
        // to_string() fell back to hex; FromStr tries base58 (Byron) before hex
        if let Ok(Address::Byron(b)) = &back {
            pvkit::pv_fail!(
                "from_str-hex-form-taken-as-base58-byron",
                "to_string() of {:?} is the hex string {}, which from_str() reads as a base58 Byron address: {:?}",
                a, shown, b
            );
        }
    }
    pv_ensure!(matches!(&back, Ok(b) if *b == a), format!("roundtrip-string:type{t}"), "from_str({}) = {:?}", shown, back);
    Ok(())
}

#[derive(Debug, Clone, Serialize, Deserialize)]
pub struct Words {
    pub vals: Vec<u64>,
}

/// `varuint::write` equals the reference encoder; `varuint::read` returns the values and consumes
/// exactly the written bytes; `Pointer` uses the same codec.
fn check_varuint(w: &Words, obs: &mut Obs) -> Result<(), Fail> {
    let mut cur = Cursor::new(vec![]);
    let mut want = vec![];
    for v in &w.vals {
        varuint::write(&mut cur, *v);
        want.extend(refs::varint(*v));
    }
    let bytes = cur.into_inner();
    pv_ensure!(
        bytes == want,
        "varuint-write",
        "varuint::write{:?} = {} expected {}",
        w.vals, hex::encode(&bytes), hex::encode(&want)
    );
    let mut rd = Cursor::new(&want[..]);
    for (i, v) in w.vals.iter().enumerate() {
        let r = varuint::read(&mut rd);
        pv_ensure!(
            matches!(&r, Ok(x) if x == v),
            "varuint-read",
            "varuint::read #{i} of {} = {:?} expected {}",
            hex::encode(&want), r, v
        );
    }
    pv_ensure!(
        rd.position() as usize == want.len(),
        "varuint-read-consumption",
        "after reading {} values the cursor is at {} of {}",
        w.vals.len(), rd.position(), want.len()
    );
    if w.vals.len() == 3 {
        let p = Pointer::new(w.vals[0], w.vals[1], w.vals[2]);
        pv_ensure!(p.to_vec() == want, "pointer-to_vec", "Pointer{:?}.to_vec() = {} expected {}", w.vals, hex::encode(p.to_vec()), hex::encode(&want));
        let q = Pointer::parse(&want);
        pv_ensure!(
            matches!(&q, Ok(q) if *q == p && q.slot() == w.vals[0] && q.tx_idx() == w.vals[1] && q.cert_idx() == w.vals[2]),
            "pointer-parse",
            "Pointer::parse({}) = {:?} expected {:?}",
            hex::encode(&want), q, p
        );
    }
    for v in &w.vals {
        obs.class(format!("varint-len:{}", refs::varint(*v).len()));
    }
    obs.nontrivial_if(w.vals.iter().any(|v| *v >= 128));
    Ok(())
}

pub fn run(s: &Session) {
    s.set_rule("Addresses built by construction from (CIP-19 type in {0..7,14,15}, network id 0..15 via Network::from, \
        28-byte hashes, pointer of three u64 drawn around every 7-bit boundary, 0 and u64::MAX). Every case is a valid \
        address, so every case is non-trivial; distinct = distinct (type, net, hashes, pointer). varuint sub-checks: \
        non-trivial = some value >= 128 (multi-byte encoding)");
    s.assume("Network ids are built with Network::from(id), id in 0..=15 (Network::Other(0|1|>=16) is outside the domain: it has no header encoding)");
    s.assume("FromStr on the hex fallback (ids 2..15): a hex string is taken not to be simultaneously a valid bech32 string (needs a 30-bit checksum match)");
    for bad in refs::self_test() {
        s.health(false, &bad);
    }

    // (type x network id) exhaustively, with boundary payloads and seeded random payloads
    let per_cell = s.pick(50usize, 400usize);
    let boundary: [u64; 14] = [
        0, 1, 127, 128, 129, 16383, 16384, (1 << 35) - 1, 1 << 35, (1 << 56) - 1, 1 << 56, (1 << 63) - 1, 1 << 63, u64::MAX,
    ];
    let mut fam = vec![];
    for ty in TYPES {
        for net in 0u8..16 {
            for k in 0..per_cell {
                let mut r = pvkit::splitmix(s.seed ^ ((ty as u64) << 40) ^ ((net as u64) << 32) ^ k as u64);
                let mut next = || {
                    r = pvkit::splitmix(r);
                    r
                };
                let mut hash = |fill: Option<u8>| -> Vec<u8> {
                    match fill {
                        Some(f) => vec![f; 28],
                        None => (0..28).map(|_| next() as u8).collect(),
                    }
                };
                let (h1, h2) = match k {
                    0 => (hash(Some(0)), hash(Some(0))),
                    1 => (hash(Some(0xff)), hash(Some(0xff))),
                    2 => (hash(Some(0x80)), hash(Some(0x80))),
                    _ => (hash(None), hash(None)),
                };
                let b = |i: usize| boundary[i % boundary.len()];
                let ptr = if k < boundary.len() {
                    (b(k), b(k + 5), b(k + 9))
                } else if k % 3 == 0 {
                    (next() >> (next() % 64), next() >> (next() % 64), next() >> (next() % 64))
                } else {
                    (next(), next() >> 40, next() >> 56)
                };
                fam.push(Case { ty, net, h1, h2, ptr });
            }
        }
    }
    s.foreach("type-x-network-grid", fam, false, check);
    // found by the thorough tier (seed 1) and shrunk: the hex form of this address contains no '0',
    // so it is also a base58 string, and what it decodes to is accepted by the Byron parser as
    // payload 35644a48 / crc 2 (finding C18-1)
    let amb = Case {
        ty: 3,
        net: 7,
        h1: hex::decode("b5be89f96a1111111111111111111111111111111111111111111111").unwrap(),
        h2: vec![0xff; 28],
        ptr: (0, 0, 0),
    };
    s.foreach("hex-fallback-ambiguity-vector", vec![amb], false, check);
    s.forall("random-addresses", s.pick(1_500_000, 30_000_000), case, check);

    // varint codec
    let mut fam = vec![];
    let mut edge: Vec<u64> = vec![0, u64::MAX, u64::MAX - 1];
    for k in 0..=9u32 {
        let base: u128 = 1u128 << (7 * k);
        for d in -2i128..=2 {
            let v = base as i128 + d;
            if (0..=u64::MAX as i128).contains(&v) {
                edge.push(v as u64);
            }
        }
    }
    for k in 0..64u32 {
        edge.push(1u64 << k);
        edge.push((1u64 << k) - 1);
    }
    edge.sort();
    edge.dedup();
    for v in &edge {
        fam.push(Words { vals: vec![*v] });
    }
    for (i, a) in edge.iter().enumerate() {
        let b = edge[(i * 7 + 3) % edge.len()];
        let c = edge[(i * 13 + 5) % edge.len()];
        fam.push(Words { vals: vec![*a, b, c] });
    }
    s.foreach("varuint-boundaries", fam, false, check_varuint);
    s.forall(
        "varuint-random",
        s.pick(1_500_000, 30_000_000),
        || prop_oneof![word().prop_map(|v| vec![v]), (word(), word(), word()).prop_map(|(a, b, c)| vec![a, b, c])].prop_map(|vals| Words { vals }),
        check_varuint,
    );

    for ty in TYPES {
        s.health(s.class_count(&format!("type{ty}")) > 0, &format!("no address of type {ty} was generated"));
    }
    for hrp in ["addr", "addr_test", "stake", "stake_test"] {
        s.health(s.class_count(&format!("bech32-hrp:{hrp}")) > 0, &format!("no address with HRP {hrp} was generated"));
    }
    s.health(s.class_count("bech32-unavailable(net>=2)") > 0, "no address on network id >= 2 was generated");
    for l in 1..=10 {
        s.health(s.class_count(&format!("pointer-varint-len:{l}")) > 0, &format!("no pointer component with a {l}-byte varint"));
        s.health(s.class_count(&format!("varint-len:{l}")) > 0, &format!("no varuint value with a {l}-byte encoding"));
    }
    s.health(s.class_count("pointer-component-u64max") > 0, "no pointer with a u64::MAX component");
}
