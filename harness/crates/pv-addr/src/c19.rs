//! C19 — Byron addresses round-trip; addresses whose CRC-32 does not match are rejected (DESIGN §C19).
//!
//! Oracles: pvkit's bit-by-bit CRC-32, cborx (own CBOR reader/writer) for the wire structure
//! `[tag24(bytes(payload)), crc]`, own base58 encoder. The `crc`, `base58` and minicbor code paths
//! of the crate are only ever on the *observed* side.
use crate::refs::{self, Verdicts};
use pallas_addresses::byron::{AddrAttrProperty, AddrDistr, AddrType, AddressPayload, SpendingData};
use pallas_addresses::{Address, ByronAddress};
use pallas_codec::minicbor::bytes::ByteVec;
use pallas_crypto::hash::Hash;
use proptest::prelude::*;
use pvkit::cborx::{self, hexser, Kind, Node, W};
use pvkit::crc32::crc32;
use pvkit::mutate::{self, MutOp};
use pvkit::{pv_ensure, Fail, Obs, Session};
use serde::{Deserialize, Serialize};
use std::str::FromStr;

#[derive(Debug, Clone, PartialEq, Serialize, Deserialize)]
pub enum Attr {
    /// key 0; `single` = SingleKeyDistribution(stakeholder), else BootstrapEraDistribution
    Distr {
        single: bool,
        #[serde(with = "hexser")]
        stakeholder: Vec<u8>,
    },
    /// key 1
    Path(#[serde(with = "hexser")] Vec<u8>),
    /// key 2
    Tag(#[serde(with = "hexser")] Vec<u8>),
}

#[derive(Debug, Clone, Serialize, Deserialize)]
pub struct Recipe {
    /// 0 PubKey, 1 Script, 2 Redeem, 3 Other(max(other,3))
    pub kind: u8,
    pub other: u32,
    /// spending-data variant used with `Other` (mod 3); for kinds 0..2 it follows the kind
    pub spend_kind: u8,
    #[serde(with = "hexser")]
    pub spend: Vec<u8>,
    /// at most one attribute per key, in this order
    pub attrs: Vec<Attr>,
}

fn bytes_around(lens: &'static [usize], max: usize) -> impl Strategy<Value = Vec<u8>> {
    prop_oneof![
        3 => (0usize..lens.len()).prop_flat_map(move |i| prop::collection::vec(any::<u8>(), lens[i])),
        1 => prop::collection::vec(any::<u8>(), 0..=max),
    ]
}

pub fn recipe() -> impl Strategy<Value = Recipe> {
    let distr = prop::option::weighted(0.25, (any::<bool>(), prop::collection::vec(any::<u8>(), 28)));
    // derivation path: in real addresses a CBOR byte string holding the ~28-byte encrypted path
    // (1 in 12 paths is long enough to push the whole address beyond 132 bytes)
    let path = prop::option::weighted(
        0.5,
        prop_oneof![11 => bytes_around(&[30, 0, 1, 23, 24], 40), 1 => prop::collection::vec(any::<u8>(), 41..=140)],
    );
    // network tag: in real addresses a CBOR-encoded protocol magic (1..5 bytes)
    let tag = prop::option::weighted(0.5, bytes_around(&[5, 1, 2, 3], 8));
    (
        prop_oneof![3 => Just(0u8), 2 => Just(1u8), 2 => Just(2u8), 2 => Just(3u8)],
        prop_oneof![2 => any::<u32>(), 1 => 0u32..300, 1 => Just(u32::MAX), 1 => 65530u32..65545],
        0u8..3,
        bytes_around(&[64, 32, 28], 70),
        distr,
        path,
        tag,
        0u8..6,
    )
        .prop_map(|(kind, other, spend_kind, spend, distr, path, tag, order)| {
            let mut attrs = vec![];
            if let Some((single, stakeholder)) = distr {
                attrs.push(Attr::Distr { single, stakeholder });
            }
            if let Some(p) = path {
                attrs.push(Attr::Path(p));
            }
            if let Some(t) = tag {
                attrs.push(Attr::Tag(t));
            }
            // one of the (up to 6) orders of the chosen attributes
            let mut o = order as usize;
            let mut out = vec![];
            while !attrs.is_empty() {
                let i = o % attrs.len();
                o /= attrs.len().max(1);
                out.push(attrs.remove(i));
            }
            Recipe { kind, other, spend_kind, spend, attrs: out }
        })
}

impl Recipe {
    fn type_number(&self) -> u32 {
        match self.kind {
            0..=2 => self.kind as u32,
            _ => self.other.max(3),
        }
    }
    fn type_name(&self) -> &'static str {
        match self.kind {
            0 => "PubKey",
            1 => "Script",
            2 => "Redeem",
            _ => "Other",
        }
    }
    fn attr_set_name(&self) -> String {
        if self.attrs.is_empty() {
            return "attrs:none".into();
        }
        let mut names: Vec<&str> = self
            .attrs
            .iter()
            .map(|a| match a {
                Attr::Distr { .. } => "distr",
                Attr::Path(_) => "path",
                Attr::Tag(_) => "tag",
            })
            .collect();
        names.sort();
        format!("attrs:{}", names.join("+"))
    }
    /// The payload value through the public constructor.
    pub fn payload(&self) -> AddressPayload {
        let addrtype = match self.kind {
            0 => AddrType::PubKey,
            1 => AddrType::Script,
            2 => AddrType::Redeem,
            _ => AddrType::Other(self.other.max(3)),
        };
        let sk = if self.kind <= 2 { self.kind } else { self.spend_kind % 3 };
        let data = ByteVec::from(self.spend.clone());
        let spending = match sk {
            0 => SpendingData::PubKey(data),
            1 => SpendingData::Script(data),
            _ => SpendingData::Redeem(data),
        };
        let attrs: Vec<AddrAttrProperty> = self
            .attrs
            .iter()
            .map(|a| match a {
                Attr::Distr { single: true, stakeholder } => {
                    let mut h = [0u8; 28];
                    h.copy_from_slice(stakeholder);
                    AddrAttrProperty::AddrDistr(AddrDistr::SingleKeyDistribution(Hash::from(h)))
                }
                Attr::Distr { single: false, .. } => AddrAttrProperty::AddrDistr(AddrDistr::BootstrapEraDistribution),
                Attr::Path(p) => AddrAttrProperty::DerivationPath(ByteVec::from(p.clone())),
                Attr::Tag(t) => AddrAttrProperty::NetworkTag(ByteVec::from(t.clone())),
            })
            .collect();
        AddressPayload::new(addrtype, spending, attrs.into())
    }
    /// Expected CBOR of the payload (Byron `Address'`: [root, attributes map, type]) given the root.
    fn expected_payload_cbor(&self, root: &[u8]) -> Vec<u8> {
        let attrs = self
            .attrs
            .iter()
            .map(|a| match a {
                Attr::Distr { single: true, stakeholder } => {
                    (cborx::uint(0), cborx::array(vec![cborx::uint(0), cborx::bytes(stakeholder)]))
                }
                Attr::Distr { single: false, .. } => (cborx::uint(0), cborx::array(vec![cborx::uint(1)])),
                Attr::Path(p) => (cborx::uint(1), cborx::bytes(p)),
                Attr::Tag(t) => (cborx::uint(2), cborx::bytes(t)),
            })
            .collect();
        cborx::write(&cborx::array(vec![cborx::bytes(root), cborx::map(attrs), cborx::uint(self.type_number() as u64)]))
    }
}

/// `[tag24(bytes(payload)), crc]` written by cborx.
fn frame(payload: &[u8], crc: u64) -> Vec<u8> {
    cborx::write(&cborx::array(vec![cborx::tag(24, cborx::bytes(payload)), cborx::uint(crc)]))
}

/// What one parsing entry point returned.
enum Parsed {
    Byron(ByronAddress),
    /// `Address::*` succeeded with a non-Byron variant
    NotByron(String),
    Rejected,
}

/// Serialised addresses longer than this cannot be read back from base58 on the unchanged tree
/// (finding C19-2); used only to give that failure a signature of its own.
const BASE58_LIMIT: usize = 132;

pub const ENTRIES: [&str; 7] = [
    "ByronAddress::from_bytes",
    "ByronAddress::from_base58",
    "Address::from_bytes",
    "Address::try_from",
    "Address::from_hex",
    "Address::from_str(base58)",
    "Address::from_str(hex)",
];

fn of_addr<E>(r: Result<Address, E>) -> Parsed {
    match r {
        Ok(Address::Byron(a)) => Parsed::Byron(a),
        Ok(other) => Parsed::NotByron(format!("{other:?}")),
        Err(_) => Parsed::Rejected,
    }
}

fn of_byron<E>(r: Result<ByronAddress, E>) -> Parsed {
    match r {
        Ok(a) => Parsed::Byron(a),
        Err(_) => Parsed::Rejected,
    }
}

/// Every way the crate parses a Byron address from bytes / base58 / hex.
fn parse_all(b: &[u8]) -> Vec<(&'static str, Parsed)> {
    let b58 = refs::base58(b);
    let hx = hex::encode(b);
    vec![
        (ENTRIES[0], of_byron(ByronAddress::from_bytes(b))),
        (ENTRIES[1], of_byron(ByronAddress::from_base58(&b58))),
        (ENTRIES[2], of_addr(Address::from_bytes(b))),
        (ENTRIES[3], of_addr(Address::try_from(b))),
        (ENTRIES[4], of_addr(Address::from_hex(&hx))),
        (ENTRIES[5], of_addr(Address::from_str(&b58))),
        (ENTRIES[6], of_addr(Address::from_str(&hx))),
    ]
}

fn pl(a: &ByronAddress) -> &[u8] {
    let v: &Vec<u8> = &a.payload.0;
    v.as_slice()
}

fn byron_invariant(a: &ByronAddress) -> bool {
    crc32(pl(a)) == a.crc
}

/// Universal invariant: whatever an entry point accepts as a Byron address carries a checksum
/// that matches its payload. Returns the number of entry points that returned a Byron address.
fn check_invariant(v: &mut Verdicts, b: &[u8], what: &str) -> usize {
    let mut accepted = 0;
    for (entry, r) in parse_all(b) {
        if let Parsed::Byron(a) = r {
            accepted += 1;
            if !byron_invariant(&a) {
                v.fail(
                    &format!("crc-not-verified:{entry}"),
                    format!(
                        "{what}: {entry} accepted {} as a Byron address with crc {:#010x}, but CRC-32 of its payload is {:#010x}",
                        hex::encode(b), a.crc, crc32(pl(&a))
                    ),
                );
            }
        }
    }
    accepted
}

/// The input carries `[tag24(bytes p), c]` with `c != crc32(p)` (p or c corrupted): every entry
/// point has to fail.
fn check_rejected(v: &mut Verdicts, b: &[u8], what: &str) {
    for (entry, r) in parse_all(b) {
        match r {
            Parsed::Rejected => {}
            Parsed::Byron(a) if !byron_invariant(&a) => v.fail(
                &format!("crc-not-verified:{entry}"),
                format!(
                    "{what}: {entry} accepted {} (crc field {:#010x}, CRC-32 of payload {:#010x})",
                    hex::encode(b), a.crc, crc32(pl(&a))
                ),
            ),
            Parsed::Byron(a) => v.fail(
                &format!("corrupted-input-accepted:{entry}"),
                format!("{what}: {entry} turned the corrupted input {} into the self-consistent address {:?}", hex::encode(b), a),
            ),
            Parsed::NotByron(o) => v.fail(
                &format!("corrupted-input-accepted-as-other:{entry}"),
                format!("{what}: {entry} parsed the corrupted Byron address {} as {o}", hex::encode(b)),
            ),
        }
    }
}

/// Spans (payload content bytes, crc argument bytes) of a well-formed `[tag24(bytes p), c]`.
struct Layout {
    payload: Vec<u8>,
    crc: u64,
    payload_span: std::ops::Range<usize>,
    crc_value_span: std::ops::Range<usize>,
}

fn layout(bytes: &[u8]) -> Result<Layout, String> {
    let root = cborx::read(bytes).map_err(|e| format!("not a single well-formed CBOR item: {e:?}"))?;
    if !root.is_plain() {
        return Err("not in the canonical form (minimal heads, definite lengths)".into());
    }
    let items = root.as_array().ok_or("outer item is not an array")?;
    if items.len() != 2 {
        return Err(format!("outer array has {} items", items.len()));
    }
    if items[0].tag() != Some(24) {
        return Err("first item is not tag 24".into());
    }
    let inner: &Node = items[0].untagged();
    let payload = inner.as_bytes().ok_or("tag 24 does not wrap a byte string")?;
    let crc = items[1].as_u64().ok_or("second item is not an unsigned integer")?;
    let crc_value_span = match items[1].k {
        Kind::UInt(_, W::Imm) => items[1].e..items[1].e,
        _ => items[1].s + 1..items[1].e,
    };
    Ok(Layout { payload_span: inner.e - payload.len()..inner.e, payload, crc, crc_value_span })
}

/// Round-trips of a constructed address + wire structure + checksum value.
fn check_roundtrip(s: &Session, r: &Recipe, obs: &mut Obs) -> Result<(), Fail> {
    let ty = r.type_name();
    let payload = r.payload();
    let a = ByronAddress::from_decoded(payload.clone());
    let bytes = a.to_vec();

    // wire structure and checksum, independently
    let lay = match layout(&bytes) {
        Ok(l) => l,
        Err(e) => pvkit::pv_fail!("wire-structure", "to_vec() = {} is not [tag24(bytes), uint]: {}", hex::encode(&bytes), e),
    };
    pv_ensure!(
        lay.crc == crc32(&lay.payload) as u64,
        "crc-value",
        "serialised crc {:#010x} but CRC-32/ISO-HDLC of the payload {} is {:#010x}",
        lay.crc, hex::encode(&lay.payload), crc32(&lay.payload)
    );
    pv_ensure!(
        a.crc as u64 == lay.crc && pl(&a) == &lay.payload[..],
        "fields-vs-wire",
        "fields (payload {}, crc {:#x}) differ from the wire ({} / {:#x})",
        hex::encode(pl(&a)), a.crc, hex::encode(&lay.payload), lay.crc
    );
    let want_payload = r.expected_payload_cbor(payload.root.as_ref());
    pv_ensure!(
        lay.payload == want_payload,
        format!("payload-cbor:{ty}"),
        "payload bytes {} but [root, attributes, type] encodes as {}",
        hex::encode(&lay.payload), hex::encode(&want_payload)
    );
    pv_ensure!(bytes == frame(&want_payload, crc32(&want_payload) as u64), "frame-bytes", "to_vec() = {}", hex::encode(&bytes));
    pv_ensure!(a.typeid() == 8 && bytes[0] >> 4 == 8, "typeid", "typeid() = {}, first byte {:#04x}", a.typeid(), bytes[0]);

    // CBOR round-trip of the payload
    let dec = a.decode();
    pv_ensure!(
        matches!(&dec, Ok(p) if *p == payload),
        format!("roundtrip-payload-cbor:{ty}"),
        "decode() = {:?}, built from {:?}",
        dec, payload
    );
    if let Ok(p) = dec {
        let again = ByronAddress::from_decoded(p);
        pv_ensure!(again == a, format!("roundtrip-from_decoded:{ty}"), "from_decoded(decode()) = {:?} != {:?}", again, a);
    }

    // string forms
    let b58 = a.to_base58();
    let want58 = refs::base58(&bytes);
    pv_ensure!(b58 == want58, "base58-encoding", "to_base58() = {} expected {}", b58, want58);
    pv_ensure!(a.to_hex() == hex::encode(&bytes), "to_hex", "to_hex() = {}", a.to_hex());
    let wrapped = Address::Byron(a.clone());
    pv_ensure!(wrapped.to_string() == want58, "to_string", "Address::to_string() = {} expected {}", wrapped, want58);
    pv_ensure!(wrapped.to_vec() == bytes && wrapped.to_hex() == hex::encode(&bytes), "address-to_vec", "Address::to_vec()/to_hex() differ from ByronAddress");

    // every parsing entry point returns the same address
    let mut v = Verdicts::new(s);
    for (entry, got) in parse_all(&bytes) {
        match got {
            Parsed::Byron(b) if b == a => {}
            Parsed::Byron(b) => v.fail(&format!("roundtrip-mismatch:{entry}"), format!("{entry} of {} gives {:?}, expected {:?}", hex::encode(&bytes), b, a)),
            Parsed::NotByron(o) => v.fail(&format!("roundtrip-mismatch:{entry}"), format!("{entry} of {} gives {o}", hex::encode(&bytes))),
            // root cause of its own: the base58 decoder gives up on inputs longer than 132 bytes
            Parsed::Rejected if bytes.len() > BASE58_LIMIT && entry.contains("base58") => v.fail(
                &format!("base58-decode-length-limit:{entry}"),
                format!("{entry} rejects the valid {}-byte address {} that to_base58() printed ({})", bytes.len(), hex::encode(&bytes), want58),
            ),
            Parsed::Rejected => v.fail(&format!("valid-address-rejected:{entry}"), format!("{entry} rejects the valid address {} ({})", hex::encode(&bytes), want58)),
        }
    }
    obs.class(if bytes.len() > BASE58_LIMIT { "address-length:>132" } else { "address-length:<=132" });
    obs.class(format!("type:{ty}"));
    obs.class(r.attr_set_name());
    if r.attrs.len() >= 2 {
        obs.class("attrs:2+");
    }
    obs.nontrivial();
    v.finish(obs)
}

/// Every single-bit flip of a serialised address.
fn check_flips_of(s: &Session, bytes: &[u8], obs: &mut Obs) -> Result<(), Fail> {
    let lay = match layout(bytes) {
        Ok(l) => l,
        Err(e) => pvkit::pv_fail!("wire-structure", "{} is not [tag24(bytes), uint]: {}", hex::encode(bytes), e),
    };
    pv_ensure!(lay.crc == crc32(&lay.payload) as u64, "crc-value", "the unflipped address {} does not carry the CRC-32 of its payload", hex::encode(bytes));
    let mut v = Verdicts::new(s);
    let (mut n_payload, mut n_crc, mut n_framing, mut framing_ok) = (0, 0, 0, 0);
    let mut b = bytes.to_vec();
    for i in 0..bytes.len() {
        for bit in 0..8 {
            b[i] ^= 1 << bit;
            if lay.payload_span.contains(&i) {
                n_payload += 1;
                check_rejected(&mut v, &b, &format!("bit {bit} of payload byte {i} flipped"));
            } else if lay.crc_value_span.contains(&i) {
                n_crc += 1;
                check_rejected(&mut v, &b, &format!("bit {bit} of checksum byte {i} flipped"));
            } else {
                n_framing += 1;
                if check_invariant(&mut v, &b, &format!("bit {bit} of framing byte {i} flipped")) > 0 {
                    framing_ok += 1;
                }
            }
            b[i] ^= 1 << bit;
        }
    }
    debug_assert_eq!(b, bytes);
    if n_payload > 0 {
        obs.class("flips:payload-content");
    }
    if n_crc > 0 {
        obs.class("flips:crc-value");
    }
    if n_framing > 0 {
        obs.class("flips:framing");
    }
    if framing_ok > 0 {
        obs.class("framing-flip-still-parsed-as-byron");
    }
    obs.nontrivial_if(n_payload > 0 && n_crc > 0);
    v.finish(obs)
}

fn check_flips(s: &Session, r: &Recipe, obs: &mut Obs) -> Result<(), Fail> {
    let a = ByronAddress::from_decoded(r.payload());
    obs.class(format!("flip-type:{}", r.type_name()));
    check_flips_of(s, &a.to_vec(), obs)
}

#[derive(Debug, Clone, Serialize, Deserialize)]
pub enum Forge {
    /// keep the payload, xor the checksum with a non-zero delta
    CrcXor(u32),
    /// keep the checksum, damage the payload bytes (any number of bits / bytes, length changes)
    PayloadDamage(Vec<MutOp>),
    /// arbitrary payload bytes and arbitrary checksum
    Arbitrary {
        #[serde(with = "hexser")]
        payload: Vec<u8>,
        crc: u32,
    },
    /// damage anywhere in the serialised address (framing included): invariant only
    WholeDamage(Vec<MutOp>),
    /// checksum written wider than necessary / as a 64-bit value above u32
    WideCrc { xor: u32, high: u32 },
}

#[derive(Debug, Clone, Serialize, Deserialize)]
pub struct ForgeCase {
    pub recipe: Recipe,
    pub forge: Forge,
}

fn forge_case() -> impl Strategy<Value = ForgeCase> {
    let forge = prop_oneof![
        3 => prop_oneof![any::<u32>(), (0u32..32).prop_map(|k| 1 << k), Just(u32::MAX)].prop_map(|d| Forge::CrcXor(d.max(1))),
        3 => mutate::mutops(3).prop_map(Forge::PayloadDamage),
        2 => (prop::collection::vec(any::<u8>(), 0..48), any::<u32>()).prop_map(|(payload, crc)| Forge::Arbitrary { payload, crc }),
        3 => mutate::mutops(3).prop_map(Forge::WholeDamage),
        1 => (any::<u32>(), prop_oneof![Just(0u32), any::<u32>()]).prop_map(|(xor, high)| Forge::WideCrc { xor, high }),
    ];
    (recipe(), forge).prop_map(|(recipe, forge)| ForgeCase { recipe, forge })
}

fn check_forged(s: &Session, c: &ForgeCase, obs: &mut Obs) -> Result<(), Fail> {
    let a = ByronAddress::from_decoded(c.recipe.payload());
    let good = a.to_vec();
    let payload: Vec<u8> = pl(&a).to_vec();
    let crc = crc32(&payload);
    pv_ensure!(a.crc == crc, "crc-value", "from_decoded stored crc {:#010x}, CRC-32 of the payload is {:#010x}", a.crc, crc);
    let mut v = Verdicts::new(s);
    match &c.forge {
        Forge::CrcXor(d) => {
            obs.class("forge:crc-xor");
            // through the crate's own constructor and through the independent writer
            let forged = ByronAddress::new(&payload, crc ^ d).to_vec();
            check_rejected(&mut v, &forged, "checksum replaced (ByronAddress::new)");
            let forged2 = frame(&payload, (crc ^ d) as u64);
            check_rejected(&mut v, &forged2, "checksum replaced");
            obs.nontrivial();
        }
        Forge::PayloadDamage(ops) => {
            let (p2, _) = mutate::damage(&payload, ops, &good);
            if crc32(&p2) == crc {
                obs.class("forge:payload-damage-noop-or-collision");
                obs.discard();
            } else {
                obs.class("forge:payload-damage");
                check_rejected(&mut v, &frame(&p2, crc as u64), "payload replaced, checksum kept");
                obs.nontrivial();
            }
        }
        Forge::Arbitrary { payload: p, crc: c2 } => {
            if crc32(p) == *c2 {
                obs.class("forge:arbitrary-matching");
                check_invariant(&mut v, &frame(p, *c2 as u64), "arbitrary payload with its own checksum");
            } else {
                obs.class("forge:arbitrary-mismatching");
                check_rejected(&mut v, &frame(p, *c2 as u64), "arbitrary payload and checksum");
                obs.nontrivial();
            }
        }
        Forge::WholeDamage(ops) => {
            let (b2, _) = mutate::damage(&good, ops, &payload);
            let n = check_invariant(&mut v, &b2, "damaged serialisation");
            obs.class(if n > 0 { "forge:whole-damage-parsed" } else { "forge:whole-damage-rejected" });
            obs.nontrivial_if(b2 != good);
        }
        Forge::WideCrc { xor, high } => {
            // a checksum item that is a 64-bit value: either a widened encoding of the right /
            // wrong value, or a value above u32::MAX whose low half may equal the real checksum
            let val = ((*high as u64) << 32) | (crc ^ xor) as u64;
            let node = cborx::array(vec![
                cborx::tag(24, cborx::bytes(&payload)),
                cborx::node(Kind::UInt(val, W::B8)),
            ]);
            let b2 = cborx::write(&node);
            if val == crc as u64 {
                obs.class("forge:wide-crc-equal");
                check_invariant(&mut v, &b2, "checksum in 8-byte form");
            } else {
                obs.class("forge:wide-crc-mismatching");
                check_rejected(&mut v, &b2, "checksum item is a different (64-bit) number");
                obs.nontrivial();
            }
        }
    }
    v.finish(obs)
}

/// Published mainnet Byron addresses (the three vectors of the crate's own tests).
const MAINNET_VECTORS: [&str; 3] = [
    "37btjrVyb4KDXBNC4haBVPCrro8AQPHwvCMp3RFhhSVWwfFmZ6wwzSK6JK1hY6wHNmtrpTf1kdbva8TCneM2YsiXT7mrzT21EacHnPpz5YyUdj64na",
    "DdzFFzCqrht7PQiAhzrn6rNNoADJieTWBt8KeK9BZdUsGyX9ooYD9NpMCTGjQoUKcHN47g8JMXhvKogsGpQHtiQ65fZwiypjrC6d3a4Q",
    "Ae2tdPwUPEZLs4HtbuNey7tK4hTKrwNwYtGqp7bDfCy2WdR3P6735W5Yfpe",
];

fn check_vector(s: &Session, text: &String, obs: &mut Obs) -> Result<(), Fail> {
    let a = match ByronAddress::from_base58(text) {
        Ok(a) => a,
        Err(e) => pvkit::pv_fail!("valid-address-rejected:ByronAddress::from_base58", "mainnet address {} rejected: {:?}", text, e),
    };
    let bytes = a.to_vec();
    // base58 is injective, so this pins `bytes` to the published string without the crate's decoder
    pv_ensure!(refs::base58(&bytes) == *text, "base58-encoding", "{} re-encodes (own base58 of to_vec) as {}", text, refs::base58(&bytes));
    pv_ensure!(a.to_base58() == *text, "base58-encoding", "to_base58() = {}", a.to_base58());
    pv_ensure!(byron_invariant(&a), "crc-value", "published address {} fails the CRC-32 check", text);
    let back = Address::from_str(text);
    pv_ensure!(matches!(&back, Ok(Address::Byron(b)) if *b == a), "roundtrip-mismatch:Address::from_str(base58)", "from_str({}) = {:?}", text, back);
    obs.class("mainnet-vector");
    check_flips_of(s, &bytes, obs)
}

pub fn run(s: &Session) {
    s.set_rule("Addresses = ByronAddress::from_decoded(AddressPayload::new(type in {PubKey,Script,Redeem,Other(n>=3)}, \
        spending data of 0..70 bytes, attribute subset of {distribution, derivation path, network tag} in any order)), plus \
        the three published mainnet vectors. roundtrip: every case non-trivial. single-bit-flips: one case = one address with \
        *all* 8*len single-bit flips applied one at a time; non-trivial = it had flips inside the payload bytes and inside \
        the checksum bytes (each must be rejected by all 7 parsing entry points). forged: non-trivial = the forged \
        [tag24(bytes p), c] has c != CRC-32(p) (or, for whole-damage, the bytes changed)");
    s.assume("AddrType::Other(n) is generated with n >= 3 only (Other(0..2) is not a canonical value: it decodes as PubKey/Script/Redeem)");
    s.assume("at most one attribute per key");
    for bad in refs::self_test() {
        s.health(false, &bad);
    }
    s.foreach("mainnet-vectors", MAINNET_VECTORS.iter().map(|v| v.to_string()).collect(), false, |c, o| check_vector(s, c, o));
    s.forall("roundtrip", s.pick(80_000, 2_000_000), recipe, |c, o| check_roundtrip(s, c, o));
    s.forall("single-bit-flips", s.pick(5_000, 150_000), recipe, |c, o| check_flips(s, c, o));
    s.forall("forged", s.pick(80_000, 2_000_000), forge_case, |c, o| check_forged(s, c, o));

    for t in ["PubKey", "Script", "Redeem", "Other"] {
        s.health(s.class_count(&format!("type:{t}")) > 0, &format!("no address of type {t} generated"));
        s.health(s.class_count(&format!("flip-type:{t}")) > 0, &format!("no address of type {t} in the flip sub-check"));
    }
    for a in ["attrs:none", "attrs:path", "attrs:tag", "attrs:path+tag", "attrs:2+"] {
        s.health(s.class_count(a) > 0, &format!("attribute set {a} never generated"));
    }
    s.health(s.class_count("address-length:>132") > 0, "no address longer than 132 bytes generated");
    s.health(s.class_count("flips:payload-content") > 0 && s.class_count("flips:crc-value") > 0, "no payload / checksum flips were made");
    for f in ["forge:crc-xor", "forge:payload-damage", "forge:arbitrary-mismatching", "forge:wide-crc-mismatching"] {
        s.health(s.class_count(f) > 0, &format!("{f} never generated"));
    }
    s.health(s.class_count("forge:whole-damage-parsed") + s.class_count("forge:whole-damage-rejected") > 0, "whole-damage never generated");
}
