mod c18;
mod c19;
mod refs;

use pvkit::session::CheckDef;

fn main() {
    pvkit::main(&[
        CheckDef { id: "C18", level: "exploration", run: c18::run },
        CheckDef { id: "C19", level: "exploration", run: c19::run },
    ]);
}
