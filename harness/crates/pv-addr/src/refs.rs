//! Independent reference encoders used as oracles by C18 / C19. Nothing here calls into
//! pallas-addresses, `bech32`, `base58` or `crc`.
use pvkit::{Fail, Obs, Session};

/// Cardano pointer-address variable-length natural (ledger spec `putVariableLengthWord64`):
/// big-endian base-128 digits, every byte but the last has the high bit set, minimal length.
pub fn varint(n: u64) -> Vec<u8> {
    // number of 7-bit groups needed (at least one)
    let mut groups = 1;
    while groups < 10 && (n >> (7 * groups)) != 0 {
        groups += 1;
    }
    let mut out = Vec::with_capacity(groups);
    for g in (0..groups).rev() {
        let digit = ((n >> (7 * g)) & 0x7f) as u8;
        out.push(if g == 0 { digit } else { digit | 0x80 });
    }
    out
}

/// Own decoder for a sequence of exactly `k` minimal varints covering the whole slice
/// (used to cross-check `varint`).
pub fn varints_decode(mut b: &[u8], k: usize) -> Option<Vec<u64>> {
    let mut out = vec![];
    for _ in 0..k {
        let mut acc: u128 = 0;
        loop {
            let (&x, rest) = b.split_first()?;
            b = rest;
            acc = acc * 128 + (x & 0x7f) as u128;
            if acc > u64::MAX as u128 {
                return None;
            }
            if x & 0x80 == 0 {
                break;
            }
        }
        out.push(acc as u64);
    }
    b.is_empty().then_some(out)
}

const BECH32_CHARSET: &[u8; 32] = b"qpzry9x8gf2tvdw0s3jn54khce6mua7l";

fn bech32_polymod(values: &[u8]) -> u32 {
    const GEN: [u32; 5] = [0x3b6a57b2, 0x26508e6d, 0x1ea119fa, 0x3d4233dd, 0x2a1462b3];
    let mut chk: u32 = 1;
    for v in values {
        let top = chk >> 25;
        chk = ((chk & 0x01ff_ffff) << 5) ^ (*v as u32);
        for (i, g) in GEN.iter().enumerate() {
            if (top >> i) & 1 == 1 {
                chk ^= g;
            }
        }
    }
    chk
}

/// BIP-173 bech32 (checksum constant 1, no length limit as used by CIP-5/CIP-19).
pub fn bech32(hrp: &str, data: &[u8]) -> String {
    // 8 -> 5 bit regrouping with zero padding
    let mut five: Vec<u8> = vec![];
    let mut acc: u32 = 0;
    let mut bits = 0;
    for b in data {
        acc = (acc << 8) | *b as u32;
        bits += 8;
        while bits >= 5 {
            bits -= 5;
            five.push(((acc >> bits) & 31) as u8);
        }
    }
    if bits > 0 {
        five.push(((acc << (5 - bits)) & 31) as u8);
    }
    let mut v: Vec<u8> = hrp.bytes().map(|c| c >> 5).collect();
    v.push(0);
    v.extend(hrp.bytes().map(|c| c & 31));
    v.extend(&five);
    v.extend([0u8; 6]);
    let pm = bech32_polymod(&v) ^ 1;
    let mut s = String::from(hrp);
    s.push('1');
    for d in &five {
        s.push(BECH32_CHARSET[*d as usize] as char);
    }
    for i in 0..6 {
        s.push(BECH32_CHARSET[((pm >> (5 * (5 - i))) & 31) as usize] as char);
    }
    s
}

const B58: &[u8; 58] = b"123456789ABCDEFGHJKLMNPQRSTUVWXYZabcdefghijkmnopqrstuvwxyz";

/// Bitcoin-alphabet base58 (leading zero bytes become '1').
pub fn base58(data: &[u8]) -> String {
    let zeros = data.iter().take_while(|b| **b == 0).count();
    // little-endian base-58 digits
    let mut digits: Vec<u8> = vec![];
    for b in &data[zeros..] {
        let mut carry = *b as u32;
        for d in digits.iter_mut() {
            carry += (*d as u32) << 8;
            *d = (carry % 58) as u8;
            carry /= 58;
        }
        while carry > 0 {
            digits.push((carry % 58) as u8);
            carry /= 58;
        }
    }
    let mut s = String::with_capacity(zeros + digits.len());
    for _ in 0..zeros {
        s.push('1');
    }
    for d in digits.iter().rev() {
        s.push(B58[*d as usize] as char);
    }
    s
}

/// Collects the failures of one case so that the remaining assertions of the case still run when
/// a failure has a *known* signature. The case reports the first unknown failure, or else the first
/// known one (which the session counts and treats as a pass).
pub struct Verdicts<'a> {
    s: &'a Session,
    fails: Vec<Fail>,
}

impl<'a> Verdicts<'a> {
    pub fn new(s: &'a Session) -> Self {
        Verdicts { s, fails: vec![] }
    }
    pub fn fail(&mut self, sig: &str, msg: String) {
        // keep at most one per signature
        if !self.fails.iter().any(|f| f.sig == sig) {
            self.fails.push(Fail { sig: sig.to_string(), msg });
        }
    }
    /// `obs` gets one class per distinct known signature seen in this case.
    pub fn finish(self, obs: &mut Obs) -> Result<(), Fail> {
        let s = self.s;
        let mut known = None;
        let mut unknown = None;
        for f in self.fails {
            if s.is_known(&f.sig).is_none() {
                if unknown.is_none() {
                    unknown = Some(f);
                }
            } else {
                obs.class(format!("known-hit:{}", f.sig));
                if known.is_none() {
                    known = Some(f);
                }
            }
        }
        match unknown.or(known) {
            Some(f) => Err(f),
            None => Ok(()),
        }
    }
}

/// Self-tests of the references against published vectors; returned strings are health failures.
pub fn self_test() -> Vec<String> {
    let mut bad = vec![];
    // CIP-19 test vector (type 0, mainnet)
    let raw = hex::decode(
        "019493315cd92eb5d8c4304e67b7e16ae36d61d34502694657811a2c8e337b62cfff6403a06a3acbc34f8c46003c69fe79a3628cefa9c47251",
    )
    .unwrap();
    if bech32("addr", &raw)
        != "addr1qx2fxv2umyhttkxyxp8x0dlpdt3k6cwng5pxj3jhsydzer3n0d3vllmyqwsx5wktcd8cc3sq835lu7drv2xwl2wywfgse35a3x"
    {
        bad.push("bech32 reference does not reproduce the CIP-19 type-0 vector".to_string());
    }
    // BIP-173 vector
    if bech32("a", &[]) != "a12uel5l" {
        bad.push("bech32 reference does not reproduce BIP-173 'a12uel5l'".to_string());
    }
    // CIP-19 pointer vector: slot 2498243, tx 27, cert 3
    let mut p = varint(2498243);
    p.extend(varint(27));
    p.extend(varint(3));
    if hex::encode(&p) != "8198bd431b03" {
        bad.push(format!("varint reference gives {} for the CIP-19 pointer (2498243,27,3)", hex::encode(&p)));
    }
    if varint(0) != [0] || varint(127) != [0x7f] || varint(128) != [0x81, 0x00] || varint(u64::MAX).len() != 10 {
        bad.push("varint reference boundary self-test".to_string());
    }
    if varints_decode(&p, 3) != Some(vec![2498243, 27, 3]) {
        bad.push("varint reference decoder self-test".to_string());
    }
    // base58: bitcoin wiki / well-known vectors
    if base58(b"Hello World!") != "2NEpo7TZRRrLZSi2U" || base58(&[0, 0, 0x28, 0x7f, 0xb4, 0xcd]) != "11233QC4" {
        bad.push("base58 reference self-test".to_string());
    }
    if pvkit::crc32::crc32(b"123456789") != 0xCBF43926 {
        bad.push("crc32 reference self-test".to_string());
    }
    bad
}
