//! C01 — flat round-trip at any bit alignment (DESIGN §C01).
use pallas_codec::flat::de::Decoder;
use pallas_codec::flat::en::Encoder;
use proptest::prelude::*;
use pvkit::{pv_ensure, Fail, Obs, Session};
use serde::{Deserialize, Serialize};

#[derive(Debug, Clone, PartialEq, Serialize, Deserialize)]
pub enum Item {
    Bool(bool),
    U8(u8),
    Bits(u8, u8),
    Word(usize),
    Int(isize),
    Char(char),
    CharString(String),
    Bytes(Vec<u8>),
    Utf8(String),
    BitList(Vec<bool>),
    ByteList(Vec<u8>),
}

impl Item {
    pub fn kind(&self) -> &'static str {
        match self {
            Item::Bool(_) => "bool",
            Item::U8(_) => "u8",
            Item::Bits(..) => "bits",
            Item::Word(_) => "word",
            Item::Int(_) => "int",
            Item::Char(_) => "char",
            Item::CharString(_) => "charstring",
            Item::Bytes(_) => "bytes",
            Item::Utf8(_) => "utf8",
            Item::BitList(_) => "bitlist",
            Item::ByteList(_) => "bytelist",
        }
    }
    fn multibit(&self) -> bool {
        !matches!(self, Item::Bool(_))
    }
}

fn word_bits(mut w: usize) -> u64 {
    let mut n = 1;
    w >>= 7;
    while w != 0 {
        n += 1;
        w >>= 7;
    }
    8 * n
}

fn zigzag(i: isize) -> usize {
    (((i as i128) << 1) ^ ((i as i128) >> 127)) as usize
}

/// Own size model of the flat format: bits an item occupies when it starts at bit offset `off`.
pub fn size_bits(it: &Item, off: u64) -> u64 {
    let blocks = |len: usize| -> u64 {
        let pad = 8 - (off % 8);
        let n_chunks = len.div_ceil(255) as u64;
        pad + 8 * (len as u64 + n_chunks + 1)
    };
    match it {
        Item::Bool(_) => 1,
        Item::U8(_) => 8,
        Item::Bits(n, _) => *n as u64,
        Item::Word(w) => word_bits(*w),
        Item::Int(i) => word_bits(zigzag(*i)),
        Item::Char(c) => word_bits(*c as usize),
        Item::CharString(s) => s.chars().map(|c| 1 + word_bits(c as usize)).sum::<u64>() + 1,
        Item::Bytes(b) => blocks(b.len()),
        Item::Utf8(s) => blocks(s.len()),
        Item::BitList(l) => 2 * l.len() as u64 + 1,
        Item::ByteList(l) => 9 * l.len() as u64 + 1,
    }
}

fn usize_edge() -> impl Strategy<Value = usize> {
    prop_oneof![
        3 => (0u32..64, -2i128..=2).prop_map(|(b, d)| ((1i128 << b) + d).clamp(0, usize::MAX as i128) as usize),
        1 => Just(usize::MAX),
        1 => Just(0usize),
        2 => any::<usize>(),
        2 => 0usize..300,
    ]
}

fn isize_edge() -> impl Strategy<Value = isize> {
    prop_oneof![
        3 => (0u32..63, -2i128..=2, any::<bool>()).prop_map(|(b, d, neg)| {
            let v = (1i128 << b) + d;
            (if neg { -v } else { v }).clamp(isize::MIN as i128, isize::MAX as i128) as isize
        }),
        1 => Just(isize::MIN),
        1 => Just(isize::MAX),
        1 => Just(0isize),
        2 => any::<isize>(),
        2 => -300isize..300,
    ]
}

fn byte_len() -> impl Strategy<Value = usize> {
    prop_oneof![
        4 => 0usize..20,
        3 => prop::sample::select(vec![0usize, 1, 254, 255, 256, 509, 510, 511, 765, 766, 1000]),
        1 => 0usize..=1000,
    ]
}

fn small_string() -> impl Strategy<Value = String> {
    prop::collection::vec(any::<char>(), 0..12).prop_map(|v| v.into_iter().collect())
}

pub fn item() -> impl Strategy<Value = Item> {
    prop_oneof![
        3 => any::<bool>().prop_map(Item::Bool),
        2 => any::<u8>().prop_map(Item::U8),
        2 => (1u8..=8).prop_flat_map(|n| (Just(n), 0u16..(1u16 << n))).prop_map(|(n, v)| Item::Bits(n, v as u8)),
        2 => usize_edge().prop_map(Item::Word),
        2 => isize_edge().prop_map(Item::Int),
        1 => any::<char>().prop_map(Item::Char),
        1 => small_string().prop_map(Item::CharString),
        2 => byte_len().prop_flat_map(|n| prop::collection::vec(any::<u8>(), n..=n)).prop_map(Item::Bytes),
        1 => prop_oneof![small_string(), byte_len().prop_map(|n| "é".repeat(n / 2))].prop_map(Item::Utf8),
        1 => prop::collection::vec(any::<bool>(), 0..20).prop_map(Item::BitList),
        1 => prop::collection::vec(any::<u8>(), 0..20).prop_map(Item::ByteList),
    ]
}

pub fn encode_seq(items: &[Item]) -> Result<Vec<u8>, String> {
    let mut e = Encoder::new();
    for it in items {
        match it {
            Item::Bool(b) => {
                e.bool(*b);
            }
            Item::U8(x) => {
                e.u8(*x).map_err(|e| e.to_string())?;
            }
            Item::Bits(n, v) => {
                e.bits(*n as i64, *v);
            }
            Item::Word(w) => {
                e.word(*w);
            }
            Item::Int(i) => {
                e.integer(*i);
            }
            Item::Char(c) => {
                e.char(*c);
            }
            Item::CharString(s) => {
                e.string(s);
            }
            Item::Bytes(b) => {
                e.bytes(b).map_err(|e| e.to_string())?;
            }
            Item::Utf8(s) => {
                e.utf8(s).map_err(|e| e.to_string())?;
            }
            Item::BitList(l) => {
                e.encode_list_with(l, |b, e| {
                    e.bool(*b);
                    Ok(())
                })
                .map_err(|e| e.to_string())?;
            }
            Item::ByteList(l) => {
                e.encode_list_with(l, |b, e| e.u8(*b).map(|_| ())).map_err(|e| e.to_string())?;
            }
        }
    }
    e.encode(pallas_codec::flat::filler::Filler::FillerEnd).map_err(|e| e.to_string())?;
    Ok(e.buffer)
}

fn check_seq(items: &Vec<Item>, obs: &mut Obs) -> Result<(), Fail> {
    let buf = match encode_seq(items) {
        Ok(b) => b,
        Err(e) => pvkit::pv_fail!("encode-error", "encoder refused a flat-encodable sequence: {e}"),
    };
    let mut d = Decoder::new(&buf);
    let mut off: u64 = 0;
    let mut nontrivial = false;
    for (i, it) in items.iter().enumerate() {
        obs.class(format!("{}@{}", it.kind(), off % 8));
        if it.multibit() && off % 8 != 0 {
            nontrivial = true;
        }
        let got: Result<Item, String> = match it {
            Item::Bool(_) => d.bool().map(Item::Bool).map_err(|e| e.to_string()),
            Item::U8(_) => d.u8().map(Item::U8).map_err(|e| e.to_string()),
            Item::Bits(n, _) => d.bits8(*n as usize).map(|v| Item::Bits(*n, v)).map_err(|e| e.to_string()),
            Item::Word(_) => d.word().map(Item::Word).map_err(|e| e.to_string()),
            Item::Int(_) => d.integer().map(Item::Int).map_err(|e| e.to_string()),
            Item::Char(_) => d.char().map(Item::Char).map_err(|e| e.to_string()),
            Item::CharString(_) => d.string().map(Item::CharString).map_err(|e| e.to_string()),
            Item::Bytes(_) => d.bytes().map(Item::Bytes).map_err(|e| e.to_string()),
            Item::Utf8(_) => d.utf8().map(Item::Utf8).map_err(|e| e.to_string()),
            Item::BitList(_) => d.decode_list_with(|d| d.bool()).map(Item::BitList).map_err(|e| e.to_string()),
            Item::ByteList(_) => d.decode_list_with(|d| d.u8()).map(Item::ByteList).map_err(|e| e.to_string()),
        };
        match got {
            Ok(g) => pv_ensure!(
                &g == it,
                format!("roundtrip-mismatch:{}", it.kind()),
                "item {i} ({}) written at bit offset {} decoded to a different value: wrote {:?}, got {:?}",
                it.kind(), off % 8, it, g
            ),
            Err(e) => pvkit::pv_fail!(
                format!("roundtrip-error:{}", it.kind()),
                "item {i} ({}) at bit offset {} failed to decode: {e}", it.kind(), off % 8
            ),
        }
        off += size_bits(it, off);
    }
    if let Err(e) = d.filler() {
        pvkit::pv_fail!("filler-error", "terminating filler failed to decode: {e}");
    }
    pv_ensure!(
        d.pos == buf.len() && d.used_bits == 0,
        "not-fully-consumed",
        "after the filler pos={} used_bits={} but buffer length is {}", d.pos, d.used_bits, buf.len()
    );
    obs.nontrivial_if(nontrivial);
    Ok(())
}

const KINDS: [&str; 10] =
    ["u8", "bits", "word", "int", "char", "charstring", "bytes", "utf8", "bitlist", "bytelist"];

fn boundary_items() -> Vec<Item> {
    let mut v = vec![Item::Bool(true), Item::Bool(false), Item::U8(0), Item::U8(0xff), Item::U8(0xa5)];
    for n in 1..=8u8 {
        v.push(Item::Bits(n, 0));
        v.push(Item::Bits(n, ((1u16 << n) - 1) as u8));
        v.push(Item::Bits(n, (0xa5u16 & ((1u16 << n) - 1)) as u8));
    }
    for b in 0..64u32 {
        for d in [-1i128, 0, 1] {
            let w = ((1i128 << b) + d).clamp(0, usize::MAX as i128) as usize;
            v.push(Item::Word(w));
            let i = ((1i128 << b) + d).clamp(isize::MIN as i128, isize::MAX as i128) as isize;
            v.push(Item::Int(i));
            v.push(Item::Int(i.wrapping_neg()));
        }
    }
    v.push(Item::Word(usize::MAX));
    v.push(Item::Int(isize::MIN));
    v.push(Item::Int(isize::MAX));
    for c in ['\0', 'a', '\u{7f}', '\u{80}', '\u{3fff}', '\u{4000}', '\u{ffff}', '\u{10ffff}'] {
        v.push(Item::Char(c));
    }
    v.push(Item::CharString(String::new()));
    v.push(Item::CharString("aé\u{10ffff}".into()));
    for n in [0usize, 1, 2, 254, 255, 256, 509, 510, 511, 764, 765, 766, 1000] {
        v.push(Item::Bytes((0..n).map(|i| (i * 7 + 3) as u8).collect()));
        v.push(Item::Utf8("x".repeat(n)));
    }
    v.push(Item::BitList(vec![]));
    v.push(Item::BitList(vec![true, false, true]));
    v.push(Item::ByteList(vec![]));
    v.push(Item::ByteList(vec![0, 0xff, 0x80]));
    v
}

pub fn run(s: &Session) {
    s.set_rule("sequences of 0..64 mixed flat primitives (proptest generator, values biased to 7-bit \
        group and 255-byte block boundaries) written by one Encoder + filler, decoded by mirrored calls; \
        plus the bounded family {k leading bools, k=0..7} x {boundary value of every kind}. Non-trivial = \
        the sequence contains a multi-bit item that starts at a bit offset != 0 (offsets from the harness' own \
        size model); distinct = distinct serialised sequence");
    s.assume("a flat-encodable value is one the public Encoder methods accept; Bits(n,v) uses v < 2^n, n in 1..=8");
    // bounded-exhaustive family
    let mut fam = vec![];
    for k in 0..8usize {
        for it in boundary_items() {
            let mut seq: Vec<Item> = (0..k).map(|i| Item::Bool(i % 2 == 0)).collect();
            seq.push(it.clone());
            fam.push(seq.clone());
            // and followed by another multi-bit item so the *next* item starts unaligned too
            seq.push(Item::U8(0x5a));
            fam.push(seq);
        }
    }
    s.foreach("offset-family", fam, true, check_seq);
    s.forall(
        "mixed-sequences",
        s.pick(150_000, 4_000_000),
        || prop::collection::vec(item(), 0..64),
        check_seq,
    );
    if !s.replaying() {
        // health: every (kind x offset) cell was exercised
        let mut missing = vec![];
        for k in KINDS {
            for o in 0..8 {
                if s.class_count(&format!("{k}@{o}")) == 0 {
                    missing.push(format!("{k}@{o}"));
                }
            }
        }
        s.health(missing.is_empty(), &format!("kind x offset cells never generated: {missing:?}"));
    }
}
