//! C02 — flat decoding is total on arbitrary bytes (DESIGN §C02).
use crate::c01::{self, Item};
use pallas_codec::flat::de::Decoder;
use proptest::prelude::*;
use pvkit::{pv_ensure, Fail, Obs, Session};
use serde::{Deserialize, Serialize};

#[derive(Debug, Clone, Copy, PartialEq, Serialize, Deserialize)]
pub enum Call {
    Bool,
    U8,
    Bits8(u8),
    Word,
    Integer,
    Char,
    String,
    Bytes,
    Utf8,
    Filler,
    ListU8,
    ListBool,
    TopBool,
    TopU8,
    TopUsize,
    TopIsize,
    TopChar,
    TopString,
    TopVecU8,
}

pub const ALL_CALLS: [Call; 26] = [
    Call::Bool, Call::U8, Call::Bits8(1), Call::Bits8(2), Call::Bits8(3), Call::Bits8(4), Call::Bits8(5),
    Call::Bits8(6), Call::Bits8(7), Call::Bits8(8), Call::Word, Call::Integer, Call::Char, Call::String,
    Call::Bytes, Call::Utf8, Call::Filler, Call::ListU8, Call::ListBool, Call::TopBool, Call::TopU8,
    Call::TopUsize, Call::TopIsize, Call::TopChar, Call::TopString, Call::TopVecU8,
];

#[derive(Debug, Clone, Serialize, Deserialize)]
pub struct Case {
    pub buf: Vec<u8>,
    pub prog: Vec<Call>,
}

fn call() -> impl Strategy<Value = Call> {
    (0usize..ALL_CALLS.len()).prop_map(|i| ALL_CALLS[i])
}

fn mirrored(items: &[Item]) -> Vec<Call> {
    let mut p: Vec<Call> = items
        .iter()
        .map(|it| match it {
            Item::Bool(_) => Call::Bool,
            Item::U8(_) => Call::U8,
            Item::Bits(n, _) => Call::Bits8(*n),
            Item::Word(_) => Call::Word,
            Item::Int(_) => Call::Integer,
            Item::Char(_) => Call::Char,
            Item::CharString(_) => Call::String,
            Item::Bytes(_) => Call::Bytes,
            Item::Utf8(_) => Call::Utf8,
            Item::BitList(_) => Call::ListBool,
            Item::ByteList(_) => Call::ListU8,
        })
        .collect();
    p.push(Call::Filler);
    p
}

fn buffer() -> impl Strategy<Value = Vec<u8>> {
    prop_oneof![
        3 => prop::collection::vec(any::<u8>(), 0..=64),
        // continuation runs with a random tail
        2 => (0usize..=64, prop::collection::vec(any::<u8>(), 0..4)).prop_map(|(n, tail)| {
            let mut v = vec![0xffu8; n];
            v.extend(tail);
            v.truncate(64);
            v
        }),
        // a few leading bits then a continuation run (unaligned varints)
        1 => (any::<u8>(), 0usize..=63).prop_map(|(h, n)| {
            let mut v = vec![h];
            v.extend(std::iter::repeat(0xff).take(n));
            v
        }),
        // block headers promising more than remains: filler, length, short payload
        2 => (prop::collection::vec(any::<bool>(), 0..8), any::<u8>(), prop::collection::vec(any::<u8>(), 0..40), any::<bool>())
            .prop_map(|(pre, len, payload, with_filler)| {
                let mut v = vec![];
                if with_filler { v.push(0x01); }
                let _ = pre;
                v.push(len);
                v.extend(payload);
                v.truncate(64);
                v
            }),
        // valid encodings, truncated and/or bit-flipped
        4 => (prop::collection::vec(c01::item(), 0..6), any::<u16>(), prop::collection::vec((any::<u16>(), 0u8..8), 0..3))
            .prop_map(|(items, cut, flips)| {
                let mut b = c01::encode_seq(&items).unwrap_or_default();
                b.truncate(64);
                let keep = pvkit::pick_idx(cut, b.len() + 1);
                if cut % 3 != 0 { b.truncate(keep); }
                for (p, bit) in flips {
                    if !b.is_empty() { let i = pvkit::pick_idx(p, b.len()); b[i] ^= 1 << bit; }
                }
                b
            }),
    ]
}

fn case() -> impl Strategy<Value = Case> {
    prop_oneof![
        3 => (buffer(), prop::collection::vec(call(), 1..=16)).prop_map(|(buf, prog)| Case { buf, prog }),
        // valid encoding, mutated, with its mirrored program
        2 => (prop::collection::vec(c01::item(), 0..6), any::<u16>(), prop::collection::vec((any::<u16>(), 0u8..8), 0..3))
            .prop_map(|(items, cut, flips)| {
                let mut b = c01::encode_seq(&items).unwrap_or_default();
                b.truncate(64);
                let keep = pvkit::pick_idx(cut, b.len() + 1);
                b.truncate(keep);
                for (p, bit) in flips {
                    if !b.is_empty() { let i = pvkit::pick_idx(p, b.len()); b[i] ^= 1 << bit; }
                }
                Case { buf: b, prog: mirrored(&items) }
            }),
    ]
}

fn check(c: &Case, obs: &mut Obs) -> Result<(), Fail> {
    let buf = &c.buf[..];
    let mut d = Decoder::new(buf);
    let mut interesting = false;
    for (i, call) in c.prog.iter().enumerate() {
        let near_end = d.pos + 1 >= buf.len();
        let r: Result<(), String> = match call {
            Call::Bool => d.bool().map(|_| ()).map_err(|e| e.to_string()),
            Call::U8 => d.u8().map(|_| ()).map_err(|e| e.to_string()),
            Call::Bits8(n) => d.bits8(*n as usize).map(|_| ()).map_err(|e| e.to_string()),
            Call::Word => d.word().map(|_| ()).map_err(|e| e.to_string()),
            Call::Integer => d.integer().map(|_| ()).map_err(|e| e.to_string()),
            Call::Char => d.char().map(|_| ()).map_err(|e| e.to_string()),
            Call::String => d.string().map(|_| ()).map_err(|e| e.to_string()),
            Call::Bytes => d.bytes().map(|_| ()).map_err(|e| e.to_string()),
            Call::Utf8 => d.utf8().map(|_| ()).map_err(|e| e.to_string()),
            Call::Filler => d.filler().map_err(|e| e.to_string()),
            Call::ListU8 => d.decode_list_with(|d| d.u8()).map(|_| ()).map_err(|e| e.to_string()),
            Call::ListBool => d.decode_list_with(|d| d.bool()).map(|_| ()).map_err(|e| e.to_string()),
            Call::TopBool => pallas_codec::flat::decode::<bool>(buf).map(|_| ()).map_err(|e| e.to_string()),
            Call::TopU8 => pallas_codec::flat::decode::<u8>(buf).map(|_| ()).map_err(|e| e.to_string()),
            Call::TopUsize => pallas_codec::flat::decode::<usize>(buf).map(|_| ()).map_err(|e| e.to_string()),
            Call::TopIsize => pallas_codec::flat::decode::<isize>(buf).map(|_| ()).map_err(|e| e.to_string()),
            Call::TopChar => pallas_codec::flat::decode::<char>(buf).map(|_| ()).map_err(|e| e.to_string()),
            Call::TopString => pallas_codec::flat::decode::<String>(buf).map(|_| ()).map_err(|e| e.to_string()),
            Call::TopVecU8 => pallas_codec::flat::decode::<Vec<u8>>(buf).map(|_| ()).map_err(|e| e.to_string()),
        };
        if r.is_err() || near_end {
            interesting = true;
        }
        obs.class(if r.is_ok() { "call-ok" } else { "call-err" });
        pv_ensure!(
            d.pos <= buf.len() && (0..8).contains(&d.used_bits),
            "cursor-out-of-bounds",
            "after call {i} ({call:?}) the decoder cursor is pos={} used_bits={} on a {}-byte buffer",
            d.pos, d.used_bits, buf.len()
        );
    }
    obs.nontrivial_if(interesting);
    Ok(())
}

pub fn run(s: &Session) {
    s.set_rule("(buffer <= 64 bytes, program of 1..16 decoder calls). Buffers: uniform random, 0xff runs of \
        every length, block headers promising more than remains, valid encodings truncated / bit-flipped; \
        exhaustive families: every 0xff-run length 0..64 x every entry point (fresh decoder and after 1..7 \
        consumed bits), every truncation of boundary encodings with the mirrored program. Non-trivial = some \
        call returned Err or was made within one byte of the end of the buffer");
    s.assume("bits8(0) is outside the domain (documented as 'up to 8 bits'; no caller passes 0)");
    // exhaustive: 0xff runs x entry points x leading consumed bits
    let mut fam = vec![];
    for n in 0..=64usize {
        for tail in [None, Some(0x00u8), Some(0x7f), Some(0x01)] {
            let mut buf = vec![0xffu8; n];
            if let Some(t) = tail {
                buf.push(t);
            }
            buf.truncate(64);
            for c in ALL_CALLS {
                for lead in 0..8usize {
                    let mut prog = vec![Call::Bool; lead];
                    prog.push(c);
                    fam.push(Case { buf: buf.clone(), prog });
                }
            }
        }
    }
    // also all-zero and empty buffers with two-call programs
    for n in [0usize, 1, 2] {
        for a in ALL_CALLS {
            for b in ALL_CALLS {
                fam.push(Case { buf: vec![0u8; n], prog: vec![a, b] });
                fam.push(Case { buf: vec![0x01u8; n], prog: vec![a, b] });
            }
        }
    }
    s.foreach("ff-runs-x-entry-points", fam, true, check);
    // exhaustive: truncations of boundary encodings
    let mut fam = vec![];
    let boundary: Vec<Vec<Item>> = vec![
        vec![Item::Word(usize::MAX)],
        vec![Item::Bool(true), Item::Word(usize::MAX)],
        vec![Item::Int(isize::MIN), Item::Int(isize::MAX)],
        vec![Item::Bytes(vec![7; 40])],
        vec![Item::Bool(false), Item::Bytes(vec![1, 2, 3]), Item::Utf8("héllo".into())],
        vec![Item::CharString("ab\u{10ffff}".into()), Item::Char('\u{ffff}')],
        vec![Item::BitList(vec![true; 9]), Item::ByteList(vec![9; 5])],
        vec![Item::Bits(3, 5), Item::U8(0xff), Item::Bits(7, 0x55), Item::Word(300)],
        vec![],
    ];
    for items in boundary {
        let b = c01::encode_seq(&items).unwrap();
        for cut in 0..=b.len().min(64) {
            fam.push(Case { buf: b[..cut].to_vec(), prog: mirrored(&items) });
        }
    }
    s.foreach("truncations-of-valid", fam, true, check);
    s.forall("random-programs", s.pick(1_500_000, 60_000_000), case, check);
}
