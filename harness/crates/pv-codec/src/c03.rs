//! C03 — CBOR helper wrappers round-trip and preserve original encodings (DESIGN §C03).
use crate::gram::*;
use pallas_codec::minicbor::{self, Decode, Decoder, Encode};
use pallas_codec::utils::*;
use proptest::prelude::*;
use pvkit::cborx::{self, Kind, Len, Node, W};
use pvkit::{pv_ensure, pv_fail, Fail, Obs, Session};
use serde::{Deserialize, Serialize};
use std::fmt::Debug;

fn nontrivial(n: &Node) -> bool {
    !n.is_plain() || n.depth() >= 2
}

/// decode `b` as T (must consume everything), re-encode; `exact` demands byte equality, otherwise
/// only the value round-trip `decode(to_vec(decode(b))) == decode(b)` is demanded.
fn roundtrip<T>(name: &str, node: &Node, exact: bool, obs: &mut Obs) -> Result<(), Fail>
where
    T: for<'x> Decode<'x, ()> + Encode<()> + PartialEq + Debug,
{
    let b = cborx::write(node);
    let mut d = Decoder::new(&b);
    let v: T = match d.decode() {
        Ok(v) => v,
        Err(_) => {
            obs.class(format!("{name}:rejected"));
            obs.discard();
            return Ok(());
        }
    };
    obs.class(format!("{name}:accepted"));
    pv_ensure!(d.position() == b.len(), format!("{name}:partial-consumption"),
        "decoding {} as {name} consumed {} of {} bytes", hex::encode(&b), d.position(), b.len());
    let e = match minicbor::to_vec(&v) {
        Ok(e) => e,
        Err(err) => pv_fail!(format!("{name}:encode-error"), "value decoded from {} does not encode: {err}", hex::encode(&b)),
    };
    if exact {
        obs.class(format!("{name}:exact-checked"));
        pv_ensure!(e == b, format!("{name}:form-not-preserved"),
            "{name} accepted {} but re-encodes it as {}", hex::encode(&b), hex::encode(&e));
    }
    let mut d2 = Decoder::new(&e);
    let v2: T = match d2.decode() {
        Ok(v) => v,
        Err(err) => pv_fail!(format!("{name}:reencoding-rejected"), "own encoding {} is rejected: {err}", hex::encode(&e)),
    };
    pv_ensure!(d2.position() == e.len(), format!("{name}:partial-consumption-of-own-encoding"),
        "own encoding {} consumed {} bytes", hex::encode(&e), d2.position());
    pv_ensure!(v2 == v, format!("{name}:value-roundtrip"),
        "decode(encode(v)) != v for v = {:?} (from {}), got {:?}", v, hex::encode(&b), v2);
    obs.nontrivial_if(nontrivial(node));
    Ok(())
}

/// Same for the raw-keeping wrapper (its type borrows from the input, hence a separate function).
fn roundtrip_keepraw<T>(name: &str, node: &Node, obs: &mut Obs) -> Result<(), Fail>
where
    T: for<'x> Decode<'x, ()> + Encode<()> + PartialEq + Debug,
{
    let b = cborx::write(node);
    let mut d = Decoder::new(&b);
    let v: KeepRaw<'_, T> = match d.decode() {
        Ok(v) => v,
        Err(_) => {
            obs.class(format!("{name}:rejected"));
            obs.discard();
            return Ok(());
        }
    };
    obs.class(format!("{name}:accepted"));
    pv_ensure!(d.position() == b.len(), format!("{name}:partial-consumption"),
        "decoding {} consumed {} of {} bytes", hex::encode(&b), d.position(), b.len());
    pv_ensure!(v.raw_cbor() == &b[..], format!("{name}:raw-differs"), "raw_cbor() {} != input {}", hex::encode(v.raw_cbor()), hex::encode(&b));
    let e = minicbor::to_vec(&v).map_err(|err| Fail { sig: format!("{name}:encode-error"), msg: err.to_string() })?;
    pv_ensure!(e == b, format!("{name}:form-not-preserved"), "{name} accepted {} but re-encodes it as {}", hex::encode(&b), hex::encode(&e));
    // the content itself must be the value of the bytes
    let inner: T = minicbor::decode(&b).map_err(|err| Fail { sig: format!("{name}:inner-decode"), msg: err.to_string() })?;
    pv_ensure!(*v == inner, format!("{name}:inner-differs"), "content {:?} differs from plain decode {:?}", *v, inner);
    // detaching the wrapper from the input buffer keeps the original bytes too
    let owned: KeepRaw<'static, T> = v.to_owned();
    pv_ensure!(owned.raw_cbor() == &b[..], format!("{name}:to_owned:raw-differs"), "to_owned().raw_cbor() {} != input {}", hex::encode(owned.raw_cbor()), hex::encode(&b));
    let e2 = minicbor::to_vec(&owned).map_err(|err| Fail { sig: format!("{name}:to_owned:encode-error"), msg: err.to_string() })?;
    pv_ensure!(e2 == b, format!("{name}:to_owned:form-not-preserved"), "{name} accepted {}, after to_owned() it re-encodes as {}", hex::encode(&b), hex::encode(&e2));
    pv_ensure!(*owned == inner, format!("{name}:to_owned:inner-differs"), "to_owned() content {:?} differs from plain decode {:?}", *owned, inner);
    // dropping the kept bytes makes the wrapper encode from its content, like a wrapper built from a value
    let mut cleared = owned;
    cleared.clear_raw();
    let e3 = minicbor::to_vec(&cleared).map_err(|err| Fail { sig: format!("{name}:clear_raw:encode-error"), msg: err.to_string() })?;
    let fresh = minicbor::to_vec(&inner).map_err(|err| Fail { sig: format!("{name}:inner-encode-error"), msg: err.to_string() })?;
    pv_ensure!(e3 == fresh, format!("{name}:clear_raw:not-from-content"), "after clear_raw() the wrapper encodes {} but its content encodes {}", hex::encode(&e3), hex::encode(&fresh));
    // the opaque any-CBOR wrapper built from the same bytes carries them verbatim
    let any = pallas_codec::utils::AnyCbor::from_raw_bytes(b.clone());
    pv_ensure!(any.raw_bytes() == &b[..], "AnyCbor:from_raw_bytes:raw-differs", "raw_bytes() {} != {}", hex::encode(any.raw_bytes()), hex::encode(&b));
    let ea = minicbor::to_vec(&any).map_err(|err| Fail { sig: "AnyCbor:from_raw_bytes:encode-error".into(), msg: err.to_string() })?;
    pv_ensure!(ea == b, "AnyCbor:from_raw_bytes:form-not-preserved", "AnyCbor::from_raw_bytes({}) encodes as {}", hex::encode(&b), hex::encode(&ea));
    let back: Result<T, _> = any.into_decode();
    pv_ensure!(matches!(&back, Ok(x) if *x == inner), "AnyCbor:into_decode:differs", "into_decode of {} gives {:?}, plain decode {:?}", hex::encode(&b), back.as_ref().ok(), inner);
    obs.nontrivial_if(nontrivial(node));
    Ok(())
}

fn top_len_minimal(n: &Node) -> bool {
    match &n.k {
        Kind::Array(v, Len::Def(w)) => *w == W::min_for(v.len() as u64),
        Kind::Map(v, Len::Def(w)) => *w == W::min_for(v.len() as u64),
        _ => true,
    }
}

/// every container on the *typed* path (levels 0..depth) has a minimal length head
fn lens_minimal(n: &Node, depth: u32) -> bool {
    if !top_len_minimal(n) {
        return false;
    }
    if depth == 0 {
        return true;
    }
    match &n.k {
        Kind::Array(v, _) => v.iter().all(|c| lens_minimal(c, depth - 1)),
        Kind::Map(v, _) => v.iter().all(|(_, c)| lens_minimal(c, depth - 1)),
        _ => true,
    }
}

// ---- (a) in-memory values -------------------------------------------------------------------

#[derive(Debug, Clone, Serialize, Deserialize)]
pub struct UIntR {
    variant: u8,
    v: u64,
}

impl UIntR {
    fn build(&self) -> AnyUInt {
        match self.variant % 5 {
            0 => AnyUInt::MajorByte((self.v % 24) as u8),
            1 => AnyUInt::U8(self.v as u8),
            2 => AnyUInt::U16(self.v as u16),
            3 => AnyUInt::U32(self.v as u32),
            _ => AnyUInt::U64(self.v),
        }
    }
}

fn uint_r() -> impl Strategy<Value = UIntR> {
    (0u8..5, u64_edge()).prop_map(|(variant, v)| UIntR { variant, v })
}

#[derive(Debug, Clone, Serialize, Deserialize)]
pub enum ValueR {
    AnyUInt(UIntR),
    Int(i128),
    Bytes(Vec<u8>),
    PositiveCoin(u64),
    NonZeroInt(i64),
    Kvp { indef: bool, items: Vec<(UIntR, Option<Option<u64>>)> },
    NeKvp { indef: bool, items: Vec<(u64, Vec<u8>)> },
    Arr { indef: bool, inner: Vec<(bool, Vec<UIntR>)> },
    Set(Vec<u64>),
    NeSet(Vec<i64>),
    CborWrap(Vec<u64>),
    TagWrap(Vec<(u64, Vec<u8>)>),
    ZeroOrOne(Option<Option<u64>>),
    NullableBytes(Option<Option<Vec<u8>>>),
    KeepRawFrom(Vec<u64>),
    AnyCborFrom(Vec<(u64, Vec<u8>)>),
    Tuple(UIntR, Option<Option<Vec<u8>>>, i128),
}

fn nul<T: Clone>(o: &Option<Option<T>>) -> Nullable<T> {
    match o {
        None => Nullable::Null,
        Some(None) => Nullable::Undefined,
        Some(Some(x)) => Nullable::Some(x.clone()),
    }
}

fn int_from(v: i128) -> Int {
    let c = v.clamp(-(1i128 << 64), (1i128 << 64) - 1);
    Int(minicbor::data::Int::try_from(c).unwrap())
}

fn value_r() -> impl Strategy<Value = ValueR> {
    let opt2u = || prop_oneof![Just(None), Just(Some(None)), u64_edge().prop_map(|v| Some(Some(v)))];
    let opt2b = || prop_oneof![Just(None), Just(Some(None)), prop::collection::vec(any::<u8>(), 0..8).prop_map(|v| Some(Some(v)))];
    let i128r = || prop_oneof![(-(1i128 << 64))..(1i128 << 64), (-30i128..30), Just(-(1i128 << 64)), Just((1i128 << 64) - 1), Just(i64::MIN as i128), Just(i64::MAX as i128 + 1)];
    let small_bytes = || prop::collection::vec(any::<u8>(), 0..12);
    prop_oneof![
        3 => uint_r().prop_map(ValueR::AnyUInt),
        2 => i128r().prop_map(ValueR::Int),
        1 => prop::collection::vec(any::<u8>(), 0..70).prop_map(ValueR::Bytes),
        1 => u64_edge().prop_map(|v| ValueR::PositiveCoin(v.max(1))),
        1 => prop_oneof![any::<i64>(), -3i64..3, Just(i64::MIN), Just(i64::MAX)].prop_map(|v| ValueR::NonZeroInt(if v == 0 { 1 } else { v })),
        2 => (any::<bool>(), prop::collection::vec((uint_r(), opt2u()), 0..5)).prop_map(|(indef, items)| ValueR::Kvp { indef, items }),
        1 => (any::<bool>(), prop::collection::vec((u64_edge(), small_bytes()), 1..4)).prop_map(|(indef, items)| ValueR::NeKvp { indef, items }),
        2 => (any::<bool>(), prop::collection::vec((any::<bool>(), prop::collection::vec(uint_r(), 0..4)), 0..4)).prop_map(|(indef, inner)| ValueR::Arr { indef, inner }),
        1 => prop::collection::vec(u64_edge(), 0..5).prop_map(ValueR::Set),
        1 => prop::collection::vec(any::<i64>(), 1..5).prop_map(ValueR::NeSet),
        1 => prop::collection::vec(u64_edge(), 0..5).prop_map(ValueR::CborWrap),
        1 => prop::collection::vec((u64_edge(), small_bytes()), 0..4).prop_map(ValueR::TagWrap),
        1 => prop_oneof![Just(None), opt2u().prop_map(Some)].prop_map(|o| ValueR::ZeroOrOne(o.map(|x| x.flatten()))),
        1 => opt2b().prop_map(ValueR::NullableBytes),
        1 => prop::collection::vec(u64_edge(), 0..5).prop_map(ValueR::KeepRawFrom),
        1 => prop::collection::vec((u64_edge(), small_bytes()), 0..4).prop_map(ValueR::AnyCborFrom),
        1 => (uint_r(), opt2b(), i128r()).prop_map(|(a, b, c)| ValueR::Tuple(a, b, c)),
    ]
}

fn value_rt<T>(name: &str, v: T) -> Result<(), Fail>
where
    T: for<'x> Decode<'x, ()> + Encode<()> + PartialEq + Debug,
{
    let e = minicbor::to_vec(&v).map_err(|err| Fail { sig: format!("value:{name}:encode-error"), msg: err.to_string() })?;
    // the encoding must be exactly one well-formed item
    pv_ensure!(cborx::read(&e).is_ok(), format!("value:{name}:malformed-encoding"), "{:?} encodes to {} which is not one well-formed item", v, hex::encode(&e));
    let mut d = Decoder::new(&e);
    let v2: T = match d.decode() {
        Ok(x) => x,
        Err(err) => pv_fail!(format!("value:{name}:decode-error"), "{:?} encodes to {} which does not decode: {err}", v, hex::encode(&e)),
    };
    pv_ensure!(d.position() == e.len(), format!("value:{name}:partial-consumption"), "{} not fully consumed", hex::encode(&e));
    pv_ensure!(v2 == v, format!("value:{name}:roundtrip"), "{:?} encodes to {} and decodes to {:?}", v, hex::encode(&e), v2);
    Ok(())
}

fn check_value(r: &ValueR, obs: &mut Obs) -> Result<(), Fail> {
    let b = |v: &Vec<u8>| Bytes::from(v.clone());
    match r {
        ValueR::AnyUInt(u) => {
            obs.class("value:AnyUInt");
            obs.nontrivial();
            value_rt("AnyUInt", u.build())
        }
        ValueR::Int(i) => {
            obs.class("value:Int");
            value_rt("Int", int_from(*i))
        }
        ValueR::Bytes(v) => {
            obs.class("value:Bytes");
            value_rt("Bytes", b(v))
        }
        ValueR::PositiveCoin(v) => {
            obs.class("value:PositiveCoin");
            value_rt("PositiveCoin", PositiveCoin::try_from(*v).unwrap())
        }
        ValueR::NonZeroInt(v) => {
            obs.class("value:NonZeroInt");
            value_rt("NonZeroInt", NonZeroInt::try_from(*v).unwrap())
        }
        ValueR::Kvp { indef, items } => {
            obs.class("value:KeyValuePairs");
            obs.nontrivial();
            let it: Vec<(AnyUInt, Nullable<u64>)> = items.iter().map(|(k, v)| (k.build(), nul(v))).collect();
            value_rt("KeyValuePairs", if *indef { KeyValuePairs::Indef(it) } else { KeyValuePairs::Def(it) })
        }
        ValueR::NeKvp { indef, items } => {
            obs.class("value:NonEmptyKeyValuePairs");
            obs.nontrivial();
            let it: Vec<(u64, Bytes)> = items.iter().map(|(k, v)| (*k, b(v))).collect();
            value_rt("NonEmptyKeyValuePairs", if *indef { NonEmptyKeyValuePairs::Indef(it) } else { NonEmptyKeyValuePairs::Def(it) })
        }
        ValueR::Arr { indef, inner } => {
            obs.class("value:MaybeIndefArray");
            obs.nontrivial();
            let it: Vec<MaybeIndefArray<AnyUInt>> = inner
                .iter()
                .map(|(i, xs)| {
                    let xs: Vec<AnyUInt> = xs.iter().map(|x| x.build()).collect();
                    if *i { MaybeIndefArray::Indef(xs) } else { MaybeIndefArray::Def(xs) }
                })
                .collect();
            value_rt("MaybeIndefArray", if *indef { MaybeIndefArray::Indef(it) } else { MaybeIndefArray::Def(it) })
        }
        ValueR::Set(v) => {
            obs.class("value:Set");
            obs.nontrivial();
            value_rt("Set", Set::from(v.clone()))
        }
        ValueR::NeSet(v) => {
            obs.class("value:NonEmptySet");
            obs.nontrivial();
            value_rt("NonEmptySet", NonEmptySet::from_vec(v.clone()).unwrap())
        }
        ValueR::CborWrap(v) => {
            obs.class("value:CborWrap");
            obs.nontrivial();
            value_rt("CborWrap", CborWrap(v.clone()))
        }
        ValueR::TagWrap(v) => {
            obs.class("value:TagWrap");
            obs.nontrivial();
            let kv: KeyValuePairs<u64, Bytes> = v.iter().map(|(k, x)| (*k, b(x))).collect();
            value_rt("TagWrap", TagWrap::<_, 30>::new(kv))
        }
        ValueR::ZeroOrOne(o) => {
            obs.class("value:ZeroOrOneArray");
            // ZeroOrOneArray has no PartialEq and no constructor: go through its encoding
            let node = match o {
                None => cborx::array(vec![]),
                Some(None) => cborx::array(vec![cborx::null()]),
                Some(Some(v)) => cborx::array(vec![cborx::uint(*v)]),
            };
            let bytes = cborx::write(&node);
            let z: ZeroOrOneArray<Nullable<u64>> = minicbor::decode(&bytes).map_err(|e| Fail { sig: "value:ZeroOrOneArray:decode-error".into(), msg: e.to_string() })?;
            let expect: Option<Nullable<u64>> = match o {
                None => None,
                Some(None) => Some(Nullable::Null),
                Some(Some(v)) => Some(Nullable::Some(*v)),
            };
            pv_ensure!(*z == expect, "value:ZeroOrOneArray:content", "decoded {:?}, expected {:?}", *z, expect);
            let e = minicbor::to_vec(&z).map_err(|e| Fail { sig: "value:ZeroOrOneArray:encode-error".into(), msg: e.to_string() })?;
            pv_ensure!(e == bytes, "value:ZeroOrOneArray:roundtrip", "{} re-encoded as {}", hex::encode(&bytes), hex::encode(&e));
            Ok(())
        }
        ValueR::NullableBytes(o) => {
            obs.class("value:Nullable");
            value_rt("Nullable", nul(&o.as_ref().map(|x| x.as_ref().map(b))))
        }
        ValueR::KeepRawFrom(v) => {
            obs.class("value:KeepRaw::from");
            obs.nontrivial();
            let k = KeepRaw::from(v.clone());
            let e = minicbor::to_vec(&k).map_err(|e| Fail { sig: "value:KeepRaw:encode-error".into(), msg: e.to_string() })?;
            let plain = minicbor::to_vec(v).unwrap();
            pv_ensure!(e == plain, "value:KeepRaw::from:encoding", "KeepRaw::from(v) encodes as {} but v encodes as {}", hex::encode(&e), hex::encode(&plain));
            let back: KeepRaw<'_, Vec<u64>> = minicbor::decode(&e).map_err(|e| Fail { sig: "value:KeepRaw:decode-error".into(), msg: e.to_string() })?;
            pv_ensure!(*back == *v, "value:KeepRaw::from:roundtrip", "{:?} came back as {:?}", v, *back);
            Ok(())
        }
        ValueR::AnyCborFrom(v) => {
            obs.class("value:AnyCbor::from_encode");
            obs.nontrivial();
            let kv: KeyValuePairs<u64, Bytes> = v.iter().map(|(k, x)| (*k, b(x))).collect();
            let a = AnyCbor::from_encode(kv.clone());
            value_rt("AnyCbor", a.clone())?;
            let back: KeyValuePairs<u64, Bytes> = a.into_decode().map_err(|e| Fail { sig: "value:AnyCbor:into_decode".into(), msg: e.to_string() })?;
            pv_ensure!(back == kv, "value:AnyCbor:into_decode-roundtrip", "{:?} came back as {:?}", kv, back);
            Ok(())
        }
        ValueR::Tuple(a, o, i) => {
            obs.class("value:tuple");
            obs.nontrivial();
            value_rt("tuple", (a.build(), nul(&o.as_ref().map(|x| x.as_ref().map(b))), int_from(*i)))
        }
    }
}

// ---- (c) mutation through deref_mut ---------------------------------------------------------

#[derive(Debug, Clone, Serialize, Deserialize)]
pub enum MutR {
    Push(u64),
    Overwrite(u16, u64),
    Clear,
    NoopBorrow,
}

#[derive(Debug, Clone, Serialize, Deserialize)]
pub struct MutCase {
    node: Node,
    op: MutR,
}

fn check_mut(c: &MutCase, obs: &mut Obs) -> Result<(), Fail> {
    let b = cborx::write(&c.node);
    // once on the wrapper as decoded (borrowing the input) and once on the wrapper detached with to_owned()
    for owned in [false, true] {
        let decoded: KeepRaw<'_, Vec<u64>> = match minicbor::decode(&b) {
            Ok(k) => k,
            Err(_) => {
                obs.discard();
                return Ok(());
            }
        };
        let mut k: KeepRaw<'_, Vec<u64>> = if owned { decoded.to_owned() } else { decoded };
        let how = if owned { ":to_owned" } else { "" };
        let mut model: Vec<u64> = (*k).clone();
        match &c.op {
            MutR::Push(x) => {
                k.push(*x);
                model.push(*x);
                obs.class("mut:push");
            }
            MutR::Overwrite(i, x) => {
                if model.is_empty() {
                    obs.discard();
                    return Ok(());
                }
                let idx = pvkit::pick_idx(*i, model.len());
                k[idx] = *x;
                model[idx] = *x;
                obs.class("mut:overwrite");
            }
            MutR::Clear => {
                k.clear();
                model.clear();
                obs.class("mut:clear");
            }
            MutR::NoopBorrow => {
                let _r: &mut Vec<u64> = &mut k;
                obs.class("mut:noop-borrow");
            }
        }
        let e = minicbor::to_vec(&k).map_err(|e| Fail { sig: format!("mut{how}:encode-error"), msg: e.to_string() })?;
        let fresh = minicbor::to_vec(&*k).unwrap();
        pv_ensure!(e == fresh, format!("mut{how}:stale-raw"), "after {:?} on KeepRaw decoded from {}{}, the wrapper encodes {} but its content encodes {}",
            c.op, hex::encode(&b), if owned { " and detached with to_owned()" } else { "" }, hex::encode(&e), hex::encode(&fresh));
        let back: Vec<u64> = minicbor::decode(&e).map_err(|e| Fail { sig: format!("mut{how}:decode-error"), msg: e.to_string() })?;
        pv_ensure!(back == model, format!("mut{how}:content"), "re-encoding decodes to {:?}, model says {:?}", back, model);
    }
    obs.nontrivial_if(!c.node.is_plain());
    Ok(())
}

pub fn run(s: &Session) {
    s.set_rule("(a) values of every helper type built in memory from plain-data recipes (all AnyUInt variants, \
        Def/Indef containers to depth 3, Null/Undefined/Some, sets, wrappers) -> decode(to_vec(v)) == v with full \
        consumption and a well-formed single item; (b) encodings drawn from a cborx grammar of what each type \
        accepts (non-minimal heads, indefinite strings/containers, tags, simple values, floats): re-encoding must \
        be byte-identical for the form-keeping wrappers (container length heads minimal for the Def/Indef types, see \
        DESIGN), and value-stable for all; (c) KeepRaw mutated through deref_mut re-encodes from its content. \
        Non-trivial = (b)/(c): the input has a non-canonical feature or depth >= 2; (a): the value is a container or an AnyUInt");
    s.assume("form preservation of KeyValuePairs / NonEmptyKeyValuePairs / MaybeIndefArray is asserted only for minimal container length heads (they document keeping definite-vs-indefinite only)");
    let n = s.pick(60_000, 1_000_000);
    s.forall("a:values", n, value_r, check_value);

    // (b) exact-preserving wrappers
    let m = s.pick(15_000, 250_000);
    s.forall("b:AnyCbor", m, || any_item(3), |n, o| roundtrip::<AnyCbor>("AnyCbor", n, true, o));
    s.forall("b:KeepRaw<AnyCbor>", m, || any_item(3), |n, o| roundtrip_keepraw::<AnyCbor>("KeepRaw<AnyCbor>", n, o));
    s.forall("b:AnyUInt", m, uint_any_width, |n, o| roundtrip::<AnyUInt>("AnyUInt", n, true, o));
    s.forall("b:KeepRaw<Vec<u64>>", m, || array_of(uint_any_width(), 5, true), |n, o| roundtrip_keepraw::<Vec<u64>>("KeepRaw<Vec<u64>>", n, o));
    s.forall(
        "b:KeepRaw<(u64,MaybeIndefArray<AnyUInt>)>",
        m,
        || {
            (uint_any_width(), array_of(uint_any_width(), 4, true), prop::sample::select(W::options(2)))
                .prop_map(|(a, b, w)| cborx::node(Kind::Array(vec![a, b], Len::Def(w))))
        },
        |n, o| roundtrip_keepraw::<(u64, MaybeIndefArray<AnyUInt>)>("KeepRaw<(u64,MaybeIndefArray<AnyUInt>)>", n, o),
    );
    s.forall(
        "b:KeepRaw<KeyValuePairs<AnyUInt,AnyCbor>>",
        m,
        || map_of(uint_any_width(), any_item(2), 0, 4, true),
        |n, o| roundtrip_keepraw::<KeyValuePairs<AnyUInt, AnyCbor>>("KeepRaw<KeyValuePairs<AnyUInt,AnyCbor>>", n, o),
    );
    s.forall("b:Nullable<AnyUInt>", m, || nullable_of(uint_any_width()), |n, o| roundtrip::<Nullable<AnyUInt>>("Nullable<AnyUInt>", n, true, o));
    s.forall(
        "b:Nullable<MaybeIndefArray<AnyUInt>>",
        m,
        || nullable_of(array_of(uint_any_width(), 4, true)),
        |n, o| roundtrip::<Nullable<MaybeIndefArray<AnyUInt>>>("Nullable<MaybeIndefArray<AnyUInt>>", n, lens_minimal(n, 0), o),
    );
    s.forall(
        "b:KeyValuePairs<AnyUInt,AnyCbor>",
        m,
        || map_of(uint_any_width(), any_item(2), 0, 4, true),
        |n, o| roundtrip::<KeyValuePairs<AnyUInt, AnyCbor>>("KeyValuePairs<AnyUInt,AnyCbor>", n, lens_minimal(n, 0), o),
    );
    s.forall(
        "b:NonEmptyKeyValuePairs<AnyUInt,AnyCbor>",
        m,
        || map_of(uint_any_width(), any_item(2), 1, 4, true),
        |n, o| roundtrip::<NonEmptyKeyValuePairs<AnyUInt, AnyCbor>>("NonEmptyKeyValuePairs<AnyUInt,AnyCbor>", n, lens_minimal(n, 0), o),
    );
    s.forall(
        "b:MaybeIndefArray<AnyUInt>",
        m,
        || array_of(uint_any_width(), 5, true),
        |n, o| roundtrip::<MaybeIndefArray<AnyUInt>>("MaybeIndefArray<AnyUInt>", n, lens_minimal(n, 0), o),
    );
    s.forall(
        "b:depth3",
        m,
        || array_of(map_of(uint_any_width(), array_of(any_item(1), 3, true), 0, 3, true), 3, true),
        |n, o| {
            roundtrip::<MaybeIndefArray<KeyValuePairs<AnyUInt, MaybeIndefArray<AnyCbor>>>>(
                "MaybeIndefArray<KeyValuePairs<AnyUInt,MaybeIndefArray<AnyCbor>>>", n, lens_minimal(n, 2), o)
        },
    );
    // (b') value-stable only
    s.forall("b:Set<AnyUInt>", m, || set_of(uint_any_width(), 0, 4), |n, o| roundtrip::<Set<AnyUInt>>("Set<AnyUInt>", n, false, o));
    s.forall("b:NonEmptySet<Int>", m, || set_of(int_any_width(), 1, 4), |n, o| roundtrip::<NonEmptySet<Int>>("NonEmptySet<Int>", n, false, o));
    s.forall("b:Int", m, int_any_width, |n, o| roundtrip::<Int>("Int", n, false, o));
    s.forall("b:Bytes", m, bytes_def, |n, o| roundtrip::<Bytes>("Bytes", n, false, o));
    s.forall("b:PositiveCoin", m, uint_nonzero_any_width, |n, o| roundtrip::<PositiveCoin>("PositiveCoin", n, false, o));
    s.forall(
        "b:CborWrap<MaybeIndefArray<u64>>",
        m,
        || array_of(uint_any_width(), 4, true).prop_map(|inner| cborx::tag(24, cborx::bytes(&cborx::write(&inner)))),
        |n, o| roundtrip::<CborWrap<MaybeIndefArray<u64>>>("CborWrap<MaybeIndefArray<u64>>", n, false, o),
    );
    s.forall(
        "b:TagWrap<KeyValuePairs<u64,Bytes>,30>",
        m,
        || map_of(uint_any_width(), bytes_def(), 0, 3, true).prop_map(|inner| cborx::tag(30, inner)),
        |n, o| roundtrip::<TagWrap<KeyValuePairs<u64, Bytes>, 30>>("TagWrap<KeyValuePairs<u64,Bytes>,30>", n, false, o),
    );

    // (c)
    s.forall(
        "c:keepraw-mutation",
        s.pick(30_000, 500_000),
        || {
            (
                array_of(uint_any_width(), 5, true),
                prop_oneof![
                    u64_edge().prop_map(MutR::Push),
                    (any::<u16>(), u64_edge()).prop_map(|(i, x)| MutR::Overwrite(i, x)),
                    Just(MutR::Clear),
                    Just(MutR::NoopBorrow)
                ],
            )
                .prop_map(|(node, op)| MutCase { node, op })
        },
        check_mut,
    );
    if !s.replaying() {
        for t in ["AnyCbor", "KeepRaw<AnyCbor>", "AnyUInt", "KeepRaw<Vec<u64>>", "KeyValuePairs<AnyUInt,AnyCbor>", "MaybeIndefArray<AnyUInt>", "Nullable<AnyUInt>"] {
            let acc = s.class_count(&format!("{t}:accepted"));
            let rej = s.class_count(&format!("{t}:rejected"));
            s.health(acc > 0 && acc >= 4 * rej, &format!("{t}: grammar accept rate too low ({acc} accepted, {rej} rejected)"));
        }
    }
}
