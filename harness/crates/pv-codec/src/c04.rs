//! C04 — decoded numeric wrappers never violate their declared ranges (DESIGN §C04).
use pallas_codec::minicbor;
use pallas_codec::utils::{NonZeroInt, PositiveCoin};
use pallas_primitives::conway;
use proptest::prelude::*;
use pvkit::cborx::{self, Kind, Node, W};
use pvkit::{pv_ensure, Fail, Obs, Session};
use serde::{Deserialize, Serialize};

#[derive(Debug, Clone, Copy, PartialEq, Serialize, Deserialize)]
pub enum Site {
    DirectPositiveCoin,
    DirectNonZeroInt,
    ValueAsset,
    MintAsset,
    BodyDonation,
    BodyOutputAsset,
    BodyMint,
    BodyCollateralReturnAsset,
}

const SITES: [Site; 8] = [
    Site::DirectPositiveCoin, Site::DirectNonZeroInt, Site::ValueAsset, Site::MintAsset,
    Site::BodyDonation, Site::BodyOutputAsset, Site::BodyMint, Site::BodyCollateralReturnAsset,
];

#[derive(Debug, Clone, Serialize, Deserialize)]
pub struct Case {
    site: Site,
    neg: bool,
    v: u64,
    w: W,
    /// position of the probed entry among 1..3 sibling assets (others hold valid quantities)
    slot: u8,
    /// write the `[coin, multiasset]` pair of a value as an indefinite-length array (value sites only). Whether that
    /// framing is accepted at all is not judged; if it is, the same rules hold.
    #[serde(default)]
    indef: bool,
}

impl Case {
    fn num(&self) -> i128 {
        if self.neg { -1 - self.v as i128 } else { self.v as i128 }
    }
    fn node(&self) -> Node {
        cborx::node(if self.neg { Kind::NInt(self.v, self.w) } else { Kind::UInt(self.v, self.w) })
    }
}

fn positive_site(s: Site) -> bool {
    matches!(s, Site::DirectPositiveCoin | Site::ValueAsset | Site::BodyDonation | Site::BodyOutputAsset | Site::BodyCollateralReturnAsset)
}

fn multiasset(probe: Node, slot: u8, filler: i128) -> Node {
    let pol = [0x11u8; 28];
    let mut assets = vec![];
    for i in 0..3u8 {
        let q = if i == slot % 3 { probe.clone() } else { cborx::int(filler) };
        assets.push((cborx::bytes(&[b'a' + i]), q));
    }
    cborx::map(vec![(cborx::bytes(&pol), cborx::map(assets))])
}

fn output(value: Node) -> Node {
    // post-alonzo output {0: address, 1: value}; enterprise key address on testnet
    let mut addr = vec![0x60u8];
    addr.extend([0x22u8; 28]);
    cborx::map(vec![(cborx::uint(0), cborx::bytes(&addr)), (cborx::uint(1), value)])
}

fn body(extra: Vec<(u64, Node)>, out_value: Node) -> Node {
    let input = cborx::array(vec![cborx::bytes(&[0x33u8; 32]), cborx::uint(0)]);
    let mut m = vec![
        (cborx::uint(0), cborx::array(vec![input])),
        (cborx::uint(1), cborx::array(vec![output(out_value)])),
        (cborx::uint(2), cborx::uint(170_000)),
    ];
    for (k, v) in extra {
        m.push((cborx::uint(k), v));
    }
    cborx::map(m)
}

/// Build the bytes for a case and decode at the site's type. Returns Ok(extracted value) or Err.
fn probe(c: &Case) -> (Vec<u8>, Result<i128, String>) {
    probe_node(c, c.node())
}

fn probe_node(c: &Case, p: Node) -> (Vec<u8>, Result<i128, String>) {
    let coin = cborx::uint(2_000_000);
    let pair = |a: Node, b: Node| if c.indef { cborx::array_indef(vec![a, b]) } else { cborx::array(vec![a, b]) };
    let find_asset = |ma: &std::collections::BTreeMap<conway::PolicyId, std::collections::BTreeMap<conway::AssetName, PositiveCoin>>| -> i128 {
        let key: conway::AssetName = vec![b'a' + c.slot % 3].into();
        // -998: the probed asset is not in the decoded value at all (silently dropped)
        ma.values().next().and_then(|inner| inner.get(&key)).map(|q| u64::from(*q) as i128).unwrap_or(-998)
    };
    let find_mint = |ma: &conway::Mint| -> i128 {
        let key: conway::AssetName = vec![b'a' + c.slot % 3].into();
        ma.values().next().and_then(|inner| inner.get(&key)).map(|q| i64::from(*q) as i128).unwrap_or(-998)
    };
    let out_val = |v: &conway::Value| -> i128 {
        match v {
            conway::Value::Multiasset(_, ma) => find_asset(ma),
            conway::Value::Coin(_) => -999,
        }
    };
    let tx_out = |o: &conway::TransactionOutput| -> i128 {
        match o {
            conway::TransactionOutput::PostAlonzo(o) => out_val(&o.value),
            _ => -999,
        }
    };
    match c.site {
        Site::DirectPositiveCoin => {
            let b = cborx::write(&p);
            let r = minicbor::decode::<PositiveCoin>(&b).map(|x| u64::from(x) as i128).map_err(|e| e.to_string());
            (b, r)
        }
        Site::DirectNonZeroInt => {
            let b = cborx::write(&p);
            let r = minicbor::decode::<NonZeroInt>(&b).map(|x| i64::from(x) as i128).map_err(|e| e.to_string());
            (b, r)
        }
        Site::ValueAsset => {
            let b = cborx::write(&pair(coin, multiasset(p, c.slot, 5)));
            let r = minicbor::decode::<conway::Value>(&b).map(|v| out_val(&v)).map_err(|e| e.to_string());
            (b, r)
        }
        Site::MintAsset => {
            let b = cborx::write(&multiasset(p, c.slot, -5));
            let r = minicbor::decode::<conway::Mint>(&b).map(|v| find_mint(&v)).map_err(|e| e.to_string());
            (b, r)
        }
        Site::BodyDonation => {
            let b = cborx::write(&body(vec![(22, p)], coin));
            let r = minicbor::decode::<conway::TransactionBody>(&b)
                .map(|t| t.donation.map(|d| u64::from(d) as i128).unwrap_or(-999))
                .map_err(|e| e.to_string());
            (b, r)
        }
        Site::BodyOutputAsset => {
            let b = cborx::write(&body(vec![], pair(coin, multiasset(p, c.slot, 5))));
            let r = minicbor::decode::<conway::TransactionBody>(&b).map(|t| tx_out(&t.outputs[0])).map_err(|e| e.to_string());
            (b, r)
        }
        Site::BodyMint => {
            let b = cborx::write(&body(vec![(9, multiasset(p, c.slot, -5))], coin));
            let r = minicbor::decode::<conway::TransactionBody>(&b)
                .map(|t| t.mint.as_ref().map(find_mint).unwrap_or(-999))
                .map_err(|e| e.to_string());
            (b, r)
        }
        Site::BodyCollateralReturnAsset => {
            let ret = output(pair(coin.clone(), multiasset(p, c.slot, 5)));
            let b = cborx::write(&body(vec![(16, ret)], coin));
            let r = minicbor::decode::<conway::TransactionBody>(&b)
                .map(|t| t.collateral_return.as_ref().map(tx_out).unwrap_or(-999))
                .map_err(|e| e.to_string());
            (b, r)
        }
    }
}

fn check(c: &Case, obs: &mut Obs) -> Result<(), Fail> {
    if !c.w.fits(c.v) {
        obs.discard();
        return Ok(());
    }
    let num = c.num();
    let (bytes, r) = probe(c);
    let site = format!("{:?}", c.site);
    let in_range = if positive_site(c.site) { (1..=u64::MAX as i128).contains(&num) } else { num != 0 && (i64::MIN as i128..=i64::MAX as i128).contains(&num) };
    obs.class(format!("{site}:{}", if num == 0 { "zero" } else if in_range { "in-range" } else { "out-of-range" }));
    match &r {
        Ok(x) => {
            pv_ensure!(num != 0, format!("zero-accepted:{site}"),
                "{} decodes at {site} although the quantity is zero (decoded value {x})", hex::encode(&bytes));
            pv_ensure!(*x != 0, format!("zero-produced:{site}"), "{} decoded to a wrapper holding zero", hex::encode(&bytes));
            pv_ensure!(*x == num, format!("wrong-value:{site}"), "{} encodes {num} but decoded to {x}", hex::encode(&bytes));
        }
        Err(_) if c.indef => {
            obs.class(format!("{site}:indefinite-framing-refused"));
        }
        Err(e) => {
            pv_ensure!(!in_range, format!("valid-rejected:{site}"),
                "{} holds the admissible quantity {num} at {site} but is rejected: {e}", hex::encode(&bytes));
        }
    }
    obs.nontrivial_if(num == 0);
    Ok(())
}

/// The quantity written as a big number (tag 2 / tag 3 over a byte string): the CDDL's `uint`/`int` positions do not ask
/// for it and the library refuses it today; whether it is accepted is not judged, but whatever comes out of the decoder
/// must not be a wrapper holding zero (magnitudes whose low 64 bits are zero are the interesting ones).
#[derive(Debug, Clone, Serialize, Deserialize)]
pub struct BigCase {
    site: Site,
    neg: bool,
    #[serde(with = "pvkit::cborx::hexser")]
    mag: Vec<u8>,
    slot: u8,
}

fn check_big(c: &BigCase, obs: &mut Obs) -> Result<(), Fail> {
    let base = Case { site: c.site, neg: c.neg, v: 0, w: W::Imm, slot: c.slot, indef: false };
    let node = cborx::tag(if c.neg { 3 } else { 2 }, cborx::bytes(&c.mag));
    let (bytes, r) = probe_node(&base, node);
    let site = format!("{:?}", c.site);
    match &r {
        Ok(x) => {
            obs.class(format!("{site}:bignum-accepted"));
            pv_ensure!(*x != 0, format!("zero-produced:{site}:bignum"), "{} decoded to a wrapper holding zero", hex::encode(&bytes));
        }
        Err(_) => obs.class(format!("{site}:bignum-refused")),
    }
    obs.nontrivial_if(c.mag.iter().rev().take(8).all(|b| *b == 0));
    Ok(())
}

/// Maps that repeat a key (the wire format cannot forbid it): whatever a decoder does with the repeated entries — keep one,
/// keep the last, refuse, combine — no wrapper of the decoded value may hold zero. Quantities are chosen so that the
/// repeated entries cancel.
#[derive(Debug, Clone, Serialize, Deserialize)]
pub struct DupCase {
    /// the repeated entries' quantities (each one non-zero and in range)
    qs: Vec<i64>,
    /// 0: the asset name repeats inside one policy; 1: the policy repeats; 2: both
    level: u8,
    /// 0: a mint decoded directly; 1: the mint field of a transaction body; 2: an output value (positive quantities only)
    site: u8,
}

fn check_dup(c: &DupCase, obs: &mut Obs) -> Result<(), Fail> {
    let pol = [0x11u8; 28];
    let name = cborx::bytes(b"a");
    let positive = c.site == 2;
    let qs: Vec<i128> = c.qs.iter().map(|q| if positive { (*q as i128).abs().max(1) } else { *q as i128 }).collect();
    let entry = |q: i128| (name.clone(), cborx::int(q));
    let ma = match c.level % 3 {
        0 => cborx::map(vec![(cborx::bytes(&pol), cborx::map(qs.iter().map(|q| entry(*q)).collect()))]),
        1 => cborx::map(qs.iter().map(|q| (cborx::bytes(&pol), cborx::map(vec![entry(*q)]))).collect()),
        _ => cborx::map(qs.iter().map(|q| (cborx::bytes(&pol), cborx::map(vec![entry(*q), entry(*q)]))).collect()),
    };
    let coin = cborx::uint(2_000_000);
    let site = ["Mint", "BodyMint", "BodyOutputAsset"][c.site as usize % 3];
    let holds_zero_mint = |m: &conway::Mint| m.values().any(|inner| inner.values().any(|q| i64::from(q) == 0));
    let (bytes, zero): (Vec<u8>, Result<bool, String>) = match c.site % 3 {
        0 => {
            let b = cborx::write(&ma);
            let r = minicbor::decode::<conway::Mint>(&b).map(|m| holds_zero_mint(&m)).map_err(|e| e.to_string());
            (b, r)
        }
        1 => {
            let b = cborx::write(&body(vec![(9, ma)], coin));
            let r = minicbor::decode::<conway::TransactionBody>(&b).map(|t| t.mint.as_ref().map(holds_zero_mint).unwrap_or(false)).map_err(|e| e.to_string());
            (b, r)
        }
        _ => {
            let b = cborx::write(&body(vec![], cborx::array(vec![coin, ma])));
            let r = minicbor::decode::<conway::TransactionBody>(&b)
                .map(|t| match &t.outputs[0] {
                    conway::TransactionOutput::PostAlonzo(o) => match &o.value {
                        conway::Value::Multiasset(_, ma) => ma.values().any(|inner| inner.values().any(|q| u64::from(q) == 0)),
                        _ => false,
                    },
                    _ => false,
                })
                .map_err(|e| e.to_string());
            (b, r)
        }
    };
    let cancel = qs.iter().sum::<i128>() == 0;
    obs.class(format!("duplicate-keys:{site}:{}:{}", if cancel { "cancelling" } else { "not-cancelling" }, if zero.is_ok() { "decoded" } else { "refused" }));
    if let Ok(z) = zero {
        pv_ensure!(!z, format!("zero-produced:{site}:duplicate-keys"),
            "{} repeats a key with the non-zero quantities {:?}; the decoded value holds a zero quantity", hex::encode(&bytes), qs);
    }
    obs.nontrivial_if(cancel);
    Ok(())
}

/// The checked constructors the statement compares decoding with: zero is refused, everything else is kept as given,
/// and what they build encodes to an integer that decodes back to the same value.
fn check_ctor(v: &i128, obs: &mut Obs) -> Result<(), Fail> {
    let v = *v;
    if (0..=u64::MAX as i128).contains(&v) {
        let r = PositiveCoin::try_from(v as u64);
        obs.class(if v == 0 { "ctor:positive-coin:zero" } else { "ctor:positive-coin:non-zero" });
        match r {
            Ok(p) => {
                pv_ensure!(v != 0, "zero-accepted:PositiveCoin::try_from", "PositiveCoin::try_from(0) is Ok");
                pv_ensure!(u64::from(p) == v as u64, "ctor-value-changed:PositiveCoin", "PositiveCoin::try_from({v}) holds {}", u64::from(p));
                let bytes = minicbor::to_vec(p).map_err(|e| Fail { sig: "ctor-encode-failed:PositiveCoin".into(), msg: e.to_string() })?;
                let back: Result<PositiveCoin, _> = minicbor::decode(&bytes);
                pv_ensure!(matches!(back, Ok(b) if u64::from(b) == v as u64), "ctor-roundtrip:PositiveCoin", "PositiveCoin({v}) encodes to {} which does not decode back", hex::encode(&bytes));
            }
            Err(_) => pv_ensure!(v == 0, "non-zero-refused:PositiveCoin::try_from", "PositiveCoin::try_from({v}) is Err"),
        }
    }
    if (i64::MIN as i128..=i64::MAX as i128).contains(&v) {
        let r = NonZeroInt::try_from(v as i64);
        obs.class(if v == 0 { "ctor:non-zero-int:zero" } else { "ctor:non-zero-int:non-zero" });
        match r {
            Ok(p) => {
                pv_ensure!(v != 0, "zero-accepted:NonZeroInt::try_from", "NonZeroInt::try_from(0) is Ok");
                pv_ensure!(i64::from(p) == v as i64, "ctor-value-changed:NonZeroInt", "NonZeroInt::try_from({v}) holds {}", i64::from(p));
                let bytes = minicbor::to_vec(p).map_err(|e| Fail { sig: "ctor-encode-failed:NonZeroInt".into(), msg: e.to_string() })?;
                let back: Result<NonZeroInt, _> = minicbor::decode(&bytes);
                pv_ensure!(matches!(back, Ok(b) if i64::from(b) == v as i64), "ctor-roundtrip:NonZeroInt", "NonZeroInt({v}) encodes to {} which does not decode back", hex::encode(&bytes));
            }
            Err(_) => pv_ensure!(v == 0, "non-zero-refused:NonZeroInt::try_from", "NonZeroInt::try_from({v}) is Err"),
        }
    }
    obs.nontrivial_if(v == 0);
    Ok(())
}

pub fn run(s: &Session) {
    s.set_rule("integers (all five head widths, both signs, boundary magnitudes) decoded as PositiveCoin / NonZeroInt \
        directly and at the asset-quantity, mint and donation positions of cborx-built Conway values and transaction \
        bodies. Oracle: zero => Err; admissible non-zero => Ok with the encoded number; Ok never holds 0; the checked constructors \
        (try_from) refuse exactly zero, keep every other value and what they build round-trips. \
        Non-trivial = the probed position holds a zero; distinct = distinct (site, width, sibling slot)");
    let mags: Vec<u64> = vec![0, 1, 2, 23, 24, 255, 256, 65535, 65536, u32::MAX as u64, 1 << 32, (1 << 63) - 1, 1 << 63, u64::MAX];
    let mut fam = vec![];
    for site in SITES {
        for neg in [false, true] {
            for &v in &mags {
                for w in W::options(v) {
                    for slot in 0..3u8 {
                        fam.push(Case { site, neg, v, w, slot, indef: false });
                        if matches!(site, Site::ValueAsset | Site::BodyOutputAsset | Site::BodyCollateralReturnAsset) {
                            fam.push(Case { site, neg, v, w, slot, indef: true });
                        }
                    }
                }
            }
        }
    }
    s.foreach("boundary-family", fam, true, check);
    let mut big = vec![];
    let z = |n: usize| vec![0u8; n];
    let lead = |first: u8, zeros: usize| {
        let mut v = vec![first];
        v.extend(vec![0u8; zeros]);
        v
    };
    let mags_big: Vec<Vec<u8>> = vec![
        vec![], z(1), z(2), z(7), z(8), z(9), z(16), lead(1, 8), lead(2, 8), lead(0xff, 8), lead(1, 9), lead(1, 16), lead(0x80, 7), vec![1], vec![0, 1],
        vec![0xff; 8], vec![0xff; 9], lead(1, 4), lead(1, 3),
    ];
    for site in SITES {
        for neg in [false, true] {
            for mag in &mags_big {
                big.push(BigCase { site, neg, mag: mag.clone(), slot: (mag.len() % 3) as u8 });
            }
        }
    }
    s.foreach("bignum-forms", big, true, check_big);
    let mut ctor: Vec<i128> = vec![];
    for &m in &mags {
        ctor.push(m as i128);
        ctor.push(-(m as i128));
        ctor.push(-(m as i128) - 1);
    }
    ctor.sort();
    ctor.dedup();
    s.foreach("checked-constructors", ctor, true, check_ctor);
    s.forall(
        "duplicate-keys",
        s.pick(20_000, 400_000),
        || {
            let q = || prop_oneof![Just(1i64), Just(-1), Just(7), Just(-7), Just(i64::MAX), Just(i64::MIN), Just(i64::MIN + 1), -50i64..50, any::<i64>()].prop_filter("non-zero", |q| *q != 0);
            (
                prop_oneof![
                    3 => q().prop_map(|a| vec![a, a.checked_neg().unwrap_or(i64::MAX)]),
                    1 => Just(vec![i64::MIN, i64::MAX, 1]),
                    1 => (q(), q()).prop_map(|(a, b)| match a.checked_add(b).and_then(|s| s.checked_neg()) { Some(c) if c != 0 => vec![a, b, c], _ => vec![a, b] }),
                    2 => prop::collection::vec(q(), 2..4),
                ],
                0u8..3,
                0u8..3,
            )
                .prop_map(|(qs, level, site)| DupCase { qs, level, site })
        },
        check_dup,
    );
    s.forall(
        "random",
        s.pick(200_000, 4_000_000),
        || {
            (0usize..SITES.len(), any::<bool>(), prop_oneof![Just(0u64), 0u64..30, any::<u64>()], 0usize..5, 0u8..3).prop_map(|(si, neg, v, wi, slot)| {
                let opts = W::options(v);
                Case { site: SITES[si], neg, v, w: opts[wi % opts.len()], slot, indef: slot % 2 == 1 && wi % 3 == 0 }
            })
        },
        check,
    );
}
