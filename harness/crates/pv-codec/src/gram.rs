//! cborx-level grammars: strategies producing *encodings* (with every syntactic freedom) that a
//! given pallas-codec type accepts.
use proptest::prelude::*;
use pvkit::cborx::{self, Kind, Len, Node, Str, W};

pub fn u64_edge() -> BoxedStrategy<u64> {
    prop_oneof![
        3 => 0u64..30,
        2 => prop::sample::select(vec![0u64, 1, 23, 24, 25, 255, 256, 65535, 65536, 0xffff_ffff, 0x1_0000_0000, u64::MAX, 1 << 63, (1 << 63) - 1]),
        2 => any::<u64>(),
        1 => (0u32..64, 0u64..3).prop_map(|(b, d)| (1u64 << b).wrapping_add(d)),
    ]
    .boxed()
}

/// width: minimal with probability ~1/2, otherwise any admissible width
pub fn width_for(v: u64) -> BoxedStrategy<W> {
    let opts = W::options(v);
    let min = W::min_for(v);
    prop_oneof![1 => Just(min), 1 => prop::sample::select(opts)].boxed()
}

pub fn uint_any_width() -> BoxedStrategy<Node> {
    u64_edge().prop_flat_map(|v| width_for(v).prop_map(move |w| cborx::node(Kind::UInt(v, w)))).boxed()
}

pub fn uint_nonzero_any_width() -> BoxedStrategy<Node> {
    u64_edge()
        .prop_map(|v| v.max(1))
        .prop_flat_map(|v| width_for(v).prop_map(move |w| cborx::node(Kind::UInt(v, w))))
        .boxed()
}

pub fn int_any_width() -> BoxedStrategy<Node> {
    (u64_edge(), any::<bool>())
        .prop_flat_map(|(v, neg)| {
            width_for(v).prop_map(move |w| cborx::node(if neg { Kind::NInt(v, w) } else { Kind::UInt(v, w) }))
        })
        .boxed()
}

pub fn bytes_def() -> BoxedStrategy<Node> {
    prop::collection::vec(any::<u8>(), 0..40)
        .prop_flat_map(|d| {
            width_for(d.len() as u64).prop_map(move |w| cborx::node(Kind::Bytes(Str::Def(w, d.clone()))))
        })
        .boxed()
}

fn str_any(text: bool) -> BoxedStrategy<Node> {
    let payload = if text {
        "[a-zé]{0,12}".prop_map(|s| s.into_bytes()).boxed()
    } else {
        prop::collection::vec(any::<u8>(), 0..30).boxed()
    };
    let mk = move |s: Str| cborx::node(if text { Kind::Text(s) } else { Kind::Bytes(s) });
    prop_oneof![
        3 => payload.clone().prop_flat_map(move |d| width_for(d.len() as u64).prop_map(move |w| Str::Def(w, d.clone()))),
        1 => prop::collection::vec(payload.prop_flat_map(|d| width_for(d.len() as u64).prop_map(move |w| (w, d.clone()))), 0..4)
            .prop_map(Str::Indef),
    ]
    .prop_map(mk)
    .boxed()
}

pub fn len_for(n: usize, allow_nonminimal: bool) -> BoxedStrategy<Len> {
    let min = W::min_for(n as u64);
    if allow_nonminimal {
        prop_oneof![2 => Just(Len::Def(min)), 1 => Just(Len::Indef), 1 => prop::sample::select(W::options(n as u64)).prop_map(Len::Def)]
            .boxed()
    } else {
        prop_oneof![2 => Just(Len::Def(min)), 1 => Just(Len::Indef)].boxed()
    }
}

pub fn array_of(elem: BoxedStrategy<Node>, max: usize, nonmin_len: bool) -> BoxedStrategy<Node> {
    prop::collection::vec(elem, 0..=max)
        .prop_flat_map(move |items| {
            len_for(items.len(), nonmin_len).prop_map(move |len| cborx::node(Kind::Array(items.clone(), len)))
        })
        .boxed()
}

pub fn map_of(k: BoxedStrategy<Node>, v: BoxedStrategy<Node>, min: usize, max: usize, nonmin_len: bool) -> BoxedStrategy<Node> {
    prop::collection::vec((k, v), min..=max)
        .prop_flat_map(move |items| {
            len_for(items.len(), nonmin_len).prop_map(move |len| cborx::node(Kind::Map(items.clone(), len)))
        })
        .boxed()
}

pub fn nullable_of(inner: BoxedStrategy<Node>) -> BoxedStrategy<Node> {
    prop_oneof![1 => Just(cborx::null()), 1 => Just(cborx::undefined()), 3 => inner].boxed()
}

pub fn set_of(elem: BoxedStrategy<Node>, min: usize, max: usize) -> BoxedStrategy<Node> {
    (prop::collection::vec(elem, min..=max), any::<bool>(), any::<bool>())
        .prop_map(|(items, tagged, indef)| {
            let arr = if indef { cborx::array_indef(items) } else { cborx::array(items) };
            if tagged {
                cborx::tag(258, arr)
            } else {
                arr
            }
        })
        .boxed()
}

/// Any well-formed CBOR item up to the given depth.
pub fn any_item(depth: u32) -> BoxedStrategy<Node> {
    let leaf = prop_oneof![
        3 => uint_any_width(),
        2 => int_any_width(),
        2 => str_any(false),
        2 => str_any(true),
        1 => prop_oneof![Just(20u8), Just(21), Just(22), Just(23), 0u8..20].prop_map(|v| cborx::node(Kind::Simple(v, false))),
        1 => (32u8..=255).prop_map(|v| cborx::node(Kind::Simple(v, true))),
        1 => any::<u16>().prop_map(|b| cborx::node(Kind::F16(b))),
        1 => any::<u32>().prop_map(|b| cborx::node(Kind::F32(b))),
        1 => any::<u64>().prop_map(|b| cborx::node(Kind::F64(b))),
    ];
    leaf.prop_recursive(depth, 24, 4, |inner| {
        prop_oneof![
            2 => array_of(inner.clone().boxed(), 4, true),
            2 => map_of(inner.clone().boxed(), inner.clone().boxed(), 0, 3, true),
            1 => (u64_edge(), inner).prop_flat_map(|(t, i)| width_for(t).prop_map(move |w| cborx::node(Kind::Tag(t, w, Box::new(i.clone()))))),
        ]
    })
    .boxed()
}
