mod c01;
mod c02;

use pvkit::session::CheckDef;

fn main() {
    pvkit::main(&[
        CheckDef { id: "C01", level: "exploration", run: c01::run },
        CheckDef { id: "C02", level: "exploration", run: c02::run },
    ]);
}
