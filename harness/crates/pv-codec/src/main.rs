mod c01;
mod c02;
mod c03;
mod c04;
mod gram;

use pvkit::session::CheckDef;

fn main() {
    pvkit::main(&[
        CheckDef { id: "C01", level: "exploration", run: c01::run },
        CheckDef { id: "C02", level: "exploration", run: c02::run },
        CheckDef { id: "C03", level: "exploration", run: c03::run },
        CheckDef { id: "C04", level: "exploration", run: c04::run },
    ]);
}
