//! C10 — Blake2b hashing, hash values and nonce derivations match the reference (DESIGN §C10).
//!
//! Oracle: pvkit's RFC 7693 Blake2b (pallas uses cryptoxide), cborx for the expected CBOR bytes of
//! a `Hash<N>`, a hand-written hex encoder, and the Praos nonce compositions written out here.
use pallas_codec::minicbor;
use pallas_crypto::hash::{Hash, Hasher};
use pallas_crypto::nonce::{generate_epoch_nonce, generate_rolling_nonce};
use proptest::prelude::*;
use pvkit::blake2b::{b256, blake2b};
use pvkit::{cborx, pv_ensure, pv_fail, Fail, Obs, Session};
use serde::{Deserialize, Serialize};
use std::str::FromStr;

const BITS: [u16; 3] = [160, 224, 256];

/// Expand a recipe into bytes (deterministic; keeps cases small and shrinkable).
fn expand(len: usize, seed: u64, pattern: u8) -> Vec<u8> {
    match pattern % 4 {
        0 => vec![0u8; len],
        1 => (0..len).map(|i| i as u8).collect(),
        _ => {
            let mut out = Vec::with_capacity(len + 8);
            let mut x = seed;
            while out.len() < len {
                x = pvkit::splitmix(x);
                out.extend_from_slice(&x.to_le_bytes());
            }
            out.truncate(len);
            out
        }
    }
}

macro_rules! per_bits {
    ($bits:expr, $h:ident => $body:expr) => {
        match $bits {
            160 => {
                type $h = Hasher<160>;
                $body
            }
            224 => {
                type $h = Hasher<224>;
                $body
            }
            _ => {
                type $h = Hasher<256>;
                $body
            }
        }
    };
}

fn lib_incremental(bits: u16, chunks: &[&[u8]]) -> Vec<u8> {
    per_bits!(bits, H => {
        let mut h = H::new();
        for c in chunks {
            h.input(c);
        }
        h.finalize().to_vec()
    })
}

fn lib_oneshot(bits: u16, data: &[u8]) -> Vec<u8> {
    per_bits!(bits, H => H::hash(data).to_vec())
}

fn lib_tagged(bits: u16, data: &[u8], tag: u8) -> Vec<u8> {
    per_bits!(bits, H => H::hash_tagged(data, tag).to_vec())
}

fn lib_cbor(bits: u16, v: &Val) -> Vec<u8> {
    per_bits!(bits, H => H::hash_cbor(v).to_vec())
}

fn lib_tagged_cbor(bits: u16, v: &Val, tag: u8) -> Vec<u8> {
    per_bits!(bits, H => H::hash_tagged_cbor(v, tag).to_vec())
}

fn reference(bits: u16, data: &[u8]) -> Vec<u8> {
    blake2b(bits as usize / 8, data)
}

// ------------------------------------------------------------------------------------------------
// (1) chunked hashing

#[derive(Debug, Clone, Serialize, Deserialize)]
pub enum Cut {
    /// anywhere: selector over 0..=len
    Sel(u16),
    /// at 128*k + delta (clamped into 0..=len)
    Edge(u8, i8),
}

#[derive(Debug, Clone, Serialize, Deserialize)]
pub struct ChunkCase {
    bits_sel: u8,
    len: u16,
    seed: u64,
    pattern: u8,
    cuts: Vec<Cut>,
}

fn data_len() -> impl Strategy<Value = u16> {
    prop_oneof![
        3 => prop::sample::select(vec![0u16, 1, 2, 63, 64, 127, 128, 129, 255, 256, 257, 383, 384, 385, 1024, 4095, 4096]),
        3 => 0u16..=4096,
        2 => 0u16..300,
    ]
}

fn chunk_case() -> impl Strategy<Value = ChunkCase> {
    (
        0u8..3,
        data_len(),
        any::<u64>(),
        any::<u8>(),
        prop::collection::vec(
            prop_oneof![
                3 => any::<u16>().prop_map(Cut::Sel),
                2 => (0u8..=32, -1i8..=1).prop_map(|(k, d)| Cut::Edge(k, d)),
            ],
            0..10,
        ),
    )
        .prop_map(|(bits_sel, len, seed, pattern, cuts)| ChunkCase { bits_sel, len, seed, pattern, cuts })
}

fn check_chunks(c: &ChunkCase, obs: &mut Obs) -> Result<(), Fail> {
    let bits = BITS[c.bits_sel as usize % 3];
    let len = c.len as usize;
    let data = expand(len, c.seed, c.pattern);
    let mut pos: Vec<usize> = c
        .cuts
        .iter()
        .map(|cut| match cut {
            Cut::Sel(s) => pvkit::pick_idx(*s, len + 1),
            Cut::Edge(k, d) => (*k as i64 * 128 + *d as i64).clamp(0, len as i64) as usize,
        })
        .collect();
    pos.sort();
    let mut chunks: Vec<&[u8]> = vec![];
    let mut at = 0;
    for p in &pos {
        chunks.push(&data[at..*p]);
        at = *p;
    }
    chunks.push(&data[at..]);
    let want = reference(bits, &data);
    let inc = lib_incremental(bits, &chunks);
    pv_ensure!(
        inc == want,
        format!("incremental-digest-differs-from-reference:{bits}"),
        "Hasher<{bits}> over {} bytes fed as chunks {:?} = {} but RFC 7693 gives {}",
        len, chunks.iter().map(|c| c.len()).collect::<Vec<_>>(), hex::encode(&inc), hex::encode(&want)
    );
    let one = lib_oneshot(bits, &data);
    pv_ensure!(
        one == want,
        format!("oneshot-digest-differs-from-reference:{bits}"),
        "Hasher::<{bits}>::hash over {} bytes = {} but RFC 7693 gives {}", len, hex::encode(&one), hex::encode(&want)
    );
    obs.class(format!("bits{bits}"));
    obs.class(format!("chunks:{}", match chunks.len() { 1 => "1", 2..=4 => "2..4", _ => "5.." }));
    if chunks.iter().any(|c| c.is_empty()) && chunks.len() > 1 {
        obs.class("has-empty-chunk");
    }
    if len > 128 {
        obs.class("multi-block");
    }
    let off_edge = pos.iter().any(|p| *p != 0 && *p != len && *p % 128 != 0);
    if pos.iter().any(|p| *p != 0 && *p != len && *p % 128 == 0) {
        obs.class("split-on-block-edge");
    }
    if off_edge {
        obs.class("split-off-block-edge");
    }
    obs.nontrivial_if(chunks.len() >= 2 && off_edge);
    Ok(())
}

// ------------------------------------------------------------------------------------------------
// (2) tagged and CBOR variants

/// A CBOR-encodable value (encoded through minicbor's encoder, like every pallas structure).
#[derive(Debug, Clone, Serialize, Deserialize)]
pub enum Val {
    U(u64),
    I(i64),
    Bool(bool),
    Null,
    Bytes(Vec<u8>),
    Text(String),
    Arr(Vec<Val>),
    ArrIndef(Vec<Val>),
    Map(Vec<(Val, Val)>),
    Tag(u64, Box<Val>),
    /// a pallas `Hash<32>` (its own Encode impl)
    H32([u8; 32]),
    /// a large byte string from a recipe (crosses Blake2b block boundaries in one write)
    Blob(u16, u64),
}

impl<C> minicbor::Encode<C> for Val {
    fn encode<W: minicbor::encode::Write>(
        &self,
        e: &mut minicbor::Encoder<W>,
        ctx: &mut C,
    ) -> Result<(), minicbor::encode::Error<W::Error>> {
        match self {
            Val::U(v) => {
                e.u64(*v)?;
            }
            Val::I(v) => {
                e.i64(*v)?;
            }
            Val::Bool(b) => {
                e.bool(*b)?;
            }
            Val::Null => {
                e.null()?;
            }
            Val::Bytes(b) => {
                e.bytes(b)?;
            }
            Val::Text(t) => {
                e.str(t)?;
            }
            Val::Arr(items) => {
                e.array(items.len() as u64)?;
                for i in items {
                    i.encode(e, ctx)?;
                }
            }
            Val::ArrIndef(items) => {
                e.begin_array()?;
                for i in items {
                    i.encode(e, ctx)?;
                }
                e.end()?;
            }
            Val::Map(items) => {
                e.map(items.len() as u64)?;
                for (k, v) in items {
                    k.encode(e, ctx)?;
                    v.encode(e, ctx)?;
                }
            }
            Val::Tag(t, inner) => {
                e.tag(minicbor::data::Tag::new(*t))?;
                inner.encode(e, ctx)?;
            }
            Val::H32(h) => {
                Hash::<32>::new(*h).encode(e, ctx)?;
            }
            Val::Blob(len, seed) => {
                e.bytes(&expand(*len as usize, *seed, 2))?;
            }
        }
        Ok(())
    }
}

/// The same value as a cborx tree (independent writer).
fn to_node(v: &Val) -> cborx::Node {
    match v {
        Val::U(v) => cborx::uint(*v),
        Val::I(v) => cborx::int(*v as i128),
        Val::Bool(b) => cborx::boolean(*b),
        Val::Null => cborx::null(),
        Val::Bytes(b) => cborx::bytes(b),
        Val::Text(t) => cborx::text(t),
        Val::Arr(items) => cborx::array(items.iter().map(to_node).collect()),
        Val::ArrIndef(items) => cborx::array_indef(items.iter().map(to_node).collect()),
        Val::Map(items) => cborx::map(items.iter().map(|(k, v)| (to_node(k), to_node(v))).collect()),
        Val::Tag(t, inner) => cborx::tag(*t, to_node(inner)),
        Val::H32(h) => cborx::bytes(h),
        Val::Blob(len, seed) => cborx::bytes(&expand(*len as usize, *seed, 2)),
    }
}

fn val() -> impl Strategy<Value = Val> {
    let leaf = prop_oneof![
        3 => prop_oneof![any::<u64>(), 0u64..30, Just(23), Just(24), Just(255), Just(256), Just(65535), Just(65536)].prop_map(Val::U),
        2 => prop_oneof![any::<i64>(), -30i64..30].prop_map(Val::I),
        1 => any::<bool>().prop_map(Val::Bool),
        1 => Just(Val::Null),
        3 => prop::collection::vec(any::<u8>(), 0..40).prop_map(Val::Bytes),
        2 => "[a-zA-Z0-9 é€]{0,24}".prop_map(Val::Text),
        2 => any::<[u8; 32]>().prop_map(Val::H32),
        1 => (100u16..700, any::<u64>()).prop_map(|(l, s)| Val::Blob(l, s)),
    ];
    leaf.prop_recursive(4, 48, 6, |inner| {
        prop_oneof![
            3 => prop::collection::vec(inner.clone(), 0..6).prop_map(Val::Arr),
            1 => prop::collection::vec(inner.clone(), 0..6).prop_map(Val::ArrIndef),
            2 => prop::collection::vec((inner.clone(), inner.clone()), 0..4).prop_map(Val::Map),
            1 => (prop_oneof![Just(24u64), Just(258), Just(121), any::<u64>()], inner).prop_map(|(t, v)| Val::Tag(t, Box::new(v))),
        ]
    })
}

#[derive(Debug, Clone, Serialize, Deserialize)]
pub struct TaggedCase {
    bits_sel: u8,
    tag: u8,
    len: u16,
    seed: u64,
    pattern: u8,
    value: Val,
}

fn tagged_case() -> impl Strategy<Value = TaggedCase> {
    (0u8..3, any::<u8>(), prop_oneof![0u16..200, data_len()], any::<u64>(), any::<u8>(), val())
        .prop_map(|(bits_sel, tag, len, seed, pattern, value)| TaggedCase { bits_sel, tag, len, seed, pattern, value })
}

fn check_tagged(c: &TaggedCase, obs: &mut Obs) -> Result<(), Fail> {
    let bits = BITS[c.bits_sel as usize % 3];
    let data = expand(c.len as usize, c.seed, c.pattern);
    // hash_tagged(b, t) = H(t ‖ b)
    let mut pre = vec![c.tag];
    pre.extend_from_slice(&data);
    let want = reference(bits, &pre);
    let got = lib_tagged(bits, &data, c.tag);
    pv_ensure!(got == want, format!("hash_tagged-differs-from-reference:{bits}"),
        "hash_tagged({} bytes, tag {:#04x}) = {} but H(tag ‖ bytes) = {}", data.len(), c.tag, hex::encode(&got), hex::encode(&want));
    // hash_cbor(v) = H(cbor(v)); hash_tagged_cbor(v, t) = H(t ‖ cbor(v))
    let enc = match minicbor::to_vec(&c.value) {
        Ok(e) => e,
        Err(e) => pv_fail!("harness:value-not-encodable", "{e}"),
    };
    if cborx::write(&to_node(&c.value)) == enc {
        obs.class("cbor-bytes-confirmed-by-cborx");
    } else {
        obs.class("cbor-bytes-not-confirmed-by-cborx");
    }
    let want = reference(bits, &enc);
    let got = lib_cbor(bits, &c.value);
    pv_ensure!(got == want, format!("hash_cbor-differs-from-reference:{bits}"),
        "hash_cbor of a value encoding to {} bytes = {} but H(encoding) = {}", enc.len(), hex::encode(&got), hex::encode(&want));
    let mut pre = vec![c.tag];
    pre.extend_from_slice(&enc);
    let want = reference(bits, &pre);
    let got = lib_tagged_cbor(bits, &c.value, c.tag);
    pv_ensure!(got == want, format!("hash_tagged_cbor-differs-from-reference:{bits}"),
        "hash_tagged_cbor (tag {:#04x}, {} encoded bytes) = {} but H(tag ‖ encoding) = {}", c.tag, enc.len(), hex::encode(&got), hex::encode(&want));
    obs.class(format!("tagged:bits{bits}"));
    obs.class(format!("cbor-len:{}", match enc.len() { 0..=23 => "<24", 24..=127 => "24..127", _ => "128.." }));
    obs.nontrivial_if(!data.is_empty() && enc.len() > 1);
    Ok(())
}

/// Bounded family: every tag byte, three widths, fixed data.
fn check_all_tags(bits_sel: &u8, obs: &mut Obs) -> Result<(), Fail> {
    let bits = BITS[*bits_sel as usize % 3];
    for len in [0usize, 1, 127, 128, 300] {
        let data = expand(len, 0xC10 + len as u64, 2);
        let v = Val::Arr(vec![Val::U(len as u64), Val::Bytes(data.clone())]);
        let enc = minicbor::to_vec(&v).map_err(|e| Fail { sig: "harness:value-not-encodable".into(), msg: e.to_string() })?;
        for tag in 0..=255u8 {
            let mut pre = vec![tag];
            pre.extend_from_slice(&data);
            pv_ensure!(lib_tagged(bits, &data, tag) == reference(bits, &pre),
                format!("hash_tagged-differs-from-reference:{bits}"),
                "hash_tagged({len} bytes, tag {tag:#04x}) != H(tag ‖ bytes)");
            let mut pre = vec![tag];
            pre.extend_from_slice(&enc);
            pv_ensure!(lib_tagged_cbor(bits, &v, tag) == reference(bits, &pre),
                format!("hash_tagged_cbor-differs-from-reference:{bits}"),
                "hash_tagged_cbor(tag {tag:#04x}) != H(tag ‖ encoding)");
        }
    }
    obs.class("all-256-tags");
    obs.nontrivial();
    Ok(())
}

// ------------------------------------------------------------------------------------------------
// (3) Hash<N> values

#[derive(Debug, Clone, Serialize, Deserialize)]
pub struct HashCase {
    n_sel: u8,
    bytes: [u8; 32],
    /// a byte string of the wrong length (adjusted when it happens to be N)
    wrong: Vec<u8>,
    bad_pos: u16,
    bad_char: char,
}

fn wrong_bytes() -> impl Strategy<Value = Vec<u8>> {
    prop_oneof![
        3 => prop::sample::select(vec![0usize, 1, 19, 20, 21, 27, 28, 29, 31, 32, 33, 64]),
        2 => 0usize..80,
    ]
    .prop_flat_map(|n| prop::collection::vec(any::<u8>(), n..=n))
}

fn hash_case() -> impl Strategy<Value = HashCase> {
    (
        0u8..3,
        any::<[u8; 32]>(),
        wrong_bytes(),
        any::<u16>(),
        prop_oneof![
            prop::sample::select(vec!['g', 'G', 'x', 'z', ' ', '-', '_', ':', '/', '@', '`', 'é', '\n', '\0']),
            any::<char>().prop_filter("non-hex", |c| !c.is_ascii_hexdigit()),
        ],
    )
        .prop_map(|(n_sel, bytes, wrong, bad_pos, bad_char)| HashCase { n_sel, bytes, wrong, bad_pos, bad_char })
}

fn own_hex(b: &[u8]) -> String {
    const D: &[u8; 16] = b"0123456789abcdef";
    let mut s = String::with_capacity(b.len() * 2);
    for x in b {
        s.push(D[(x >> 4) as usize] as char);
        s.push(D[(x & 15) as usize] as char);
    }
    s
}

fn check_hash_n<const N: usize>(c: &HashCase, obs: &mut Obs) -> Result<(), Fail> {
    let mut arr = [0u8; N];
    arr.copy_from_slice(&c.bytes[..N]);
    let h = Hash::<N>::from(arr);
    let hx = own_hex(&arr);
    // hex round trip
    let shown = h.to_string();
    pv_ensure!(shown == hx, format!("hash-display-not-lowercase-hex:{N}"), "to_string() = {shown:?}, expected {hx:?}");
    match Hash::<N>::from_str(&shown) {
        Ok(back) => pv_ensure!(back == h, format!("hash-hex-roundtrip-differs:{N}"), "from_str(to_string(h)) = {back} != {h}"),
        Err(e) => pv_fail!(format!("hash-hex-roundtrip-error:{N}"), "from_str({shown:?}) failed: {e}"),
    }
    // wrong lengths
    let mut wrong = c.wrong.clone();
    if wrong.len() == N {
        wrong.push(0xee);
    }
    let rel = if wrong.len() < N { "shorter" } else { "longer" };
    obs.class(format!("wrong-length:{rel}"));
    if wrong.len() + 1 == N || wrong.len() == N + 1 {
        obs.class("wrong-length:off-by-one");
    }
    let mut bad_strings: Vec<(String, &str)> = vec![
        (own_hex(&wrong), "wrong-length"),
        (hx[..hx.len() - 1].to_string(), "odd-length"),
        (format!("{hx}0"), "odd-length"),
        (format!("{hx}00"), "wrong-length"),
        (format!("0x{hx}"), "non-hex"),
    ];
    {
        // one character replaced by a non-hex character
        let mut chars: Vec<char> = hx.chars().collect();
        let p = pvkit::pick_idx(c.bad_pos, chars.len());
        chars[p] = c.bad_char;
        bad_strings.push((chars.into_iter().collect(), "non-hex"));
    }
    for (s, why) in &bad_strings {
        pv_ensure!(Hash::<N>::from_str(s).is_err(), format!("hash-from_str-accepts-{why}:{N}"),
            "Hash::<{N}>::from_str({s:?}) was accepted");
        // serde JSON goes through the same parser
        let js = serde_json::to_string(s).unwrap();
        pv_ensure!(serde_json::from_str::<Hash<N>>(&js).is_err(), format!("hash-json-accepts-{why}:{N}"),
            "serde_json::from_str::<Hash<{N}>>({js}) was accepted");
    }
    // CBOR round trip against an independent encoder
    let want_cbor = cborx::write(&cborx::bytes(&arr));
    let enc = minicbor::to_vec(h).map_err(|e| Fail { sig: format!("hash-cbor-encode-error:{N}"), msg: e.to_string() })?;
    pv_ensure!(enc == want_cbor, format!("hash-cbor-encoding-differs:{N}"),
        "Hash<{N}> encodes to {} but a definite byte string is {}", hex::encode(&enc), hex::encode(&want_cbor));
    let mut d = minicbor::Decoder::new(&want_cbor);
    match d.decode::<Hash<N>>() {
        Ok(back) => {
            pv_ensure!(back == h, format!("hash-cbor-roundtrip-differs:{N}"), "decoded {back} != {h}");
            pv_ensure!(d.position() == want_cbor.len(), format!("hash-cbor-not-fully-consumed:{N}"),
                "decoder stopped at {} of {}", d.position(), want_cbor.len());
        }
        Err(e) => pv_fail!(format!("hash-cbor-roundtrip-error:{N}"), "decode failed: {e}"),
    }
    let wrong_cbor = cborx::write(&cborx::bytes(&wrong));
    if let Ok(x) = minicbor::decode::<Hash<N>>(&wrong_cbor) {
        pv_fail!(format!("hash-cbor-accepts-wrong-length:{rel}:{N}"),
            "a {}-byte string decoded as Hash<{N}> = {x}", wrong.len());
    }
    // serde JSON round trip
    let js = serde_json::to_string(&h).map_err(|e| Fail { sig: format!("hash-json-encode-error:{N}"), msg: e.to_string() })?;
    pv_ensure!(js == format!("\"{hx}\""), format!("hash-json-not-hex-string:{N}"), "JSON form is {js}");
    match serde_json::from_str::<Hash<N>>(&js) {
        Ok(back) => pv_ensure!(back == h, format!("hash-json-roundtrip-differs:{N}"), "JSON round trip gave {back}"),
        Err(e) => pv_fail!(format!("hash-json-roundtrip-error:{N}"), "from_str({js}) failed: {e}"),
    }
    obs.class(format!("hash-bytes:{N}"));
    obs.nontrivial();
    Ok(())
}

fn check_hash(c: &HashCase, obs: &mut Obs) -> Result<(), Fail> {
    match c.n_sel % 3 {
        0 => check_hash_n::<20>(c, obs),
        1 => check_hash_n::<28>(c, obs),
        _ => check_hash_n::<32>(c, obs),
    }
}

// ------------------------------------------------------------------------------------------------
// (4) nonces

#[derive(Debug, Clone, Serialize, Deserialize)]
pub struct NonceCase {
    nc: [u8; 32],
    nh: [u8; 32],
    extra_entropy: Option<Vec<u8>>,
    prev: [u8; 32],
    vrf: Vec<u8>,
}

fn nonce_case() -> impl Strategy<Value = NonceCase> {
    (
        any::<[u8; 32]>(),
        any::<[u8; 32]>(),
        prop::option::weighted(
            0.6,
            prop_oneof![
                8 => prop::collection::vec(any::<u8>(), 32..=32),
                2 => prop::collection::vec(any::<u8>(), 0..100),
                1 => Just(vec![]),
                1 => prop::collection::vec(any::<u8>(), 1..=1),
            ],
        ),
        any::<[u8; 32]>(),
        prop_oneof![prop::collection::vec(any::<u8>(), 32..=32), prop::collection::vec(any::<u8>(), 64..=64)],
    )
        .prop_map(|(nc, nh, extra_entropy, prev, vrf)| NonceCase { nc, nh, extra_entropy, prev, vrf })
}

fn cat(a: &[u8], b: &[u8]) -> Vec<u8> {
    let mut v = a.to_vec();
    v.extend_from_slice(b);
    v
}

fn check_nonce(c: &NonceCase, obs: &mut Obs) -> Result<(), Fail> {
    // epoch nonce: nc ⭒ nh [⭒ ee], with a ⭒ b = Blake2b-256(a ‖ b)
    let base = b256(&cat(&c.nc, &c.nh));
    let want = match &c.extra_entropy {
        Some(ee) => b256(&cat(&base, ee)),
        None => base,
    };
    let got = generate_epoch_nonce(Hash::from(c.nc), Hash::from(c.nh), c.extra_entropy.as_deref());
    let with = if c.extra_entropy.is_some() { "with-extra-entropy" } else { "without-extra-entropy" };
    if c.extra_entropy.as_ref().is_some_and(|e| e.is_empty()) {
        obs.class("epoch-nonce:with-empty-extra-entropy");
    }
    pv_ensure!(*got == want, format!("epoch-nonce-differs-from-reference:{with}"),
        "generate_epoch_nonce = {got} but the Praos composition gives {}", hex::encode(want));
    // rolling nonce: prev ⭒ H(vrf output)
    let want = b256(&cat(&c.prev, &b256(&c.vrf)));
    let got = generate_rolling_nonce(Hash::from(c.prev), &c.vrf);
    pv_ensure!(*got == want, format!("rolling-nonce-differs-from-reference:vrf{}", c.vrf.len()),
        "generate_rolling_nonce = {got} but H(prev ‖ H(vrf)) = {}", hex::encode(want));
    obs.class(format!("epoch-nonce:{with}"));
    obs.class(format!("rolling-nonce:vrf{}", c.vrf.len()));
    obs.nontrivial_if(c.extra_entropy.is_some());
    Ok(())
}

/// Published values (mainnet; also in the crate's own tests) pin the reference compositions
/// themselves: (nc, nh, ee, epoch nonce) and (prev, vrf output, rolling nonce).
#[derive(Debug, Clone, Serialize, Deserialize)]
pub enum Vector {
    Epoch(String, String, Option<String>, String),
    Rolling(String, String, String),
}

fn vectors() -> Vec<Vector> {
    vec![
        Vector::Epoch(
            "e86e133bd48ff5e79bec43af1ac3e348b539172f33e502d2c96735e8c51bd04d".into(),
            "d7a1ff2a365abed59c9ae346cba842b6d3df06d055dba79a113e0704b44cc3e9".into(),
            None,
            "e536a0081ddd6d19786e9d708a85819a5c3492c0da7349f59c8ad3e17e4acd98".into(),
        ),
        Vector::Epoch(
            "d1340a9c1491f0face38d41fd5c82953d0eb48320d65e952414a0c5ebaf87587".into(),
            "ee91d679b0a6ce3015b894c575c799e971efac35c7a8cbdc2b3f579005e69abd".into(),
            Some("d982e06fd33e7440b43cefad529b7ecafbaa255e38178ad4189a37e4ce9bf1fa".into()),
            "0022cfa563a5328c4fb5c8017121329e964c26ade5d167b1bd9b2ec967772b60".into(),
        ),
        Vector::Rolling(
            "1a3be38bcbb7911969283716ad7aa550250226b76a61fc51cc9a9a35d9276d81".into(),
            "36ec5378d1f5041a59eb8d96e61de96f0950fb41b49ff511f7bc7fd109d4383e1d24be7034e6749c6612700dd5ceb0c66577b88a19ae286b1321d15bce1ab736".into(),
            "2af15f57076a8ff225746624882a77c8d2736fe41d3db70154a22b50af851246".into(),
        ),
        Vector::Rolling(
            "2af15f57076a8ff225746624882a77c8d2736fe41d3db70154a22b50af851246".into(),
            "e0bf34a6b73481302f22987cde4c12807cbc2c3fea3f7fcb77261385a50e8ccdda3226db3efff73e9fb15eecf841bbc85ce37550de0435ebcdcb205e0ed08467".into(),
            "a815ff978369b57df09b0072485c26920dc0ec8e924a852a42f0715981cf0042".into(),
        ),
    ]
}

fn h32(s: &str) -> [u8; 32] {
    hex::decode(s).unwrap().try_into().unwrap()
}

fn check_vector(v: &Vector, obs: &mut Obs) -> Result<(), Fail> {
    match v {
        Vector::Epoch(nc, nh, ee, want) => {
            let eeb = ee.as_ref().map(|e| hex::decode(e).unwrap());
            let base = b256(&cat(&h32(nc), &h32(nh)));
            let model = match &eeb {
                Some(e) => b256(&cat(&base, e)),
                None => base,
            };
            pv_ensure!(model == h32(want), "harness:reference-composition-misses-published-epoch-nonce",
                "the harness' own composition gives {}", hex::encode(model));
            let got = generate_epoch_nonce(Hash::from(h32(nc)), Hash::from(h32(nh)), eeb.as_deref());
            pv_ensure!(*got == h32(want), "epoch-nonce-differs-from-published-value", "got {got}, published {want}");
        }
        Vector::Rolling(prev, vrf, want) => {
            let vrfb = hex::decode(vrf).unwrap();
            let model = b256(&cat(&h32(prev), &b256(&vrfb)));
            pv_ensure!(model == h32(want), "harness:reference-composition-misses-published-rolling-nonce",
                "the harness' own composition gives {}", hex::encode(model));
            let got = generate_rolling_nonce(Hash::from(h32(prev)), &vrfb);
            pv_ensure!(*got == h32(want), "rolling-nonce-differs-from-published-value", "got {got}, published {want}");
        }
    }
    obs.class("published-nonce-vector");
    obs.nontrivial();
    Ok(())
}

pub fn run(s: &Session) {
    s.set_rule(
        "(1) data of 0..4096 bytes (lengths biased to 128-byte block edges +-1) cut at up to 9 points \
         (uniform or at 128k+-1, empty chunks allowed) for 160/224/256 bits; (2) random tag byte x data x \
         generated CBOR value (recursive: ints, bytes, text, arrays, maps, tags, Hash<32>, blobs of 100..700 \
         bytes) plus the family {all 256 tags} x {3 widths} x {5 lengths}; (3) Hash<N>, N in {20,28,32}: \
         random bytes, a wrong-length byte string (0..80, biased to N+-1), an odd-length and a non-hex \
         string; (4) random nc/nh/prev, optional extra entropy, 32- or 64-byte VRF output, plus 4 published \
         mainnet vectors. Non-trivial = (1) >=2 chunks with a split off a block edge, (2) non-empty data and \
         a multi-byte encoding, (3) every case (contains a wrong-length rejection), (4) extra entropy present; \
         distinct = distinct case per sub-check",
    );
    s.assume("pvkit::blake2b is a correct RFC 7693 implementation (RFC and hashlib vectors in its unit tests)");
    s.assume("a ⭒ b = Blake2b-256(a ‖ b); epoch nonce = nc ⭒ nh [⭒ extra entropy]; rolling nonce = prev ⭒ Blake2b-256(vrf output)");
    s.assume("minicbor::to_vec of the harness' own Encode impl defines the encoded bytes of a generated value (cross-checked with cborx)");

    s.forall("chunked-hashing", s.pick(1_000_000, 6_000_000), chunk_case, check_chunks);
    s.foreach("all-tags", vec![0u8, 1, 2], true, check_all_tags);
    s.forall("tagged-and-cbor", s.pick(350_000, 2_000_000), tagged_case, check_tagged);
    s.forall("hash-values", s.pick(500_000, 3_000_000), hash_case, check_hash);
    s.foreach("published-nonce-vectors", vectors(), false, check_vector);
    s.forall("nonces", s.pick(500_000, 3_000_000), nonce_case, check_nonce);

    if !s.replaying() {
        for c in [
            "bits160", "bits224", "bits256", "has-empty-chunk", "multi-block", "split-on-block-edge",
            "split-off-block-edge", "tagged:bits160", "tagged:bits224", "tagged:bits256", "cbor-len:128..",
            "hash-bytes:20", "hash-bytes:28", "hash-bytes:32", "wrong-length:shorter", "wrong-length:longer",
            "wrong-length:off-by-one", "epoch-nonce:with-extra-entropy", "epoch-nonce:without-extra-entropy",
            "rolling-nonce:vrf32", "rolling-nonce:vrf64",
        ] {
            s.health(s.class_count(c) > 0, &format!("generator never produced class {c}"));
        }
        s.health(
            s.class_count("cbor-bytes-not-confirmed-by-cborx") == 0,
            "cborx and minicbor disagree on the bytes of a generated value (harness model)",
        );
    }
}
