//! C11 — Ed25519 signing and verification agree with RFC 8032 (DESIGN §C11).
//!
//! Reference: ed25519-dalek (pallas uses cryptoxide). Standard keys: `SigningKey`; extended keys:
//! `hazmat::ExpandedSecretKey` + `raw_sign::<Sha512>`. Verification reference: dalek's RFC 8032
//! (cofactorless, canonical-S) `verify`.
use ed25519_dalek::hazmat::{raw_sign, ExpandedSecretKey};
use ed25519_dalek::{Signer, SigningKey, Verifier, VerifyingKey};
use pallas_crypto::key::ed25519::{PublicKey, SecretKey, SecretKeyExtended, Signature};
use proptest::prelude::*;
use pvkit::{pv_ensure, Fail, Obs, Session};
use serde::{Deserialize, Serialize};
use sha2::Sha512;
use std::convert::TryFrom;

#[derive(Debug, Clone, Copy, PartialEq, Eq, Serialize, Deserialize)]
pub enum Part {
    Message,
    Key,
    SigR,
    SigS,
    /// S replaced by S + L (the classic malleability transform; RFC 8032 requires S < L)
    SPlusL,
}

/// Group order L, little endian.
const L_LE: [u8; 32] = [
    0xed, 0xd3, 0xf5, 0x5c, 0x1a, 0x63, 0x12, 0x58, 0xd6, 0x9c, 0xf7, 0xa2, 0xde, 0xf9, 0xde, 0x14, 0, 0, 0, 0, 0, 0,
    0, 0, 0, 0, 0, 0, 0, 0, 0, 0x10,
];

fn add_l(s: &mut [u8]) {
    let mut carry = 0u16;
    for i in 0..32 {
        let v = s[i] as u16 + L_LE[i] as u16 + carry;
        s[i] = v as u8;
        carry = v >> 8;
    }
}

impl Part {
    fn name(self) -> &'static str {
        match self {
            Part::Message => "message",
            Part::Key => "key",
            Part::SigR => "R",
            Part::SigS => "S",
            Part::SPlusL => "S-plus-L",
        }
    }
}

#[derive(Debug, Clone, Serialize, Deserialize)]
pub struct Tamper {
    part: Part,
    /// selector of the bit to flip inside the part
    bit: u16,
}

#[derive(Debug, Clone, Serialize, Deserialize)]
pub struct Case {
    /// 32 bytes: a standard secret key; 64 bytes: an extended key (clamped inside the check)
    extended: bool,
    key: Vec<u8>,
    msg: Vec<u8>,
    tampers: Vec<Tamper>,
}

fn tampers() -> impl Strategy<Value = Vec<Tamper>> {
    // three of each part, in a fixed order so that every case covers the four classes
    prop::collection::vec(any::<u16>(), 13..=13).prop_map(|bits| {
        bits.into_iter()
            .enumerate()
            .map(|(i, bit)| Tamper {
                part: if i == 12 { Part::SPlusL } else { [Part::Message, Part::Key, Part::SigR, Part::SigS][i % 4] },
                bit,
            })
            .collect()
    })
}

fn msg() -> impl Strategy<Value = Vec<u8>> {
    prop_oneof![
        1 => Just(vec![]),
        4 => prop::collection::vec(any::<u8>(), 1..64),
        2 => prop::collection::vec(any::<u8>(), 64..=1024),
    ]
}

fn case(extended: bool) -> impl Strategy<Value = Case> {
    let n = if extended { 64 } else { 32 };
    (prop::collection::vec(any::<u8>(), n..=n), msg(), tampers())
        .prop_map(move |(key, msg, tampers)| Case { extended, key, msg, tampers })
}

fn flip(buf: &mut [u8], sel: u16) -> usize {
    let bit = pvkit::pick_idx(sel, buf.len() * 8);
    buf[bit / 8] ^= 1 << (bit % 8);
    bit
}

/// RFC 8032 verdict of the reference on raw bytes.
fn ref_verify(pk: &[u8; 32], msg: &[u8], sig: &[u8; 64]) -> bool {
    let Ok(vk) = VerifyingKey::from_bytes(pk) else { return false };
    let sig = ed25519_dalek::Signature::from_bytes(sig);
    vk.verify(msg, &sig).is_ok()
}

fn lib_verify(pk: &[u8; 32], msg: &[u8], sig: &[u8; 64]) -> bool {
    PublicKey::from(*pk).verify(msg, &Signature::from(*sig))
}

fn check(c: &Case, obs: &mut Obs) -> Result<(), Fail> {
    let kind = if c.extended { "extended" } else { "standard" };
    // --- sign with both
    let (lib_pk, lib_sig, ref_pk, ref_sig): ([u8; 32], [u8; 64], [u8; 32], [u8; 64]) = if c.extended {
        let mut k = [0u8; 64];
        k.copy_from_slice(&c.key);
        k[0] &= 0b1111_1000;
        k[31] &= 0b0011_1111;
        k[31] |= 0b0100_0000;
        let sk = match SecretKeyExtended::from_bytes(k) {
            Ok(sk) => sk,
            Err(e) => pvkit::pv_fail!("clamped-extended-key-rejected", "from_bytes refused a properly clamped key: {e}"),
        };
        let esk = ExpandedSecretKey::from_bytes(&k);
        let vk = VerifyingKey::from(&esk);
        let rsig = raw_sign::<Sha512>(&esk, &c.msg, &vk);
        (sk.public_key().into(), <[u8; 64]>::try_from(sk.sign(&c.msg).as_ref()).unwrap(), vk.to_bytes(), rsig.to_bytes())
    } else {
        let mut k = [0u8; 32];
        k.copy_from_slice(&c.key);
        let sk = SecretKey::from(k);
        let rk = SigningKey::from_bytes(&k);
        (
            sk.public_key().into(),
            <[u8; 64]>::try_from(sk.sign(&c.msg).as_ref()).unwrap(),
            rk.verifying_key().to_bytes(),
            rk.sign(&c.msg).to_bytes(),
        )
    };
    pv_ensure!(lib_pk == ref_pk, format!("public-key-differs-from-reference:{kind}"),
        "public_key() = {} but RFC 8032 reference derives {}", hex::encode(lib_pk), hex::encode(ref_pk));
    pv_ensure!(lib_sig == ref_sig, format!("signature-differs-from-reference:{kind}"),
        "sign() = {} but RFC 8032 reference signs {}", hex::encode(lib_sig), hex::encode(ref_sig));
    pv_ensure!(lib_verify(&lib_pk, &c.msg, &lib_sig), format!("own-signature-rejected:{kind}"),
        "verify() rejects the library's own signature");
    pv_ensure!(ref_verify(&lib_pk, &c.msg, &lib_sig), format!("own-signature-rejected-by-reference:{kind}"),
        "the reference rejects the library's signature");
    obs.class(format!("{kind}:msg-len-{}", match c.msg.len() { 0 => "0", 1..=63 => "1..63", _ => "64.." }));

    // --- tamper
    let mut parts_seen = [false; 5];
    for t in &c.tampers {
        let mut pk = lib_pk;
        let mut sig = lib_sig;
        let mut m = c.msg.clone();
        match t.part {
            Part::Message => {
                if m.is_empty() {
                    // nothing to flip: the tampering is appending one byte
                    m.push(t.bit as u8);
                } else {
                    flip(&mut m, t.bit);
                }
            }
            Part::Key => {
                flip(&mut pk, t.bit);
            }
            Part::SigR => {
                flip(&mut sig[..32], t.bit);
            }
            Part::SigS => {
                flip(&mut sig[32..], t.bit);
            }
            Part::SPlusL => {
                add_l(&mut sig[32..]);
            }
        }
        let want = ref_verify(&pk, &m, &sig);
        let got = lib_verify(&pk, &m, &sig);
        pv_ensure!(
            got == want,
            format!("verify-disagrees-with-reference:tampered-{}:lib-{}", t.part.name(), if got { "accepts" } else { "rejects" }),
            "after tampering with the {} (one bit flipped, or S+L): library verify = {got}, RFC 8032 reference = {want} (pk {}, sig {}, msg {})",
            t.part.name(), hex::encode(pk), hex::encode(sig), hex::encode(&m)
        );
        if want {
            // never expected: a single-bit change that the reference still accepts
            obs.class(format!("reference-accepts-tampered-{}", t.part.name()));
        } else {
            obs.class(format!("{kind}:tampered-{}-rejected", t.part.name()));
            parts_seen[t.part as usize] = true;
        }
    }
    obs.nontrivial_if(!c.msg.is_empty() && parts_seen[..4].iter().all(|x| *x));
    Ok(())
}

#[derive(Debug, Clone, Serialize, Deserialize)]
pub struct ClampCase {
    bytes: Vec<u8>,
}

/// All 2^3 x 2^2 combinations of (low three bits of byte 0, bits 6 and 7 of byte 31).
fn check_clamp(c: &ClampCase, obs: &mut Obs) -> Result<(), Fail> {
    let mut base = [0u8; 64];
    base.copy_from_slice(&c.bytes);
    for combo in 0u8..32 {
        let low3 = combo & 7;
        let bit6 = (combo >> 3) & 1;
        let bit7 = (combo >> 4) & 1;
        let mut k = base;
        k[0] = (k[0] & 0b1111_1000) | low3;
        k[31] = (k[31] & 0b0011_1111) | (bit6 << 6) | (bit7 << 7);
        let want = low3 == 0 && bit6 == 1 && bit7 == 0;
        let got1 = SecretKeyExtended::from_bytes(k).is_ok();
        let got2 = SecretKeyExtended::try_from(k).is_ok();
        pv_ensure!(
            got1 == want,
            format!("clamping-check-wrong:from_bytes:{}", if got1 { "accepts" } else { "rejects" }),
            "from_bytes with low3={low3:03b} bit254={bit6} bit255={bit7}: accepted={got1}, required={want}"
        );
        pv_ensure!(
            got2 == want,
            format!("clamping-check-wrong:try_from:{}", if got2 { "accepts" } else { "rejects" }),
            "TryFrom with low3={low3:03b} bit254={bit6} bit255={bit7}: accepted={got2}, required={want}"
        );
    }
    obs.class("clamp:32-combinations");
    obs.nontrivial();
    Ok(())
}

/// Keys made by the library's own generators (`SecretKey::new`, `SecretKeyExtended::new`) from a seeded ChaCha stream:
/// a generated extended key must have the required bit pattern (its bytes are accepted by `from_bytes`), and both kinds
/// must sign like the reference does for the same key bytes.
fn check_generated(c: &GenCase, obs: &mut Obs) -> Result<(), Fail> {
    use rand_core::SeedableRng;
    let mut seed = [0u8; 32];
    seed.copy_from_slice(&c.seed);
    let rng = rand_chacha::ChaCha20Rng::from_seed(seed);
    if c.extended {
        let k = SecretKeyExtended::new(rng);
        let pk = k.public_key();
        let sig = k.sign(&c.msg);
        let bytes = unsafe { SecretKeyExtended::leak_into_bytes(k) };
        let ok = bytes[0] & 7 == 0 && bytes[31] & 0b1100_0000 == 0b0100_0000;
        pv_ensure!(ok, "generated-extended-key-lacks-required-bits", "SecretKeyExtended::new produced byte0 = {:#010b}, byte31 = {:#010b}", bytes[0], bytes[31]);
        pv_ensure!(SecretKeyExtended::from_bytes(bytes).is_ok(), "generated-extended-key-refused-by-from_bytes", "bytes {}", hex::encode(bytes));
        let esk = ExpandedSecretKey::from_bytes(&bytes);
        let vk = VerifyingKey::from(&esk);
        pv_ensure!(pk.as_ref() == vk.as_bytes(), "generated-key:public-key-differs-from-reference", "extended key {}", hex::encode(bytes));
        let rsig = raw_sign::<Sha512>(&esk, &c.msg, &vk);
        pv_ensure!(sig.as_ref() == rsig.to_bytes().as_slice(), "generated-key:signature-differs-from-reference", "extended key {}", hex::encode(bytes));
        pv_ensure!(pk.verify(&c.msg, &sig), "generated-key:own-signature-rejected", "extended key {}", hex::encode(bytes));
        obs.class("generated:extended");
    } else {
        let k = SecretKey::new(rng);
        let pk = k.public_key();
        let sig = k.sign(&c.msg);
        let bytes = unsafe { SecretKey::leak_into_bytes(k) };
        let sk = SigningKey::from_bytes(&bytes);
        pv_ensure!(pk.as_ref() == sk.verifying_key().as_bytes(), "generated-key:public-key-differs-from-reference", "key {}", hex::encode(bytes));
        pv_ensure!(sig.as_ref() == sk.sign(&c.msg).to_bytes().as_slice(), "generated-key:signature-differs-from-reference", "key {}", hex::encode(bytes));
        pv_ensure!(pk.verify(&c.msg, &sig), "generated-key:own-signature-rejected", "key {}", hex::encode(bytes));
        obs.class("generated:standard");
    }
    obs.nontrivial();
    Ok(())
}

/// Several keys that share a prefix (or differ in one bit) sign one after the other on the same thread, interleaved
/// with each other: every signature and public key must be the reference's for *that* key, whatever was used before.
fn check_sequence(c: &SeqCase, obs: &mut Obs) -> Result<(), Fail> {
    let mut keys: Vec<Vec<u8>> = vec![c.base.clone()];
    for (at, flip) in &c.variants {
        let mut k = c.base.clone();
        let n = k.len();
        // keep a shared prefix of `at` bytes, change the byte after it
        let i = (*at as usize) % n;
        k[i] ^= flip | 1;
        keys.push(k);
    }
    for (step, sel) in c.order.iter().enumerate() {
        let kb = &keys[*sel as usize % keys.len()];
        let msg = [c.msg.as_slice(), &[step as u8]].concat();
        if c.extended {
            let mut b = [0u8; 64];
            b.copy_from_slice(kb);
            b[0] &= 0b1111_1000;
            b[31] = (b[31] & 0b0011_1111) | 0b0100_0000;
            let k = SecretKeyExtended::from_bytes(b).map_err(|_| Fail { sig: "harness:clamped-key-refused".into(), msg: hex::encode(b) })?;
            let esk = ExpandedSecretKey::from_bytes(&b);
            let vk = VerifyingKey::from(&esk);
            let (pk, sig) = (k.public_key(), k.sign(&msg));
            pv_ensure!(pk.as_ref() == vk.as_bytes(), "sequence:public-key-differs-from-reference:extended", "step {step}, key {}", hex::encode(b));
            pv_ensure!(sig.as_ref() == raw_sign::<Sha512>(&esk, &msg, &vk).to_bytes().as_slice(), "sequence:signature-differs-from-reference:extended", "step {step}, key {}", hex::encode(b));
            pv_ensure!(pk.verify(&msg, &sig), "sequence:own-signature-rejected:extended", "step {step}");
        } else {
            let mut b = [0u8; 32];
            b.copy_from_slice(kb);
            let k = SecretKey::from(b);
            let sk = SigningKey::from_bytes(&b);
            let (pk, sig) = (k.public_key(), k.sign(&msg));
            pv_ensure!(pk.as_ref() == sk.verifying_key().as_bytes(), "sequence:public-key-differs-from-reference:standard", "step {step}, key {}", hex::encode(b));
            pv_ensure!(sig.as_ref() == sk.sign(&msg).to_bytes().as_slice(), "sequence:signature-differs-from-reference:standard", "step {step}, key {}", hex::encode(b));
            pv_ensure!(pk.verify(&msg, &sig), "sequence:own-signature-rejected:standard", "step {step}");
        }
    }
    obs.class(if c.extended { "sequence:extended" } else { "sequence:standard" });
    obs.nontrivial_if(c.order.len() >= 2);
    Ok(())
}

#[derive(Debug, Clone, Serialize, Deserialize)]
pub struct SeqCase {
    extended: bool,
    base: Vec<u8>,
    /// (index of the byte that differs from the base key, bits flipped there)
    variants: Vec<(u8, u8)>,
    order: Vec<u8>,
    msg: Vec<u8>,
}

#[derive(Debug, Clone, Serialize, Deserialize)]
pub struct GenCase {
    seed: Vec<u8>,
    extended: bool,
    msg: Vec<u8>,
}

pub fn run(s: &Session) {
    s.set_rule(
        "case = random 32-byte secret key or random 64-byte extended key (clamped by the harness), message \
         of 0 / 1..63 / 64..1024 bytes, 12 single-bit tamperings (3 each of message, public key, R, S; \
         position uniform) and the S+L malleation; public key and signature are compared byte-for-byte with ed25519-dalek, every \
         tampered triple is judged by both verifiers. Non-trivial = non-empty message and a rejected tampering \
         in each of the four parts. Clamping: random 64 bytes x all 32 combinations of the five structural \
         bits. Distinct = distinct case",
    );
    s.assume("ed25519-dalek 2.x (sign, hazmat raw_sign, verify) implements RFC 8032");
    s.assume("'bits set as required' = low three bits of byte 0 clear, bit 6 of byte 31 set, bit 7 of byte 31 clear");

    s.forall("standard-keys", s.pick(20_000, 600_000), || case(false), check);
    s.forall("extended-keys", s.pick(20_000, 600_000), || case(true), check);
    s.forall(
        "extended-key-clamping",
        s.pick(60_000, 1_000_000),
        || prop::collection::vec(any::<u8>(), 64..=64).prop_map(|bytes| ClampCase { bytes }),
        check_clamp,
    );

    s.forall(
        "key-sequences",
        s.pick(20_000, 400_000),
        || {
            any::<bool>().prop_flat_map(|extended| {
                let n = if extended { 64usize } else { 32 };
                (
                    prop::collection::vec(any::<u8>(), n..=n),
                    prop::collection::vec((prop_oneof![Just(8u8), Just(16), Just(31), Just(0), 0u8..64], any::<u8>()), 1..4),
                    prop::collection::vec(0u8..4, 2..8),
                    prop::collection::vec(any::<u8>(), 0..40),
                )
                    .prop_map(move |(base, variants, order, msg)| SeqCase { extended, base, variants, order, msg })
            })
        },
        check_sequence,
    );
    s.forall(
        "generated-keys",
        s.pick(20_000, 400_000),
        || (prop::collection::vec(any::<u8>(), 32..=32), any::<bool>(), prop::collection::vec(any::<u8>(), 0..80)).prop_map(|(seed, extended, msg)| GenCase { seed, extended, msg }),
        check_generated,
    );

    if !s.replaying() {
        for kind in ["standard", "extended"] {
            for p in ["message", "key", "R", "S", "S-plus-L"] {
                let c = format!("{kind}:tampered-{p}-rejected");
                s.health(s.class_count(&c) > 0, &format!("never exercised {c}"));
            }
            for l in ["0", "1..63", "64.."] {
                let c = format!("{kind}:msg-len-{l}");
                s.health(s.class_count(&c) > 0, &format!("never generated {c}"));
            }
        }
    }
}
