//! C12 — KES keys sign verifiably for exactly their current period (DESIGN §C12).
use crate::kes::{kind_name, landmark_periods, with_key, KeyH, RefTree};
use pallas_crypto::kes::errors::Error;
use proptest::prelude::*;
use pvkit::{pv_ensure, pv_fail, Fail, Obs, Session};
use serde::{Deserialize, Serialize};

#[derive(Debug, Clone, Serialize, Deserialize)]
pub struct Case {
    compact: bool,
    depth: u8,
    seed: [u8; 32],
    msg: Vec<u8>,
    /// second message; made different from `msg` inside the check when it collides
    other_msg: Vec<u8>,
    /// true = look closely at every period; false = depth <= 4 all, deeper: landmarks + `extra`
    all_periods: bool,
    /// selectors of extra periods to look at closely (depth >= 5, sampled mode)
    extra: Vec<u16>,
}

fn case(all_periods: bool, depths: std::ops::RangeInclusive<u8>) -> impl Strategy<Value = Case> {
    (
        any::<bool>(),
        depths,
        any::<[u8; 32]>(),
        prop::collection::vec(any::<u8>(), 0..64),
        prop::collection::vec(any::<u8>(), 0..64),
        prop::collection::vec(any::<u16>(), 8..=8),
    )
        .prop_map(move |(compact, depth, seed, msg, other_msg, extra)| Case {
            compact,
            depth,
            seed,
            msg,
            other_msg,
            all_periods,
            extra,
        })
}

fn close_periods(c: &Case) -> Vec<bool> {
    let total = 1usize << c.depth;
    if c.all_periods || c.depth <= 4 {
        return vec![true; total];
    }
    let mut v = vec![false; total];
    for p in landmark_periods(c.depth as u32) {
        v[p as usize] = true;
    }
    for sel in &c.extra {
        v[pvkit::pick_idx(*sel, total)] = true;
    }
    v
}

fn period_class(depth: u32, t: u32) -> &'static str {
    let total = 1u32 << depth;
    let half = total / 2;
    if t == 0 {
        "t=0"
    } else if t == total - 1 {
        "t=last"
    } else if t == half {
        "t=half"
    } else if t + 1 == half {
        "t=half-1"
    } else if t < half {
        "t<half"
    } else {
        "t>half"
    }
}

fn check(c: &Case, obs: &mut Obs) -> Result<(), Fail> {
    let depth = c.depth as u32;
    let total = 1u32 << depth;
    let kind = kind_name(c.compact);
    let close = close_periods(c);
    let mut other = c.other_msg.clone();
    if other == c.msg {
        other.push(0x5a);
    }
    let tree = RefTree::new(depth, &c.seed);
    let mut classes: Vec<String> = vec![format!("{kind}:depth{depth}")];
    let mut closely = 0u32;

    let mut body = |k: &mut dyn KeyH, pk0: pallas_crypto::kes::PublicKey| -> Result<(), Fail> {
        pv_ensure!(
            pk0.as_bytes() == tree.root_vk(),
            format!("keygen-pk-differs-from-reference-tree:{kind}"),
            "depth {depth}: keygen returned vk {} but the documented construction gives {}",
            hex::encode(pk0.as_bytes()), hex::encode(tree.root_vk())
        );
        for t in 0..total {
            // --- state of a key evolved t times
            let p = k.h_period();
            pv_ensure!(p == t, format!("period-counter-wrong:{kind}"),
                "depth {depth}: after {t} updates get_period() = {p}");
            let pk_now = k.h_pk();
            pv_ensure!(pk_now == pk0, format!("public-key-changed:{kind}"),
                "depth {depth}: after {t} updates to_pk() = {} != keygen vk {}",
                hex::encode(pk_now.as_bytes()), hex::encode(pk0.as_bytes()));

            if close[t as usize] {
                closely += 1;
                classes.push(format!("{kind}:{}", period_class(depth, t)));
                let sig = k.h_sign(&c.msg);
                if let Err(e) = sig.h_verify(t, &pk0, &c.msg) {
                    pv_fail!(format!("own-period-signature-rejected:{kind}"),
                        "depth {depth}: signature made at period {t} does not verify at {t}: {e}");
                }
                for t2 in 0..total {
                    if t2 != t && sig.h_verify(t2, &pk0, &c.msg).is_ok() {
                        pv_fail!(format!("signature-verifies-at-other-period:{kind}"),
                            "depth {depth}: signature made at period {t} also verifies at period {t2}");
                    }
                }
                pv_ensure!(sig.h_verify(t, &pk0, &other).is_err(),
                    format!("signature-verifies-other-message:{kind}"),
                    "depth {depth}: signature made at period {t} verifies for a different message");
                match sig.h_roundtrip() {
                    Ok(true) => {}
                    Ok(false) => pv_fail!(format!("signature-bytes-roundtrip-differs:{kind}"),
                        "depth {depth} period {t}: from_bytes(to_bytes(sig)) != sig"),
                    Err(e) => pv_fail!(format!("signature-bytes-roundtrip-error:{kind}"),
                        "depth {depth} period {t}: from_bytes(to_bytes(sig)) failed: {e}"),
                }
                // model alignment (not asserted): the documented construction's signature bytes
                if sig.h_bytes() == tree.signature(c.compact, t, &c.msg) {
                    classes.push("sig-bytes-equal-reference-construction".into());
                } else {
                    classes.push("sig-bytes-differ-from-reference-construction".into());
                }
            }

            // --- the same key stored and loaded again (the way a persisted key comes back) is the same key
            if close[t as usize] || t == total - 1 {
                match k.h_reloaded(&c.msg) {
                    Ok((p2, pk2, sig2)) => {
                        pv_ensure!(p2 == t, format!("reloaded-key-period-wrong:{kind}"),
                            "depth {depth}: the key at period {t} reports period {p2} after as_bytes/from_bytes");
                        pv_ensure!(pk2 == pk0, format!("reloaded-key-public-key-changed:{kind}"),
                            "depth {depth}: the key at period {t} has another public key after as_bytes/from_bytes");
                        pv_ensure!(sig2 == k.h_sign(&c.msg).h_bytes(), format!("reloaded-key-signs-differently:{kind}"),
                            "depth {depth}: the key at period {t} signs differently after as_bytes/from_bytes");
                        classes.push(format!("{kind}:reloaded"));
                    }
                    Err(e) => pv_fail!(format!("reloaded-key-refused:{kind}"),
                        "depth {depth}: as_bytes of the key at period {t} (< 2^depth) is refused by from_bytes: {e}"),
                }
            }

            // --- evolution
            let r = k.h_update();
            if t == total - 1 {
                match r {
                    Ok(()) => pv_fail!(format!("update-succeeded-at-last-period:{kind}"),
                        "depth {depth}: update() returned Ok at period {t} = 2^depth - 1"),
                    Err(Error::KeyCannotBeUpdatedMore) => classes.push("last-update:KeyCannotBeUpdatedMore".into()),
                    Err(e) => classes.push(format!("last-update:other-error:{e}")),
                }
                // the refused update leaves the key usable at its period
                let p = k.h_period();
                pv_ensure!(p == t, format!("period-changed-by-refused-update:{kind}"),
                    "depth {depth}: period is {p} after the refused update at {t}");
                let sig = k.h_sign(&c.msg);
                pv_ensure!(sig.h_verify(t, &pk0, &c.msg).is_ok(),
                    format!("signing-broken-by-refused-update:{kind}"),
                    "depth {depth}: signature at period {t} no longer verifies after the refused update");
                pv_ensure!(k.h_update().is_err(), format!("update-succeeded-at-last-period:{kind}"),
                    "depth {depth}: second update() at the last period returned Ok");
            } else if let Err(e) = r {
                pv_fail!(format!("update-failed-before-last-period:{kind}"),
                    "depth {depth}: update() at period {t} (< {}) failed: {e}", total - 1);
            }
        }
        Ok(())
    };
    with_key(c.compact, depth, &c.seed, &mut body)?;
    for cl in classes {
        obs.class(cl);
    }
    // every case evolves through t >= 1 and looks closely at several such periods
    obs.nontrivial_if(closely >= 2);
    Ok(())
}

pub fn run(s: &Session) {
    s.set_rule(
        "case = (construction sum|compact, depth 1..7, random 32-byte seed, random message 0..63 bytes, \
         second message); the key is evolved through every period 0..2^depth-1; at each period the counter \
         and to_pk are checked; at 'close' periods (all of them for depth<=4 and in thorough; for depth 5..7 \
         in quick: 0,1,half-1,half,half+1,last-1,last + 8 random) a signature is made and verified at every \
         in-range period (Ok exactly at its own), against a second message, and through to_bytes/from_bytes. \
         Non-trivial = at least two close periods, hence at least one t>=1 beyond a half boundary of some \
         level; distinct = distinct case",
    );
    s.assume("ed25519-dalek (leaf keys) and pvkit Blake2b (seed tree, vk hashing) are correct references");
    s.assume("'fails' for the last update is read as: returns Err (the kind of error is recorded, not asserted)");

    let all = !s.quick();
    // small depths: every period of every depth, both constructions (the per-seed space is finite;
    // seeds are sampled)
    s.forall("all-periods-depth1-4", s.pick(4_000, 50_000), move || case(true, 1..=4), check);
    // deep keys
    s.forall("deep-keys-depth5-7", s.pick(1_300, 4_000), move || case(all, 5..=7), check);

    if !s.replaying() {
        for kind in ["sum", "compact"] {
            for d in 1..=7 {
                let c = format!("{kind}:depth{d}");
                s.health(s.class_count(&c) > 0, &format!("never generated {c}"));
            }
            for p in ["t=0", "t=last", "t=half", "t=half-1", "t<half", "t>half"] {
                let c = format!("{kind}:{p}");
                s.health(s.class_count(&c) > 0, &format!("never looked at {c}"));
            }
        }
        s.health(
            s.class_count("sig-bytes-differ-from-reference-construction") == 0,
            "reference construction and implementation disagree on signature bytes (model not aligned)",
        );
        s.health(s.class_count("last-update:KeyCannotBeUpdatedMore") > 0, "last update never reached");
    }
}
