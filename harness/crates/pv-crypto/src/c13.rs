//! C13 — KES evolution erases all signing material of past periods (DESIGN §C13).
//!
//! Model: the reference seed tree (crate::kes::RefTree) gives every node seed. Once the key is at
//! period t, the seed of every node whose subtree contains a leaf < t is forbidden (a leaf seed *is*
//! the Ed25519 secret key of that period; an inner seed re-derives it), as are the halves of the
//! expanded Ed25519 secrets of past leaves. The oracle scans every 32-byte window of `as_bytes()`
//! (all byte offsets) after keygen and after every update.
use crate::kes::{kind_name, with_key, KeyH, RefTree, Secret};
use proptest::prelude::*;
use pvkit::{pv_ensure, pv_fail, Fail, Obs, Session};
use serde::{Deserialize, Serialize};
use std::collections::HashMap;

#[derive(Debug, Clone, Serialize, Deserialize)]
pub struct Case {
    compact: bool,
    depth: u8,
    seed: [u8; 32],
    /// a message signed between updates (signing must not re-materialise anything either)
    msg: Vec<u8>,
}

fn case(depths: std::ops::RangeInclusive<u8>) -> impl Strategy<Value = Case> {
    (any::<bool>(), depths, any::<[u8; 32]>(), prop::collection::vec(any::<u8>(), 0..32))
        .prop_map(|(compact, depth, seed, msg)| Case { compact, depth, seed, msg })
}

/// Scan all windows of `buf` for forbidden values; returns (offset, label) of the first hit.
fn scan(buf: &[u8], forbidden: &HashMap<[u8; 32], Secret>) -> Option<(usize, Secret)> {
    if buf.len() < 32 {
        return None;
    }
    for off in 0..=buf.len() - 32 {
        let w: [u8; 32] = buf[off..off + 32].try_into().unwrap();
        if let Some(l) = forbidden.get(&w) {
            return Some((off, *l));
        }
    }
    None
}

fn check(c: &Case, obs: &mut Obs) -> Result<(), Fail> {
    let depth = c.depth as u32;
    let total = 1u32 << depth;
    let kind = kind_name(c.compact);
    // Erased memory is zeros: a seed that itself looks like erased memory cannot be told apart from it
    // (and a shrinker would walk a genuine failure into that corner). Such seeds are outside the domain.
    if c.seed.iter().filter(|b| **b == 0).count() > 8 {
        obs.discard();
        return Ok(());
    }
    let tree = RefTree::new(depth, &c.seed);
    let mut classes: Vec<String> = vec![format!("{kind}:depth{depth}")];
    let mut scans = 0u64;

    let mut body = |k: &mut dyn KeyH, pk0: pallas_crypto::kes::PublicKey| -> Result<(), Fail> {
        // model alignment: without it the scan below would pass vacuously
        pv_ensure!(
            pk0.as_bytes() == tree.root_vk(),
            format!("keygen-pk-differs-from-reference-tree:{kind}"),
            "depth {depth}: keygen vk {} != vk of the documented seed tree {}",
            hex::encode(pk0.as_bytes()), hex::encode(tree.root_vk())
        );
        for t in 0..total {
            let buf = k.h_buf().to_vec();
            pv_ensure!(
                buf.len() == crate::kes::key_buffer_len(depth),
                format!("key-buffer-length:{kind}"),
                "as_bytes() has {} bytes, documented SIZE+4 = {}", buf.len(), crate::kes::key_buffer_len(depth)
            );
            // the current leaf secret sits at the front of the buffer in the documented layout;
            // recorded (not asserted) as evidence that model and implementation talk about the same tree
            if buf[..32] == tree.leaf_seed(t) {
                classes.push("current-leaf-secret-at-offset-0".into());
            } else {
                classes.push("current-leaf-secret-not-at-offset-0".into());
            }
            let forb: HashMap<[u8; 32], Secret> = tree.forbidden(t).into_iter().collect();
            scans += 1;
            if let Some((off, l)) = scan(&buf, &forb) {
                pv_fail!(format!("past-secret-in-key-buffer:{kind}:{}", l.what),
                    "depth {depth}, key at period {t}: bytes {off}..{} of as_bytes() equal {l} of the seed tree \
                     (a secret that signs or re-derives a period < {t})", off + 32);
            }
            // signing takes &self; make sure it leaves the buffer alone
            if t % 3 == 1 {
                let _ = k.h_sign(&c.msg);
                pv_ensure!(k.h_buf() == &buf[..], format!("sign-modified-key-buffer:{kind}"),
                    "depth {depth}: sign() at period {t} changed as_bytes()");
            }
            if t >= 1 && (t & (t - 1)) == 0 {
                classes.push(format!("{kind}:crossed-half-boundary-at-level-with-half={t}"));
            }
            let r = k.h_update();
            if t == total - 1 {
                // refused update: the state must still be clean
                pv_ensure!(r.is_err(), format!("update-succeeded-at-last-period:{kind}"),
                    "depth {depth}: update() at the last period returned Ok");
                let buf2 = k.h_buf().to_vec();
                if let Some((off, l)) = scan(&buf2, &forb) {
                    pv_fail!(format!("past-secret-in-key-buffer:{kind}:{}", l.what),
                        "depth {depth}, after the refused update at period {t}: offset {off} holds {l}");
                }
            } else if let Err(e) = r {
                pv_fail!(format!("update-failed-before-last-period:{kind}"),
                    "depth {depth}: update() at period {t} failed: {e}");
            }
        }
        Ok(())
    };
    let after = with_key(c.compact, depth, &c.seed, &mut body)?;
    pv_ensure!(
        after.seed == [0u8; 32],
        format!("caller-seed-not-zeroised:{kind}"),
        "depth {depth}: the seed buffer passed to keygen still holds {} afterwards",
        hex::encode(after.seed)
    );
    // after drop nothing of the tree may remain either (recorded, the statement is about live keys)
    let all: HashMap<[u8; 32], Secret> = tree.forbidden(total).into_iter().collect();
    if scan(&after.buffer, &all).is_some() {
        classes.push("secret-left-in-buffer-after-drop".into());
    } else {
        classes.push("buffer-clean-after-drop".into());
    }
    for cl in classes {
        obs.class(cl);
    }
    obs.class(format!("scans:{}", if scans > 16 { ">16" } else { "<=16" }));
    // depth >= 2 histories cross a half boundary above the leaf level (subtree regeneration)
    obs.nontrivial_if(depth >= 2);
    Ok(())
}

pub fn run(s: &Session) {
    s.set_rule(
        "case = (construction sum|compact, depth 1..7, random seed); the complete evolution history \
         0..2^depth-1 is executed (every history is a prefix of it) and as_bytes() is scanned at all byte \
         offsets after keygen, after every update and after the refused last update, against the seeds of \
         all reference-tree nodes covering a past leaf (+ expanded Ed25519 secrets of past leaves). \
         Non-trivial = depth >= 2, i.e. the history crosses a half boundary above the leaf level so that a \
         whole subtree is regenerated from its stored seed; distinct = distinct case",
    );
    s.assume("the reference tree is the construction the module documents; alignment is checked through vk equality");
    s.assume("seeds with more than 8 zero bytes are discarded: a 32-byte window of erased (zero) memory must not be mistaken for a secret");
    s.assume("secrets that only ever live on the stack (temp_buffer, r0) are not observable through as_bytes()");

    s.forall("full-history-depth1-4", s.pick(15_000, 300_000), || case(1..=4), check);
    s.forall("full-history-depth5-7", s.pick(4_500, 90_000), || case(5..=7), check);

    if !s.replaying() {
        for kind in ["sum", "compact"] {
            for d in 1..=7 {
                let c = format!("{kind}:depth{d}");
                s.health(s.class_count(&c) > 0, &format!("never generated {c}"));
            }
            for h in [1, 2, 4, 8, 16, 32, 64] {
                let c = format!("{kind}:crossed-half-boundary-at-level-with-half={h}");
                s.health(s.class_count(&c) > 0, &format!("never crossed {c}"));
            }
        }
        s.health(
            s.class_count("current-leaf-secret-not-at-offset-0") == 0,
            "reference tree and key layout disagree on where the current leaf secret is (model not aligned)",
        );
        s.health(s.class_count("current-leaf-secret-at-offset-0") > 0, "alignment never observed");
    }
}
