//! C14 — constant-time comparisons agree with ordinary comparisons (DESIGN §C14).
//!
//! Oracle: slice equality and `<[u8]>::cmp` (lexicographic) from core. Domain: equal-length,
//! non-empty buffers (length 0 is a documented panic and is never generated).
use pallas_crypto::memsec::{memcmp, memeq};
use proptest::prelude::*;
use pvkit::{pv_ensure, Fail, Obs, Session};
use serde::{Deserialize, Serialize};
use std::cmp::Ordering;

fn ord_name(o: Ordering) -> &'static str {
    match o {
        Ordering::Less => "less",
        Ordering::Equal => "equal",
        Ordering::Greater => "greater",
    }
}

/// Compare one pair with both functions against the core oracles.
fn check_pair(a: &[u8], b: &[u8], fam: &str) -> Result<(), Fail> {
    debug_assert!(a.len() == b.len() && !a.is_empty());
    let n = a.len();
    // SAFETY: both pointers are valid for `n` bytes.
    let eq = unsafe { memeq(a.as_ptr(), b.as_ptr(), n) };
    let cmp = unsafe { memcmp(a.as_ptr(), b.as_ptr(), n) };
    pv_ensure!(
        eq == (a == b),
        format!("memeq-wrong:{fam}"),
        "memeq({}, {}, {n}) = {eq} but slice equality is {}", hex::encode(a), hex::encode(b), a == b
    );
    let want = a.cmp(b);
    pv_ensure!(
        cmp == want,
        format!("memcmp-wrong:{fam}:want-{}", ord_name(want)),
        "memcmp({}, {}, {n}) = {:?} but lexicographic order is {:?}", hex::encode(a), hex::encode(b), cmp, want
    );
    // the same pair at every address alignment of the first operand (and two of the second): the functions take raw
    // pointers, and callers pass sub-slices that start anywhere
    if n >= 3 && n <= 300 {
        #[repr(align(16))]
        struct Buf([u8; 320]);
        let mut ba = Buf([0xa5; 320]);
        let mut bb = Buf([0x5a; 320]);
        for oa in 0..8usize {
            for ob in [0usize, 3] {
                ba.0[oa..oa + n].copy_from_slice(a);
                bb.0[ob..ob + n].copy_from_slice(b);
                // SAFETY: both ranges lie inside the buffers.
                let eq = unsafe { memeq(ba.0.as_ptr().add(oa), bb.0.as_ptr().add(ob), n) };
                let cmp = unsafe { memcmp(ba.0.as_ptr().add(oa), bb.0.as_ptr().add(ob), n) };
                pv_ensure!(eq == (a == b), format!("memeq-wrong:{fam}:operand-at-offset"),
                    "memeq({}, {}, {n}) with the operands at address offsets {oa} / {ob} (mod 16) = {eq} but slice equality is {}", hex::encode(a), hex::encode(b), a == b);
                pv_ensure!(cmp == want, format!("memcmp-wrong:{fam}:operand-at-offset:want-{}", ord_name(want)),
                    "memcmp({}, {}, {n}) with the operands at address offsets {oa} / {ob} (mod 16) = {:?} but lexicographic order is {:?}", hex::encode(a), hex::encode(b), cmp, want);
            }
        }
    }
    Ok(())
}

/// Representative byte pair with `a - b == d`, d in -255..=255.
fn rep(d: i32) -> (u8, u8) {
    if d >= 0 {
        (d as u8, 0)
    } else {
        (0, (-d) as u8)
    }
}

/// Representative byte pair with `a - b == d` whose larger element is 255.
fn rep_high(d: i32) -> (u8, u8) {
    if d >= 0 {
        (255, (255 - d) as u8)
    } else {
        ((255 + d) as u8, 255)
    }
}

#[derive(Debug, Clone, Serialize, Deserialize)]
pub enum Tail {
    /// bytes after the deciding position are equal in both strings
    Same,
    /// bytes after the deciding position are independent random bytes
    Random(Vec<u8>),
    /// every later byte differs in the direction opposite to the deciding byte
    Opposite,
}

#[derive(Debug, Clone, Serialize, Deserialize)]
pub struct LongCase {
    a: Vec<u8>,
    /// selector of the first differing position; `None` = the strings are equal
    decide: Option<u16>,
    /// replacement byte at the deciding position (made different from a[pos] inside the check)
    byte: u8,
    tail: Tail,
}

fn long_case(max_len: usize) -> impl Strategy<Value = LongCase> {
    (
        prop::collection::vec(any::<u8>(), 3..=max_len),
        prop::option::weighted(0.9, any::<u16>()),
        any::<u8>(),
        prop_oneof![
            2 => Just(Tail::Same),
            2 => prop::collection::vec(any::<u8>(), max_len..=max_len).prop_map(Tail::Random),
            2 => Just(Tail::Opposite),
        ],
    )
        .prop_map(|(a, decide, byte, tail)| LongCase { a, decide, byte, tail })
}

fn build_b(c: &LongCase) -> (Vec<u8>, Option<usize>) {
    let a = &c.a;
    let mut b = a.clone();
    let Some(sel) = c.decide else { return (b, None) };
    let pos = pvkit::pick_idx(sel, a.len());
    let mut nb = c.byte;
    if nb == a[pos] {
        nb = nb.wrapping_add(1);
    }
    b[pos] = nb;
    let b_greater = nb > a[pos];
    for i in pos + 1..a.len() {
        match &c.tail {
            Tail::Same => {}
            Tail::Random(r) => b[i] = r[i % r.len()],
            Tail::Opposite => {
                // push the later bytes the other way: if b wins at `pos`, make b smaller afterwards
                b[i] = if b_greater {
                    if a[i] == 0 { 0 } else { a[i] - 1 }
                } else if a[i] == 255 {
                    255
                } else {
                    a[i] + 1
                };
            }
        }
    }
    (b, Some(pos))
}

pub fn run(s: &Session) {
    s.set_rule(
        "length 1: all 2^16 byte pairs; length 2: one representative pair per (d0,d1) in [-255,255]^2 \
         (a_i - b_i = d_i; the memcmp accumulator depends on the differences only), which drives the \
         branchless step through every (accumulator, diff) state; thorough adds all 2^32 length-2 pairs; \
         lengths 3..64 (thorough 3..256): random a, b = a up to a uniformly chosen deciding position, a \
         different byte there, and a tail that is equal / random / opposite in direction. Non-trivial = \
         the two strings differ and the deciding byte is not the only differing byte, or they are equal \
         (the accumulator must survive later bytes); distinct = distinct case",
    );
    s.assume("length 0 (documented panic) and unequal lengths are outside the domain");

    // --- length 1: all pairs -------------------------------------------------------------------
    let firsts: Vec<u8> = (0..=255u8).collect();
    s.foreach("len1-all-pairs", firsts.clone(), true, |a: &u8, obs: &mut Obs| {
        for b in 0..=255u8 {
            check_pair(&[*a], &[b], "len1")?;
        }
        obs.class("len1-row");
        obs.nontrivial();
        Ok(())
    });

    // --- length 2: all pairs of byte differences -------------------------------------------------
    let diffs: Vec<i32> = (-255..=255).collect();
    s.foreach("len2-all-difference-pairs", diffs, true, |d0: &i32, obs: &mut Obs| {
        let (a0, b0) = rep(*d0);
        for d1 in -255..=255i32 {
            let (a1, b1) = rep(d1);
            check_pair(&[a0, a1], &[b0, b1], "len2")?;
            // second representative of the same differences, anchored at 255 instead of 0
            let (a0h, b0h) = rep_high(*d0);
            let (a1h, b1h) = rep_high(d1);
            check_pair(&[a0h, a1h], &[b0h, b1h], "len2")?;
        }
        obs.class(match d0.cmp(&0) {
            Ordering::Less => "len2-d0-negative",
            Ordering::Equal => "len2-d0-zero",
            Ordering::Greater => "len2-d0-positive",
        });
        obs.nontrivial();
        Ok(())
    });

    // --- length 2: every pair (thorough only; 2^32 comparisons) ----------------------------------
    if !s.quick() {
        let rows: Vec<u16> = (0..=u16::MAX).collect();
        s.foreach("len2-all-pairs", rows, true, |a: &u16, obs: &mut Obs| {
            let av = a.to_be_bytes();
            for b in 0..=u16::MAX {
                let bv = b.to_be_bytes();
                check_pair(&av, &bv, "len2")?;
            }
            obs.class("len2-row");
            obs.nontrivial();
            Ok(())
        });
    }

    // --- longer strings ----------------------------------------------------------------------------
    let max_len = s.pick(64usize, 256usize);
    s.forall(
        "random-long",
        s.pick(6_000_000, 12_000_000),
        || long_case(max_len),
        |c: &LongCase, obs: &mut Obs| {
            let (b, pos) = build_b(c);
            let a = &c.a;
            check_pair(a, &b, "long")?;
            // symmetric call
            check_pair(&b, a, "long")?;
            match pos {
                None => {
                    obs.class("long-equal");
                    obs.nontrivial();
                }
                Some(p) => {
                    let later_diff = (p + 1..a.len()).any(|i| a[i] != b[i]);
                    let frac = if p == 0 {
                        "first"
                    } else if p + 1 == a.len() {
                        "last"
                    } else {
                        "middle"
                    };
                    obs.class(format!("long-decide-{frac}"));
                    obs.class(format!("long-want-{}", ord_name(a.as_slice().cmp(b.as_slice()))));
                    if later_diff {
                        obs.class("long-later-bytes-differ");
                        let opposite = (p + 1..a.len())
                            .any(|i| a[i] != b[i] && ((a[i] < b[i]) != (a[p] < b[p])));
                        if opposite {
                            obs.class("long-later-byte-opposite-direction");
                        }
                        obs.nontrivial();
                    }
                }
            }
            Ok(())
        },
    );

    if !s.replaying() {
        for c in [
            "long-equal",
            "long-decide-first",
            "long-decide-middle",
            "long-decide-last",
            "long-want-less",
            "long-want-greater",
            "long-later-byte-opposite-direction",
        ] {
            s.health(s.class_count(c) > 0, &format!("generator never produced class {c}"));
        }
    }
}
