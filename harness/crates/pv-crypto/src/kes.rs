//! Shared by C12/C13: a uniform handle over the 14 concrete KES types, and an independent reference
//! seed tree written from the construction in the module documentation (MMM sum composition):
//!   seed_left = Blake2b-256(0x01 ‖ seed), seed_right = Blake2b-256(0x02 ‖ seed),
//!   leaf key  = Ed25519 key whose 32-byte secret is the leaf seed,
//!   vk(node)  = Blake2b-256(vk(left) ‖ vk(right)).
//! The reference uses pvkit's RFC 7693 Blake2b and ed25519-dalek directly; it shares no code with
//! `pallas_crypto::kes`.
use ed25519_dalek::{Signer, SigningKey};
use pallas_crypto::kes::common::PublicKey;
use pallas_crypto::kes::errors::Error;
use pallas_crypto::kes::summed_kes::*;
use pallas_crypto::kes::traits::{KesCompactSig, KesSig, KesSk};
use pvkit::blake2b::b256;
use pvkit::Fail;
use sha2::{Digest, Sha512};

pub trait SigH {
    fn h_verify(&self, period: u32, pk: &PublicKey, m: &[u8]) -> Result<(), Error>;
    fn h_bytes(&self) -> Vec<u8>;
    /// `from_bytes(to_bytes(self))`: Ok(true) when the result equals `self`.
    fn h_roundtrip(&self) -> Result<bool, Error>;
}

pub trait KeyH {
    fn h_period(&self) -> u32;
    fn h_update(&mut self) -> Result<(), Error>;
    fn h_sign(&self, m: &[u8]) -> Box<dyn SigH>;
    fn h_buf(&self) -> &[u8];
    fn h_pk(&self) -> PublicKey;
    /// The key stored (`as_bytes`) and loaded again (`from_bytes`, on a copy): period, public key, signature of `m`.
    fn h_reloaded(&self, m: &[u8]) -> Result<(u32, PublicKey, Vec<u8>), Error>;
}

macro_rules! kes_impl {
    ($key:ident, $sig:ident, $vtrait:ident) => {
        impl SigH for $sig {
            fn h_verify(&self, period: u32, pk: &PublicKey, m: &[u8]) -> Result<(), Error> {
                <$sig as $vtrait>::verify(self, period, pk, m)
            }
            fn h_bytes(&self) -> Vec<u8> {
                self.to_bytes().to_vec()
            }
            fn h_roundtrip(&self) -> Result<bool, Error> {
                let b = self.to_bytes();
                let back = $sig::from_bytes(&b)?;
                Ok(&back == self && back.to_bytes() == b)
            }
        }
        impl<'a> KeyH for $key<'a> {
            fn h_period(&self) -> u32 {
                <$key<'a> as KesSk<'a>>::get_period(self)
            }
            fn h_update(&mut self) -> Result<(), Error> {
                <$key<'a> as KesSk<'a>>::update(self)
            }
            fn h_sign(&self, m: &[u8]) -> Box<dyn SigH> {
                Box::new(<$key<'a> as KesSk<'a>>::sign(self, m))
            }
            fn h_buf(&self) -> &[u8] {
                <$key<'a> as KesSk<'a>>::as_bytes(self)
            }
            fn h_pk(&self) -> PublicKey {
                $key::to_pk(self)
            }
            fn h_reloaded(&self, m: &[u8]) -> Result<(u32, PublicKey, Vec<u8>), Error> {
                let mut copy = <$key<'a> as KesSk<'a>>::as_bytes(self).to_vec();
                let k2 = <$key<'_> as KesSk<'_>>::from_bytes(&mut copy[..])?;
                let r = (<$key<'_> as KesSk<'_>>::get_period(&k2), $key::to_pk(&k2), <$key<'_> as KesSk<'_>>::sign(&k2, m).to_bytes().to_vec());
                drop(k2);
                Ok(r)
            }
        }
    };
}

kes_impl!(Sum1Kes, Sum1KesSig, KesSig);
kes_impl!(Sum2Kes, Sum2KesSig, KesSig);
kes_impl!(Sum3Kes, Sum3KesSig, KesSig);
kes_impl!(Sum4Kes, Sum4KesSig, KesSig);
kes_impl!(Sum5Kes, Sum5KesSig, KesSig);
kes_impl!(Sum6Kes, Sum6KesSig, KesSig);
kes_impl!(Sum7Kes, Sum7KesSig, KesSig);
kes_impl!(Sum1CompactKes, Sum1CompactKesSig, KesCompactSig);
kes_impl!(Sum2CompactKes, Sum2CompactKesSig, KesCompactSig);
kes_impl!(Sum3CompactKes, Sum3CompactKesSig, KesCompactSig);
kes_impl!(Sum4CompactKes, Sum4CompactKesSig, KesCompactSig);
kes_impl!(Sum5CompactKes, Sum5CompactKesSig, KesCompactSig);
kes_impl!(Sum6CompactKes, Sum6CompactKesSig, KesCompactSig);
kes_impl!(Sum7CompactKes, Sum7CompactKesSig, KesCompactSig);

/// Documented size of the key buffer handed to `keygen` (`SIZE + 4`).
pub fn key_buffer_len(depth: u32) -> usize {
    32 + depth as usize * 32 + depth as usize * 64 + 4
}

/// What is left in the caller's buffers after the key has been dropped.
pub struct After {
    pub seed: [u8; 32],
    pub buffer: Vec<u8>,
}

/// Generate a key of the given construction/depth from `seed`, hand it to `f`, drop it, and return
/// the caller-side buffers.
pub fn with_key(
    compact: bool,
    depth: u32,
    seed: &[u8; 32],
    f: &mut dyn FnMut(&mut dyn KeyH, PublicKey) -> Result<(), Fail>,
) -> Result<After, Fail> {
    // keygen takes any caller buffer (it writes the key material and the period itself): two thirds of the keys are
    // generated into a buffer that already holds other bytes (a pattern, or what looks like an old key with a high period)
    let mut buf = vec![0u8; key_buffer_len(depth)];
    match seed[31] % 3 {
        1 => buf.fill(0xa5),
        2 => {
            let mut x = u64::from_le_bytes(seed[..8].try_into().unwrap()) | 1;
            for b in buf.iter_mut() {
                x ^= x << 13;
                x ^= x >> 7;
                x ^= x << 17;
                *b = x as u8;
            }
        }
        _ => {}
    }
    let mut sd = *seed;
    macro_rules! go {
        ($key:ident) => {{
            let (mut k, pk) = <$key<'_> as KesSk<'_>>::keygen(&mut buf[..], &mut sd[..]);
            let r = f(&mut k, pk);
            drop(k);
            r
        }};
    }
    let r = match (compact, depth) {
        (false, 1) => go!(Sum1Kes),
        (false, 2) => go!(Sum2Kes),
        (false, 3) => go!(Sum3Kes),
        (false, 4) => go!(Sum4Kes),
        (false, 5) => go!(Sum5Kes),
        (false, 6) => go!(Sum6Kes),
        (false, 7) => go!(Sum7Kes),
        (true, 1) => go!(Sum1CompactKes),
        (true, 2) => go!(Sum2CompactKes),
        (true, 3) => go!(Sum3CompactKes),
        (true, 4) => go!(Sum4CompactKes),
        (true, 5) => go!(Sum5CompactKes),
        (true, 6) => go!(Sum6CompactKes),
        (true, 7) => go!(Sum7CompactKes),
        _ => Err(Fail { sig: "harness:bad-depth".into(), msg: format!("depth {depth} not in 1..=7") }),
    };
    r?;
    Ok(After { seed: sd, buffer: buf })
}

pub fn kind_name(compact: bool) -> &'static str {
    if compact {
        "compact"
    } else {
        "sum"
    }
}

// ------------------------------------------------------------------------------------------------
// Reference seed tree

pub struct RefTree {
    pub depth: u32,
    /// seeds[l][i]: seed of node i at level l (level 0 = root/master seed, level depth = leaves)
    pub seeds: Vec<Vec<[u8; 32]>>,
    /// vks[l][i]: verification key of node i at level l
    pub vks: Vec<Vec<[u8; 32]>>,
}

fn h_tagged(tag: u8, seed: &[u8; 32]) -> [u8; 32] {
    let mut v = Vec::with_capacity(33);
    v.push(tag);
    v.extend_from_slice(seed);
    b256(&v)
}

fn h_pair(l: &[u8; 32], r: &[u8; 32]) -> [u8; 32] {
    let mut v = Vec::with_capacity(64);
    v.extend_from_slice(l);
    v.extend_from_slice(r);
    b256(&v)
}

impl RefTree {
    pub fn new(depth: u32, master: &[u8; 32]) -> RefTree {
        let d = depth as usize;
        let mut seeds: Vec<Vec<[u8; 32]>> = vec![vec![*master]];
        for l in 0..d {
            let mut next = Vec::with_capacity(seeds[l].len() * 2);
            for s in &seeds[l] {
                next.push(h_tagged(1, s));
                next.push(h_tagged(2, s));
            }
            seeds.push(next);
        }
        let mut vks: Vec<Vec<[u8; 32]>> = vec![vec![]; d + 1];
        vks[d] = seeds[d]
            .iter()
            .map(|s| SigningKey::from_bytes(s).verifying_key().to_bytes())
            .collect();
        for l in (0..d).rev() {
            let below = vks[l + 1].clone();
            vks[l] = below.chunks(2).map(|p| h_pair(&p[0], &p[1])).collect();
        }
        RefTree { depth, seeds, vks }
    }

    pub fn root_vk(&self) -> [u8; 32] {
        self.vks[0][0]
    }

    pub fn leaf_seed(&self, t: u32) -> [u8; 32] {
        self.seeds[self.depth as usize][t as usize]
    }

    /// Signature bytes the documented construction yields at period `t` (Ed25519 is deterministic).
    pub fn signature(&self, compact: bool, t: u32, m: &[u8]) -> Vec<u8> {
        let d = self.depth as usize;
        let sk = SigningKey::from_bytes(&self.leaf_seed(t));
        let mut out = sk.sign(m).to_bytes().to_vec();
        if compact {
            out.extend_from_slice(&self.vks[d][t as usize]);
        }
        // from the level just above the leaves up to the root
        for l in (0..d).rev() {
            let child = (t as usize) >> (d - (l + 1)); // index of the path node at level l+1
            if compact {
                out.extend_from_slice(&self.vks[l + 1][child ^ 1]);
            } else {
                let left = child & !1;
                out.extend_from_slice(&self.vks[l + 1][left]);
                out.extend_from_slice(&self.vks[l + 1][left + 1]);
            }
        }
        out
    }

    /// Every 32-byte secret that must be gone once the key is at period `t`: the seed of every node
    /// whose subtree contains a leaf `< t` (leaf seeds are the Ed25519 secret keys themselves), and
    /// for each past leaf also the two halves of its expanded Ed25519 secret (SHA-512 of the seed:
    /// raw and clamped scalar, nonce prefix).
    pub fn forbidden(&self, t: u32) -> Vec<([u8; 32], Secret)> {
        let d = self.depth as usize;
        let mut out = vec![];
        for l in 0..=d {
            let span = 1usize << (d - l); // leaves below one node of level l
            for (i, s) in self.seeds[l].iter().enumerate() {
                if i * span < t as usize {
                    let what = if l == d { "leaf-seed" } else if l == 0 { "master-seed" } else { "inner-seed" };
                    out.push((*s, Secret { what, level: l as u32, first_leaf: (i * span) as u32 }));
                    if l == d {
                        let h = Sha512::digest(s);
                        let mut lo = [0u8; 32];
                        lo.copy_from_slice(&h[..32]);
                        let mut hi = [0u8; 32];
                        hi.copy_from_slice(&h[32..]);
                        let sec = |what| Secret { what, level: l as u32, first_leaf: i as u32 };
                        out.push((lo, sec("leaf-expanded-scalar-raw")));
                        let mut cl = lo;
                        cl[0] &= 248;
                        cl[31] &= 63;
                        cl[31] |= 64;
                        out.push((cl, sec("leaf-expanded-scalar")));
                        out.push((hi, sec("leaf-expanded-prefix")));
                    }
                }
            }
        }
        out
    }
}

/// Which secret of the reference tree a 32-byte value is.
#[derive(Clone, Copy, Debug)]
pub struct Secret {
    pub what: &'static str,
    pub level: u32,
    pub first_leaf: u32,
}

impl std::fmt::Display for Secret {
    fn fmt(&self, f: &mut std::fmt::Formatter<'_>) -> std::fmt::Result {
        write!(f, "the {} of the level-{} node whose first leaf is period {}", self.what, self.level, self.first_leaf)
    }
}

/// Periods of a depth-`d` key that the sampled tiers look at closely.
pub fn landmark_periods(depth: u32) -> Vec<u32> {
    let total = 1u32 << depth;
    let half = total / 2;
    let mut v = vec![0, 1, half.saturating_sub(1), half, half + 1, total - 2, total - 1];
    v.retain(|p| *p < total);
    v.sort();
    v.dedup();
    v
}
