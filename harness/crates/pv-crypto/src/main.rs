mod c10;
mod c11;
mod c12;
mod c13;
mod c14;
mod kes;

use pvkit::session::CheckDef;

fn main() {
    pvkit::main(&[
        CheckDef { id: "C10", level: "exploration", run: c10::run },
        CheckDef { id: "C11", level: "exploration", run: c11::run },
        CheckDef { id: "C12", level: "exploration", run: c12::run },
        CheckDef { id: "C13", level: "exploration", run: c13::run },
        CheckDef { id: "C14", level: "exploration", run: c14::run },
    ]);
}
