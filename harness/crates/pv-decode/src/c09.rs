//! C09 — ledger and network decoders never panic on untrusted bytes (DESIGN §C09).
use std::collections::BTreeMap;
use std::sync::Mutex;

use proptest::prelude::*;
use pvkit::cborx::{self, hexser};
use pvkit::mutate::{self, MutOp};
use pvkit::{fnv64, pick_idx, Fail, Obs, Session};
use serde::{Deserialize, Serialize};

use crate::seeds::{self, pool};
use crate::semdmg;
use crate::targets::{self, Family, Mode, Target};

#[derive(Debug, Clone, Serialize, Deserialize)]
pub enum Input {
    /// the bytes themselves
    Raw(#[serde(with = "hexser")] Vec<u8>),
    /// a seed of the pool, unchanged
    Seed { seed: String },
    /// byte-level damage (`pvkit::mutate::damage`) with another seed as splice donor
    Damaged { seed: String, donor: String, ops: Vec<MutOp> },
    /// cborx-level semantic damage (`semdmg`)
    Semantic { seed: String, ops: Vec<MutOp> },
    /// semantic damage of the payload wrapped inside a Byron address, checksum recomputed
    ByronInner { seed: String, ops: Vec<MutOp> },
}

#[derive(Debug, Clone, Serialize, Deserialize)]
pub struct Case {
    pub target: Target,
    pub input: Input,
}

pub struct Built {
    pub bytes: Vec<u8>,
    pub kind: &'static str,
    pub applied: Vec<&'static str>,
}

/// Seeds above this size are only used unchanged (genesis.block is 1.3 MB).
const MUTABLE_MAX: usize = 200_000;

pub fn build(input: &Input) -> Option<Built> {
    match input {
        Input::Raw(b) => Some(Built { bytes: b.clone(), kind: "raw", applied: vec![] }),
        Input::Seed { seed } => {
            let s = pool().get(seed)?;
            Some(Built { bytes: s.bytes.clone(), kind: "seed", applied: vec![] })
        }
        Input::Damaged { seed, donor, ops } => {
            let s = pool().get(seed)?;
            let d = pool().get(donor)?;
            let (bytes, applied) = mutate::damage(&s.bytes, ops, &d.bytes);
            Some(Built { bytes, kind: "damaged", applied })
        }
        Input::Semantic { seed, ops } => {
            let s = pool().get(seed)?;
            let Some(tree) = s.tree() else {
                // not CBOR (address bytes / text): fall back to byte damage with itself as donor
                let (bytes, applied) = mutate::damage(&s.bytes, ops, &s.bytes);
                return Some(Built { bytes, kind: "damaged", applied });
            };
            let (bytes, applied) = semdmg::apply(&s.bytes, tree, ops);
            Some(Built { bytes, kind: "semantic", applied })
        }
        Input::ByronInner { seed, ops } => {
            let s = pool().get(seed)?;
            let tree = s.tree()?;
            let arr = tree.as_array()?;
            let inner = arr.first()?.untagged().as_bytes()?;
            let (itree, _) = cborx::read_prefix(&inner).ok()?;
            let (payload, applied) = semdmg::apply(&inner, &itree, ops);
            let bytes = cborx::write(&cborx::array(vec![
                cborx::tag(24, cborx::bytes(&payload)),
                cborx::uint(pvkit::crc32::crc32(&payload) as u64),
            ]));
            Some(Built { bytes, kind: "byron-inner", applied })
        }
    }
}

/// Non-triviality for CBOR inputs: after the head of the outer container (tags skipped) the input
/// still holds two complete well-formed nested items (or all of them when the container declares
/// fewer), judged by the independent strict reader.
pub fn cbor_prefix_two_items(b: &[u8]) -> bool {
    let mut p = 0usize;
    // skip up to 8 tags
    for _ in 0..8 {
        let Some(ib) = b.get(p) else { return false };
        if ib >> 5 != 6 {
            break;
        }
        let ai = ib & 31;
        p += 1 + match ai {
            0..=23 => 0,
            24 => 1,
            25 => 2,
            26 => 4,
            27 => 8,
            _ => return false,
        };
    }
    let Some(ib) = b.get(p).copied() else { return false };
    let major = ib >> 5;
    if major != 4 && major != 5 {
        return false;
    }
    let ai = ib & 31;
    let (declared, hl): (Option<u64>, usize) = match ai {
        0..=23 => (Some(ai as u64), 1),
        24 => (b.get(p + 1).map(|x| *x as u64), 2),
        25 => (b.get(p + 1..p + 3).map(|s| u16::from_be_bytes([s[0], s[1]]) as u64), 3),
        26 => (b.get(p + 1..p + 5).map(|s| u32::from_be_bytes([s[0], s[1], s[2], s[3]]) as u64), 5),
        27 => (b.get(p + 1..p + 9).map(|s| u64::from_be_bytes(s.try_into().unwrap())), 9),
        31 => (Some(u64::MAX), 1),
        _ => return false,
    };
    let Some(declared) = declared else { return false };
    let per = if major == 5 { 2 } else { 1 };
    let mut want = declared.saturating_mul(per).min(2);
    p += hl;
    while want > 0 {
        if ai == 31 && b.get(p) == Some(&0xff) {
            break;
        }
        match cborx::read_prefix(&b[p.min(b.len())..]) {
            Ok((_, used)) => p += used,
            Err(_) => return false,
        }
        want -= 1;
    }
    true
}

pub fn deep_enough(t: Target, b: &[u8], o: &targets::Outcome) -> Option<&'static str> {
    if o.ok {
        return Some("ok");
    }
    if t.is_cbor() {
        return cbor_prefix_two_items(b).then_some("cbor-prefix");
    }
    match t {
        Target::AddrBytes => (b.len() >= 29 && matches!(b[0] >> 4, 0..=8 | 14 | 15)).then_some("addr-header+hash"),
        _ => o.reached_payload.then_some("text-decoded"),
    }
}

// ---------------------------------------------------------------------------------------------
// development aid: collect every distinct panic signature instead of stopping at the first
// ---------------------------------------------------------------------------------------------
static COLLECT: Mutex<BTreeMap<String, (u64, String, String)>> = Mutex::new(BTreeMap::new());

fn collecting() -> bool {
    std::env::var("PV_DECODE_COLLECT").is_ok()
}

fn check(c: &Case, obs: &mut Obs) -> Result<(), Fail> {
    let Some(built) = build(&c.input) else {
        obs.discard();
        return Ok(());
    };
    let t = c.target;
    obs.class(format!("group:{}", t.group()));
    obs.class(format!("input:{}", built.kind));
    for a in &built.applied {
        obs.class(format!("{}:{a}", built.kind));
    }
    let o = if collecting() {
        match pvkit::panics::guarded(|| targets::run(t, &built.bytes, Mode::DecodeOnly)) {
            Ok(o) => o,
            Err(p) => {
                let mut m = COLLECT.lock().unwrap();
                let e = m.entry(p.sig.clone()).or_insert((0, t.name(), hex::encode(&built.bytes)));
                e.0 += 1;
                if built.bytes.len() * 2 < e.2.len() {
                    e.1 = t.name();
                    e.2 = hex::encode(&built.bytes);
                }
                return Ok(());
            }
        }
    } else {
        // a panic here unwinds into the runner, which reports `panic@<file>#<fn>: <msg>`
        targets::run(t, &built.bytes, Mode::DecodeOnly)
    };
    obs.class(format!("entry:{}:{}", t.name(), if o.ok { "ok" } else { "err" }));
    obs.class(if o.ok { "verdict:ok" } else { "verdict:err" });
    match deep_enough(t, &built.bytes, &o) {
        Some(why) => {
            obs.class(format!("nontrivial-by:{why}"));
            obs.class(format!("entry-nontrivial:{}", t.name()));
            let mut key = t.name().into_bytes();
            key.extend_from_slice(&built.bytes);
            obs.nontrivial_key(fnv64(&key));
        }
        None => obs.class("shallow"),
    }
    Ok(())
}

/// Accessor chains over decoded values: outside the statement, so nothing here fails a case.
fn check_accessors(c: &Case, obs: &mut Obs) -> Result<(), Fail> {
    let Some(built) = build(&c.input) else {
        obs.discard();
        return Ok(());
    };
    let t = c.target;
    match pvkit::panics::guarded(|| targets::run(t, &built.bytes, Mode::Traverse)) {
        Err(_) => obs.class("accessors:decode-itself-panicked(see other sub-checks)"),
        Ok(o) => {
            if !o.ok {
                obs.class("accessors:not-decodable");
                return Ok(());
            }
            obs.class(format!("accessors:decoded:{}", t.group()));
            if built.kind != "seed" {
                // decodable although damaged: the interesting population
                let mut key = t.name().into_bytes();
                key.extend_from_slice(&built.bytes);
                obs.nontrivial_key(fnv64(&key));
            }
            if let Some(p) = o.accessor_panic {
                obs.class(format!("post-decode-accessor:{}", p.sig));
                let mut m = ACCESSOR_EXAMPLES.lock().unwrap();
                let e = m.entry(p.sig.clone()).or_insert((0, t.name(), hex::encode(&built.bytes)));
                e.0 += 1;
                if built.bytes.len() * 2 < e.2.len() {
                    e.1 = t.name();
                    e.2 = hex::encode(&built.bytes);
                }
            } else {
                obs.class("accessors:clean");
            }
        }
    }
    Ok(())
}

static ACCESSOR_EXAMPLES: Mutex<BTreeMap<String, (u64, String, String)>> = Mutex::new(BTreeMap::new());

// ---------------------------------------------------------------------------------------------
// strategies
// ---------------------------------------------------------------------------------------------
const GROUP_WEIGHTS: [(&str, u32); 10] = [
    ("block", 7),
    ("tx", 9),
    ("header", 6),
    ("output", 6),
    ("address", 7),
    ("byron-address", 3),
    ("net1-msg", 16),
    ("net2-msg", 11),
    ("net1-typed", 16),
    ("net2-anymessage", 5),
];

fn targets_by_group() -> Vec<(u32, Vec<Target>)> {
    let all = Target::all();
    GROUP_WEIGHTS
        .iter()
        .map(|(g, w)| (*w, all.iter().copied().filter(|t| t.group() == *g).collect::<Vec<_>>()))
        .collect()
}

fn target() -> impl Strategy<Value = Target> {
    let groups = targets_by_group();
    let total: u32 = groups.iter().map(|g| g.0).sum();
    (0..total, any::<u16>()).prop_map(move |(w, sel)| {
        let mut acc = 0;
        for (gw, ts) in &groups {
            acc += gw;
            if w < acc {
                return ts[pick_idx(sel, ts.len())];
            }
        }
        Target::Block
    })
}

/// seed for a target: its own family (mutable size) mostly, sometimes any small seed
fn seed_name(t: Target, own: bool, sel: u16) -> String {
    let p = pool();
    let fam = t.family();
    let idx = if own {
        let f: Vec<usize> = p.family(&fam).iter().copied().filter(|i| p.seeds[*i].bytes.len() <= MUTABLE_MAX).collect();
        if f.is_empty() {
            p.small()[pick_idx(sel, p.small().len())]
        } else {
            f[pick_idx(sel, f.len())]
        }
    } else {
        p.small()[pick_idx(sel, p.small().len())]
    };
    p.seeds[idx].name.clone()
}

fn donor_name(sel: u16) -> String {
    let p = pool();
    p.seeds[p.small()[pick_idx(sel, p.small().len())]].name.clone()
}

fn damaged_case() -> impl Strategy<Value = Case> {
    (target(), 0u8..100, any::<u16>(), any::<u16>(), mutate::mutops(4)).prop_map(|(t, own, s, d, ops)| Case {
        target: t,
        input: Input::Damaged { seed: seed_name(t, own < 88, s), donor: donor_name(d), ops },
    })
}

fn semantic_case(max_ops: usize) -> impl Strategy<Value = Case> {
    (target(), 0u8..100, any::<u16>(), mutate::mutops(max_ops)).prop_map(|(t, own, s, ops)| Case {
        target: t,
        input: Input::Semantic { seed: seed_name(t, own < 94, s), ops },
    })
}

fn byron_inner_case() -> impl Strategy<Value = Case> {
    (0u8..3, any::<u16>(), mutate::mutops(3)).prop_map(|(w, s, ops)| {
        let t = [Target::ByronBytes, Target::AddrBytes, Target::ByronBase58][w as usize];
        Case { target: t, input: Input::ByronInner { seed: seed_name(Target::ByronBytes, true, s), ops } }
    })
}

/// random bytes 0..512, half of them behind a plausible outer head so that the first check of the
/// entry point does not end the case
fn raw_case() -> impl Strategy<Value = Case> {
    let heads: Vec<Vec<u8>> = vec![
        vec![0x82, 0x00],
        vec![0x82, 0x01],
        vec![0x82, 0x05],
        vec![0x82, 0x07],
        vec![0x81],
        vec![0x82],
        vec![0x83],
        vec![0x84],
        vec![0x85],
        vec![0x8f],
        vec![0x9f],
        vec![0xa1],
        vec![0xa4],
        vec![0xbf],
        vec![0x82, 0xd8, 0x18],
        vec![0xd8, 0x18, 0x58],
        vec![0x00],
        vec![0x01],
        vec![0x41],
        vec![0x61],
        vec![0x71],
        vec![0x82, 0x82],
        vec![0xe1],
        vec![0xf1],
    ];
    (target(), prop::collection::vec(any::<u8>(), 0..512), any::<u16>(), 0u8..4).prop_map(move |(t, mut b, h, w)| {
        if w >= 2 {
            let head = &heads[pick_idx(h, heads.len())];
            let mut v = head.clone();
            v.append(&mut b);
            v.truncate(512);
            b = v;
        } else if w == 1 {
            // small-integer soup: every byte a one-byte CBOR item, decodes far
            for x in b.iter_mut() {
                *x %= 0x18;
            }
            if let Some(f) = b.first_mut() {
                *f = 0x80 | (*f % 0x18);
            }
        }
        Case { target: t, input: Input::Raw(b) }
    })
}

fn accessor_case() -> impl Strategy<Value = Case> {
    prop_oneof![
        6 => semantic_case(2),
        2 => (target(), any::<u16>(), mutate::mutops(1)).prop_map(|(t, s, ops)| Case {
            target: t,
            input: Input::Damaged { seed: seed_name(t, true, s), donor: donor_name(s.wrapping_mul(31)), ops },
        }),
        1 => (target(), any::<u16>()).prop_map(|(t, s)| Case { target: t, input: Input::Seed { seed: seed_name(t, true, s) } }),
        1 => byron_inner_case(),
    ]
}

// ---------------------------------------------------------------------------------------------
// isolated probes (deep nesting, huge declared lengths): one child process per probe
// ---------------------------------------------------------------------------------------------
#[derive(Debug, Clone, Serialize, Deserialize)]
pub struct Probe {
    pub target: Target,
    /// nesting unit: "array" | "array-indef" | "map" | "map-key" | "tag" | "constr" | "native-script" |
    /// "bytes-indef"; or declared-length lie: "len-array" | "len-map" | "len-bytes" | "len-text"
    pub kind: String,
    /// nesting depth, or log2 of the declared length
    pub n: u32,
    /// where the probe sits: "" = it is the whole input; "tpl:<name>" = a hand-built host that puts
    /// it where a recursive type is expected; otherwise the name of a seed whose pre-order node
    /// `slot` is replaced by the probe
    pub host: String,
    pub slot: u16,
}

pub const NEST_KINDS: [&str; 8] = ["array", "array-indef", "map", "map-key", "tag", "constr", "native-script", "bytes-indef"];
pub const LEN_KINDS: [&str; 4] = ["len-array", "len-map", "len-bytes", "len-text"];

/// Run-length form of an input: (unit, repetitions) segments. Deep probes are megabytes of a
/// repeated unit; this form is what is handed to the child process.
pub type Segs = Vec<(Vec<u8>, usize)>;

pub fn segs_len(s: &Segs) -> usize {
    s.iter().map(|(u, n)| u.len() * n).sum()
}

#[allow(dead_code)]
pub fn segs_bytes(s: &Segs) -> Vec<u8> {
    let mut out = Vec::with_capacity(segs_len(s));
    for (u, n) in s {
        for _ in 0..*n {
            out.extend_from_slice(u);
        }
    }
    out
}

fn segs_text(s: &Segs) -> String {
    let mut out = String::new();
    for (u, n) in s {
        if u.is_empty() || *n == 0 {
            continue;
        }
        out.push(' ');
        out.push_str(&hex::encode(u));
        if *n != 1 {
            out.push_str(&format!("*{n}"));
        }
    }
    out
}

fn parse_segs(txt: &str) -> Vec<u8> {
    let mut out = vec![];
    for tok in txt.split_whitespace() {
        let (hx, n) = match tok.split_once('*') {
            Some((h, n)) => (h, n.parse::<usize>().expect("repeat count")),
            None => (tok, 1),
        };
        let unit = hex::decode(hx).expect("segment hex");
        for _ in 0..n {
            out.extend_from_slice(&unit);
        }
    }
    out
}

fn one(b: &[u8]) -> (Vec<u8>, usize) {
    (b.to_vec(), 1)
}

fn nest(kind: &str, n: usize) -> Option<Segs> {
    Some(match kind {
        "array" => vec![(vec![0x81], n), one(&[0x00])],
        "array-indef" => vec![(vec![0x9f], n), one(&[0x00]), (vec![0xff], n)],
        // {0: {0: ... 0}}
        "map" => vec![(vec![0xa1, 0x00], n), one(&[0x00])],
        // {{{...0: 0}: 0}: 0}
        "map-key" => vec![(vec![0xa1], n), one(&[0x00]), (vec![0x00], n)],
        "tag" => vec![(vec![0xc2], n), one(&[0x40])],
        // plutus-data shaped: 121([121([ ... 0 ])])
        "constr" => vec![(vec![0xd8, 0x79, 0x81], n), one(&[0x00])],
        // all-of [ all-of [ ... all-of [] ] ]
        "native-script" => vec![(vec![0x82, 0x01, 0x81], n), one(&[0x82, 0x01, 0x80])],
        // nested indefinite byte strings are malformed; a decoder must say so without recursing
        "bytes-indef" => vec![(vec![0x5f], n), one(&[0x40]), (vec![0xff], n)],
        "len-array" => vec![one(&head_with(4, 1u64 << n.min(63)))],
        "len-map" => vec![one(&head_with(5, 1u64 << n.min(63)))],
        "len-bytes" => vec![one(&head_with(2, 1u64 << n.min(63)))],
        "len-text" => vec![one(&head_with(3, 1u64 << n.min(63)))],
        _ => return None,
    })
}

/// hand-built hosts: the smallest transaction / output / block around a position where a recursive
/// type is decoded
pub const TEMPLATES: [&str; 9] = [
    "tx-plutus-data",
    "tx-redeemer-data",
    "tx-metadata",
    "tx-metadata-shelley",
    "tx-native-script",
    "tx-aux-native-script",
    "output-inline-datum",
    "output-script-ref",
    "block-babbage-plutus-data",
];

fn bytes_head(n: usize) -> Vec<u8> {
    let mut out = vec![];
    if n < 24 {
        out.push(0x40 | n as u8);
    } else if n <= 0xff {
        out.extend([0x58, n as u8]);
    } else if n <= 0xffff {
        out.push(0x59);
        out.extend((n as u16).to_be_bytes());
    } else {
        out.push(0x5a);
        out.extend((n as u32).to_be_bytes());
    }
    out
}

pub fn template(name: &str, probe: Segs) -> Option<Segs> {
    // {0: [], 1: [], 2: 0}
    let body: &[u8] = &[0xa3, 0x00, 0x80, 0x01, 0x80, 0x02, 0x00];
    let addr: Vec<u8> = {
        let mut a = vec![0x58, 29, 0x61];
        a.extend([7u8; 28]);
        a
    };
    let plen = segs_len(&probe);
    let wrap = |pre: Vec<u8>, post: Vec<u8>| -> Segs {
        let mut v = vec![(pre, 1)];
        v.extend(probe.clone());
        v.push((post, 1));
        v
    };
    Some(match name {
        "tx-plutus-data" => wrap([&[0x84], body, &[0xa1, 0x04, 0x81]].concat(), vec![0xf5, 0xf6]),
        "tx-redeemer-data" => wrap([&[0x84], body, &[0xa1, 0x05, 0x81, 0x84, 0x00, 0x00]].concat(), vec![0x82, 0x00, 0x00, 0xf5, 0xf6]),
        "tx-metadata" => wrap([&[0x84], body, &[0xa0, 0xf5, 0xa1, 0x00]].concat(), vec![]),
        "tx-metadata-shelley" => wrap([&[0x83], body, &[0xa0, 0xa1, 0x00]].concat(), vec![]),
        "tx-native-script" => wrap([&[0x84], body, &[0xa1, 0x01, 0x81]].concat(), vec![0xf5, 0xf6]),
        "tx-aux-native-script" => wrap([&[0x84], body, &[0xa0, 0xf5, 0x82, 0xa0, 0x81]].concat(), vec![]),
        // {0: addr, 1: 0, 2: [1, 24(h'<probe>')]}
        "output-inline-datum" => {
            wrap([&[0xa3, 0x00], &addr[..], &[0x01, 0x00, 0x02, 0x82, 0x01, 0xd8, 0x18], &bytes_head(plen)[..]].concat(), vec![])
        }
        // {0: addr, 1: 0, 3: 24(h'[0, <probe>]')}
        "output-script-ref" => {
            wrap([&[0xa3, 0x00], &addr[..], &[0x01, 0x00, 0x03, 0xd8, 0x18], &bytes_head(plen + 2)[..], &[0x82, 0x00]].concat(), vec![])
        }
        "block-babbage-plutus-data" => {
            // a real babbage block with the first witness set replaced by {4: [probe]}
            let s = pool().get("art:babbage1.block")?;
            let tree = s.tree()?;
            let inner = tree.as_array()?.get(1)?.as_array()?;
            let ws = inner.get(2)?.as_array()?.first()?;
            wrap([&s.bytes[..ws.s], &[0xa1, 0x04, 0x81]].concat(), s.bytes[ws.e..].to_vec())
        }
        _ => return None,
    })
}

pub fn probe_segs(p: &Probe) -> Option<Segs> {
    let body = if p.kind == "len-self" { vec![] } else { nest(&p.kind, p.n as usize)? };
    if p.host.is_empty() {
        return Some(body);
    }
    if let Some(name) = p.host.strip_prefix("tpl:") {
        return template(name, body);
    }
    let s = pool().get(&p.host)?;
    let tree = s.tree()?;
    if p.kind == "len-self" {
        // the slot-th container / string of the seed keeps its content but declares 2^n elements
        let mut heads = vec![];
        collect_heads(tree, &s.bytes, &mut heads);
        let (at, hl, major) = *heads.get(p.slot as usize)?;
        let mut h = vec![(major << 5) | 27];
        h.extend((1u64 << p.n.min(63)).to_be_bytes());
        return Some(vec![one(&s.bytes[..at]), one(&h), one(&s.bytes[at + hl..])]);
    }
    let mut nodes = vec![];
    collect(tree, &mut nodes);
    let node = nodes[pick_idx(p.slot, nodes.len())];
    let mut out: Segs = vec![one(&s.bytes[..node.0])];
    out.extend(body);
    if p.kind.starts_with("len-") {
        // the displaced node follows as plausible content behind the lying head
        out.push(one(&s.bytes[node.0..node.1]));
    }
    out.push(one(&s.bytes[node.1..]));
    Some(out)
}

pub fn probe_bytes(p: &Probe) -> Option<Vec<u8>> {
    probe_segs(p).map(|s| segs_bytes(&s))
}

/// (offset, head length, major type) of every definite-length array / map / byte / text string
fn collect_heads(n: &cborx::Node, src: &[u8], out: &mut Vec<(usize, usize, u8)>) {
    let hl = |at: usize| match src[at] & 31 {
        0..=23 => 1,
        24 => 2,
        25 => 3,
        26 => 5,
        27 => 9,
        _ => 0,
    };
    match &n.k {
        cborx::Kind::Array(v, cborx::Len::Def(_)) => {
            out.push((n.s, hl(n.s), 4));
            v.iter().for_each(|c| collect_heads(c, src, out));
        }
        cborx::Kind::Map(v, cborx::Len::Def(_)) => {
            out.push((n.s, hl(n.s), 5));
            v.iter().for_each(|(a, b)| {
                collect_heads(a, src, out);
                collect_heads(b, src, out)
            });
        }
        cborx::Kind::Array(v, _) => v.iter().for_each(|c| collect_heads(c, src, out)),
        cborx::Kind::Map(v, _) => v.iter().for_each(|(a, b)| {
            collect_heads(a, src, out);
            collect_heads(b, src, out)
        }),
        cborx::Kind::Tag(_, _, i) => collect_heads(i, src, out),
        cborx::Kind::Bytes(cborx::Str::Def(..)) => out.push((n.s, hl(n.s), 2)),
        cborx::Kind::Text(cborx::Str::Def(..)) => out.push((n.s, hl(n.s), 3)),
        _ => {}
    }
}

fn collect(n: &cborx::Node, out: &mut Vec<(usize, usize)>) {
    out.push((n.s, n.e));
    match &n.k {
        cborx::Kind::Array(v, _) => v.iter().for_each(|c| collect(c, out)),
        cborx::Kind::Map(v, _) => v.iter().for_each(|(a, b)| {
            collect(a, out);
            collect(b, out)
        }),
        cborx::Kind::Tag(_, _, i) => collect(i, out),
        _ => {}
    }
}

fn head_with(major: u8, v: u64) -> Vec<u8> {
    let mut out = vec![(major << 5) | 27];
    out.extend(v.to_be_bytes());
    // a few small elements so that a pre-sizing decoder gets past the head
    out.extend([0x00, 0x00, 0x00, 0x00]);
    out
}

/// Entry of the child process. `PV_DECODE_PROBE=<target index>:<hex file>` decodes one input (exit
/// 0 = returned, 3 = panicked, signature on stdout). `PV_DECODE_PROBE=batch:<list file>` decodes a
/// list (`<target index> <segment> ...` per line, segment = `<hex>` or `<hex>*<repetitions>`) and reports `B <i>` before and `E <i> <verdict>` after each
/// item, so the parent knows which item killed the process.
pub fn probe_child(spec: &str) -> ! {
    use std::io::Write;
    let (idx, path) = spec.split_once(':').expect("PV_DECODE_PROBE=<target index>|batch:<file>");
    let txt = std::fs::read_to_string(path).expect("probe file");
    pvkit::panics::install();
    let all = Target::all();
    if idx == "batch" {
        let out = std::io::stdout();
        for (i, line) in txt.lines().enumerate() {
            let Some((t, segs)) = line.split_once(' ') else { continue };
            let t = all[t.parse::<usize>().expect("target index")];
            let bytes = parse_segs(segs);
            {
                let mut o = out.lock();
                let _ = writeln!(o, "B {i}");
                let _ = o.flush();
            }
            let t0 = std::time::Instant::now();
            // a probe that kills this process ends the batch; the parent sees a `B` without its `E`,
            // records the death and restarts behind the culprit
            let verdict = match pvkit::panics::guarded(|| targets::run(t, &bytes, Mode::DecodeOnly)) {
                Ok(o) => (if o.ok { "ok" } else { "err" }).to_string(),
                Err(p) => format!("panic {}", p.sig),
            };
            let mut o = out.lock();
            let _ = writeln!(o, "E {i} {verdict}");
            if std::env::var_os("PV_DECODE_PROBE_TIMING").is_some() {
                let _ = writeln!(o, "T {i} {} ms {} bytes target {}", t0.elapsed().as_millis(), bytes.len(), t.name());
            }
            let _ = o.flush();
        }
        std::process::exit(0)
    }
    let t = all[idx.parse::<usize>().expect("target index")];
    let bytes = hex::decode(txt.trim()).expect("probe hex");
    match pvkit::panics::guarded(|| targets::run(t, &bytes, Mode::DecodeOnly)) {
        Ok(o) => {
            println!("{}", if o.ok { "ok" } else { "err" });
            std::process::exit(0)
        }
        Err(p) => {
            println!("{}", p.sig);
            std::process::exit(3)
        }
    }
}

/// Root cause of a process death, as far as the probe's position tells it: the hand-built hosts put
/// the nest where one specific recursive type is decoded; elsewhere only the entry-point group is known.
fn attribution(p: &Probe) -> String {
    use crate::targets::Typed;
    match p.host.strip_prefix("tpl:") {
        Some("tx-plutus-data") | Some("tx-redeemer-data") | Some("output-inline-datum") | Some("block-babbage-plutus-data") => {
            "pallas-primitives::PlutusData".into()
        }
        Some("tx-metadata") | Some("tx-metadata-shelley") => "pallas-primitives::Metadatum".into(),
        Some("tx-native-script") | Some("tx-aux-native-script") | Some("output-script-ref") => "pallas-primitives::NativeScript".into(),
        _ => match p.target {
            Target::Typed(Typed::LtxPlutusData) => "pallas-network::PlutusData".into(),
            Target::Typed(Typed::LtxNativeScript) => "pallas-network::NativeScript".into(),
            _ => format!("unattributed@{}", p.target.group()),
        },
    }
}

#[derive(Debug, Clone, Serialize, Deserialize)]
pub struct ProbeBatch {
    pub probes: Vec<Probe>,
}

enum ProbeResult {
    Returned(bool),
    Panicked(String),
    Died(i32),
    Harness(String),
}

/// Run the probes in child processes (one child per batch, restarted behind an item that killed it).
fn run_isolated(items: &[(Target, Segs)]) -> Vec<ProbeResult> {
    use std::os::unix::process::ExitStatusExt;
    let all = Target::all();
    let mut results: Vec<ProbeResult> = vec![];
    let dir = std::env::temp_dir().join(format!("pv-decode-probes-{}", std::process::id()));
    let _ = std::fs::create_dir_all(&dir);
    let exe = match std::env::current_exe() {
        Ok(e) => e,
        Err(e) => return items.iter().map(|_| ProbeResult::Harness(e.to_string())).collect(),
    };
    let mut start = 0usize;
    let mut spawns = 0;
    while start < items.len() {
        spawns += 1;
        let mut list = String::new();
        let mut key = vec![];
        for (t, b) in &items[start..] {
            let idx = all.iter().position(|x| x == t).unwrap_or(0);
            let line = segs_text(b);
            key.extend_from_slice(line.as_bytes());
            list.push_str(&format!("{idx}{line}\n"));
        }
        let file = dir.join(format!("{:016x}-{start}-{:?}.list", fnv64(&key), std::thread::current().id()));
        if let Err(e) = std::fs::write(&file, list) {
            results.extend(items[start..].iter().map(|_| ProbeResult::Harness(e.to_string())));
            break;
        }
        let out = std::process::Command::new(&exe)
            .env("PV_DECODE_PROBE", format!("batch:{}", file.display()))
            .stderr(std::process::Stdio::null())
            .output();
        if std::env::var_os("PV_DECODE_KEEP_LISTS").is_none() {
            let _ = std::fs::remove_file(&file);
        }
        let out = match out {
            Ok(o) => o,
            Err(e) => {
                results.extend(items[start..].iter().map(|_| ProbeResult::Harness(e.to_string())));
                break;
            }
        };
        let text = String::from_utf8_lossy(&out.stdout);
        let mut began: Option<usize> = None;
        let mut done = 0usize;
        for line in text.lines() {
            if let Some(i) = line.strip_prefix("B ") {
                began = i.parse().ok();
            } else if let Some(rest) = line.strip_prefix("E ") {
                let (_, verdict) = rest.split_once(' ').unwrap_or(("", "err"));
                results.push(match verdict {
                    "ok" => ProbeResult::Returned(true),
                    "err" => ProbeResult::Returned(false),
                    v if v.starts_with("died ") => ProbeResult::Died(v[5..].trim().parse().unwrap_or(0)),
                    v if v.starts_with("harness ") => ProbeResult::Harness(v.to_string()),
                    v => ProbeResult::Panicked(v.strip_prefix("panic ").unwrap_or(v).to_string()),
                });
                done += 1;
                began = None;
            }
        }
        if done == items.len() - start {
            break;
        }
        // the child stopped early: the item it had begun is the culprit
        match began {
            Some(i) if i == done => {
                let sig = out.status.signal().unwrap_or(-out.status.code().unwrap_or(0));
                results.push(ProbeResult::Died(sig));
                start += done + 1;
            }
            _ => {
                results.extend(items[start + done..].iter().map(|_| ProbeResult::Harness(format!("probe child stopped without a culprit: {:?}", out.status))));
                break;
            }
        }
        if spawns > items.len() + 2 {
            break;
        }
    }
    results
}

fn check_probe_batch<'a>(s: &'a Session) -> impl Fn(&ProbeBatch, &mut Obs) -> Result<(), Fail> + Sync + 'a {
    move |batch: &ProbeBatch, obs: &mut Obs| {
        let mut items = vec![];
        let mut meta = vec![];
        for p in &batch.probes {
            if let Some(b) = probe_segs(p) {
                items.push((p.target, b));
                meta.push(p);
            }
        }
        if items.is_empty() {
            obs.discard();
            return Ok(());
        }
        let results = run_isolated(&items);
        let mut first: Option<Fail> = None;
        let mut key = vec![];
        for ((p, (_, segs)), r) in meta.iter().zip(items.iter()).zip(results.iter()) {
            let nbytes = segs_len(segs);
            obs.class(format!("probe:{}", p.kind));
            obs.class(format!("probe-group:{}", p.target.group()));
            let family = if p.kind.starts_with("len-") { "huge-length" } else { "deep-nesting" };
            let _ = &family;
            let fail = match r {
                ProbeResult::Returned(ok) => {
                    obs.class(format!("probe-verdict:{}", if *ok { "ok" } else { "err" }));
                    key.extend_from_slice(&fnv64(format!("{}{}", p.target.name(), segs_text(segs)).as_bytes()).to_le_bytes());
                    None
                }
                ProbeResult::Panicked(sig) => Some(Fail {
                    sig: sig.clone(),
                    msg: format!("{} panics on a {family} probe: kind={} n={} host='{}' slot {} ({} bytes)", p.target.name(), p.kind, p.n, p.host, p.slot, nbytes),
                }),
                ProbeResult::Died(signal) => {
                    let what = if family == "deep-nesting" { "stack-overflow" } else { "alloc-abort" };
                    let sig = format!("{what}:{}", attribution(p));
                    obs.class(format!("probe-verdict:process-death:{sig} [{}@{}]", p.kind, p.target.group()));
                    Some(Fail {
                        sig,
                        msg: format!(
                            "{} kills the process (signal {signal}) on a {family} probe: kind={} n={} host='{}' slot {} ({} bytes); input ={}",
                            p.target.name(), p.kind, p.n, p.host, p.slot, nbytes, { let t = segs_text(segs); if t.len() > 300 { format!("{}…", &t[..300]) } else { t } }
                        ),
                    })
                }
                ProbeResult::Harness(e) => Some(Fail { sig: "harness-probe".into(), msg: e.clone() }),
            };
            if let Some(f) = fail {
                if collecting() {
                    let mut m = COLLECT.lock().unwrap();
                    let e = m.entry(format!("{} <- {} host={}", f.sig, p.target.name(), p.host)).or_insert((0, p.kind.clone(), String::new()));
                    e.0 += 1;
                    continue;
                }
                if s.is_known(&f.sig).is_some() {
                    s.known_hit(&f.sig, 1);
                } else if first.is_none() {
                    first = Some(f);
                }
            }
        }
        if results.len() != items.len() && first.is_none() {
            first = Some(Fail { sig: "harness-probe".into(), msg: format!("{} results for {} probes", results.len(), items.len()) });
        }
        if !key.is_empty() {
            obs.nontrivial_key(fnv64(&key));
        }
        match first {
            Some(f) => Err(f),
            None => Ok(()),
        }
    }
}

// ---------------------------------------------------------------------------------------------

pub fn run(s: &Session) {
    seeds::init(!s.quick());
    let p = pool();
    s.set_rule(
        "case = (entry point, input). Entry points: MultiEraBlock::decode, MultiEraTx::decode, decode_for_era x7, \
         MultiEraHeader::decode x9 (tag,subtag), MultiEraOutput::decode x7, Address::{from_bytes,from_hex,from_bech32,from_str}, \
         ByronAddress::{from_bytes,from_base58}, minicbor decode of 23 message types (net1 13, net2 10), of 72 typed \
         payload codecs (local-state queries/results, local-tx rejection tree, handshake/chainsync/peersharing parts) and \
         AnyMessage::from_payload x14 channel ids. Inputs: random bytes 0..512 (raw / behind a plausible head / one-byte-item \
         soup); every seed unchanged; seeds under 1-4 byte-level damage ops (bitflip, truncate, splice, len-corrupt, \
         major-change, insert, delete, byte-set); seeds under 1-3 cborx-level semantic damage ops (int boundary/nudge, bytes \
         length, empty/dup/drop/swap children, tag change/unwrap, scalar replacement, wrap, def<->indef, truncate inside, \
         length lie, non-minimal int, graft); Byron address payload damage with recomputed CRC; isolated deep-nesting and \
         huge-length probes. Non-trivial = the entry point returned Ok, or (CBOR inputs) the input still has two complete \
         well-formed nested items after the outer container head per the independent strict reader, or (address bytes) a \
         known header type with >= 28 payload bytes, or (text inputs) the text layer decoded so the payload parser ran; \
         distinct = distinct (entry point, input bytes)",
    );
    s.assume("a panic is judged under the profile the project tests with (debug-assertions + overflow-checks on)");
    s.assume("tracing events emitted by AnyMessage::from_payload have no subscriber");
    s.note("seed_pool", serde_json::json!({
        "seeds": p.seeds.len(),
        "entry_points": Target::all().len(),
    }));

    // 1. fixed vectors (also the home of regression cases: sub = "fixed-vectors")
    let mut fixed = vec![];
    for t in Target::all() {
        for b in [vec![], vec![0x80], vec![0x9f], vec![0x9f, 0xff], vec![0xa0], vec![0xf6], vec![0x82, 0x00], vec![0xff], vec![0x00]] {
            fixed.push(Case { target: t, input: Input::Raw(b) });
        }
    }
    s.foreach("fixed-vectors", fixed, false, check);

    // 2. every seed unchanged: against every entry point of its own family, and (small seeds)
    //    against entry points of other families
    let all_targets = Target::all();
    let mut asis = vec![];
    for t in &all_targets {
        let fam = t.family();
        if p.has_family(&fam) {
            for i in p.family(&fam) {
                asis.push(Case { target: *t, input: Input::Seed { seed: p.seeds[*i].name.clone() } });
            }
        }
    }
    let stride = s.pick(17usize, 1);
    for (k, t) in all_targets.iter().enumerate() {
        for (j, i) in p.small().iter().enumerate() {
            if (j + k) % stride == 0 && p.seeds[*i].family != t.family() {
                asis.push(Case { target: *t, input: Input::Seed { seed: p.seeds[*i].name.clone() } });
            }
        }
    }
    s.foreach("seeds-as-is", asis, false, check);

    // 3.-6. generated
    s.forall("random-bytes", s.pick(400_000, 8_000_000), raw_case, check);
    s.forall("damaged-seeds", s.pick(900_000, 20_000_000), damaged_case, check);
    s.forall("semantic-damage", s.pick(900_000, 20_000_000), || semantic_case(3), check);
    s.forall("byron-inner", s.pick(40_000, 500_000), byron_inner_case, check);

    // 7. accessor chains (observations only)
    s.forall("post-decode-accessors", s.pick(150_000, 3_000_000), accessor_case, check_accessors);
    {
        let m = ACCESSOR_EXAMPLES.lock().unwrap();
        let obs: Vec<serde_json::Value> = m
            .iter()
            .map(|(sig, (n, t, hx))| {
                serde_json::json!({"signature": format!("post-decode-accessor:{sig}"), "hits": n, "entry": t,
                    "smallest_input_hex": if hx.len() <= 1200 { hx.clone() } else { format!("{}…({} bytes)", &hx[..1200], hx.len() / 2) }})
            })
            .collect();
        s.note("post_decode_accessor_observations", serde_json::json!(obs));
    }

    // 8. isolated probes
    let mut probes = vec![];
    // 100 000 levels is 4-20x every overflow threshold observed (5 283 .. 23 774 on an 8 MiB stack)
    let depths: Vec<u32> = vec![1_000, 10_000, 100_000];
    let lens: [u32; 2] = [32, 62];
    // (a) hand-built hosts around the recursive ledger types
    // quick: the eras whose transactions / outputs carry the recursive types; thorough: every ledger entry point
    let ledger_targets: Vec<Target> = all_targets
        .iter()
        .copied()
        .filter(|t| matches!(t.group(), "tx" | "output" | "block"))
        .filter(|t| !s.quick() || matches!(t, Target::Block | Target::Tx | Target::TxEra(4..=6) | Target::Output(5..=6)))
        .collect();
    let tpl_depths: Vec<u32> = s.pick(vec![1_000, 100_000], depths.clone());
    for tpl in TEMPLATES {
        for t in &ledger_targets {
            let fits = match t.group() {
                "tx" => tpl.starts_with("tx-"),
                "output" => tpl.starts_with("output-"),
                _ => tpl.starts_with("block-"),
            };
            if !fits {
                continue;
            }
            for kind in NEST_KINDS {
                for d in &tpl_depths {
                    probes.push(Probe { target: *t, kind: kind.into(), n: *d, host: format!("tpl:{tpl}"), slot: 0 });
                }
            }
        }
    }
    // (b) every CBOR entry point: the probe as the whole input and planted inside seeds of its family
    for t in &all_targets {
        if !t.is_cbor() {
            continue;
        }
        let fam = t.family();
        let mut hosts: Vec<(String, u16)> = vec![(String::new(), 0)];
        if p.has_family(&fam) {
            let f: Vec<usize> =
                p.family(&fam).iter().copied().filter(|i| p.seeds[*i].bytes.len() <= 20_000 && p.seeds[*i].tree().is_some()).collect();
            if !f.is_empty() {
                for k in 0..s.pick(2usize, 4) {
                    let i = f[(k * 7919 + 3) % f.len()];
                    for slot in s.pick(vec![0x3000u16, 0xc000], vec![0x2000u16, 0x8000, 0xe000]) {
                        hosts.push((p.seeds[i].name.clone(), slot));
                    }
                }
            }
        }
        for (host, slot) in hosts {
            for kind in NEST_KINDS {
                for d in &depths {
                    // planted probes only at one depth (beyond every observed overflow threshold)
                    if !host.is_empty() && *d != 100_000 {
                        continue;
                    }
                    probes.push(Probe { target: *t, kind: kind.into(), n: *d, host: host.clone(), slot });
                }
            }
            for kind in LEN_KINDS {
                for l in lens {
                    probes.push(Probe { target: *t, kind: kind.into(), n: l, host: host.clone(), slot });
                }
            }
        }
        // every definite-length head of a few seeds of the family declares 2^32 / 2^62 elements
        if p.has_family(&fam) {
            let f: Vec<usize> =
                p.family(&fam).iter().copied().filter(|i| p.seeds[*i].bytes.len() <= 4_000 && p.seeds[*i].tree().is_some()).collect();
            for k in 0..s.pick(3usize, 12).min(f.len()) {
                let seed = &p.seeds[f[(k * 7919 + 1) % f.len()]];
                let mut heads = vec![];
                collect_heads(seed.tree().unwrap(), &seed.bytes, &mut heads);
                for slot in 0..heads.len().min(s.pick(16, 64)) {
                    for l in lens {
                        probes.push(Probe { target: *t, kind: "len-self".into(), n: l, host: seed.name.clone(), slot: slot as u16 });
                    }
                }
            }
        }
    }
    if std::env::var("PV_DECODE_SKIP_PROBES").is_err() {
        // batches: a fixed pseudo-random order spreads the probes that kill their process (each
        // costs a restart of the batch child) evenly over the worker threads
        probes.sort_by_cached_key(|p| fnv64(format!("{}|{}|{}|{}|{}", p.target.name(), p.kind, p.n, p.host, p.slot).as_bytes()));
        let batches: Vec<ProbeBatch> = probes.chunks(128).map(|c| ProbeBatch { probes: c.to_vec() }).collect();
        s.note("isolated_probes", serde_json::json!(batches.iter().map(|b| b.probes.len()).sum::<usize>()));
        s.foreach("isolated-probes", batches, false, check_probe_batch(s));
        if std::env::var_os("PV_DECODE_KEEP_LISTS").is_none() {
            let _ = std::fs::remove_dir_all(std::env::temp_dir().join(format!("pv-decode-probes-{}", std::process::id())));
        }
    }

    // health: the generator reached what it claims
    if !s.replaying() {
        for (g, _) in GROUP_WEIGHTS {
            s.health(s.class_count(&format!("group:{g}")) > 0, &format!("no case for entry-point group {g}"));
        }
        let mut missing = vec![];
        for t in &all_targets {
            if s.class_count(&format!("entry-nontrivial:{}", t.name())) == 0 {
                missing.push(t.name());
            }
        }
        s.health(missing.is_empty(), &format!("entry points never reached non-trivially: {missing:?}"));
        for k in mutate::DAMAGE_KINDS {
            s.health(s.class_count(&format!("damaged:{k}")) > 0, &format!("damage family {k} never applied"));
        }
        for k in semdmg::SEM_KINDS {
            s.health(s.class_count(&format!("semantic:{k}")) > 0, &format!("semantic damage family {k} never applied"));
        }
        s.health(s.class_count("verdict:ok") > 0 && s.class_count("verdict:err") > 0, "both verdicts must occur");
        s.health(s.class_count("accessors:clean") > 0, "accessor sub-check never saw a decodable input");
    }
    if collecting() {
        let m = COLLECT.lock().unwrap();
        eprintln!("==== collected panic signatures: {} ====", m.len());
        for (sig, (n, t, hx)) in m.iter() {
            eprintln!("{n:>7}  {sig}\n         entry={t} input({} bytes)={}", hx.len() / 2, if hx.len() > 400 { &hx[..400] } else { hx });
        }
        let v: Vec<serde_json::Value> = m
            .iter()
            .map(|(sig, (n, t, hx))| serde_json::json!({"signature": sig, "hits": n, "entry": t, "input_hex": hx}))
            .collect();
        let _ = std::fs::write(pvkit::session::out_dir().join("c09-collected.json"), serde_json::to_string_pretty(&v).unwrap());
    }
}

#[allow(dead_code)]
fn _unused(_: Family) {}
