//! Minimal text encoders (written from BIP-173 and the Bitcoin base58 alphabet, independent of the
//! crates pallas uses) so that arbitrary payload bytes can be pushed through the text-input address
//! parsers.

const B32: &[u8; 32] = b"qpzry9x8gf2tvdw0s3jn54khce6mua7l";

fn polymod(values: &[u8]) -> u32 {
    const GEN: [u32; 5] = [0x3b6a57b2, 0x26508e6d, 0x1ea119fa, 0x3d4233dd, 0x2a1462b3];
    let mut chk: u32 = 1;
    for v in values {
        let b = chk >> 25;
        chk = ((chk & 0x1ffffff) << 5) ^ (*v as u32);
        for (i, g) in GEN.iter().enumerate() {
            if (b >> i) & 1 == 1 {
                chk ^= g;
            }
        }
    }
    chk
}

/// BIP-173 bech32 (checksum constant 1), no length limit.
pub fn bech32(hrp: &str, data: &[u8]) -> String {
    // 8 -> 5 bits with zero padding
    let mut five = vec![];
    let mut acc: u32 = 0;
    let mut bits = 0;
    for b in data {
        acc = (acc << 8) | (*b as u32);
        bits += 8;
        while bits >= 5 {
            bits -= 5;
            five.push(((acc >> bits) & 31) as u8);
        }
    }
    if bits > 0 {
        five.push(((acc << (5 - bits)) & 31) as u8);
    }
    let mut values: Vec<u8> = hrp.bytes().map(|c| c >> 5).collect();
    values.push(0);
    values.extend(hrp.bytes().map(|c| c & 31));
    values.extend(&five);
    values.extend([0u8; 6]);
    let pm = polymod(&values) ^ 1;
    let mut out = String::from(hrp);
    out.push('1');
    for v in &five {
        out.push(B32[*v as usize] as char);
    }
    for i in 0..6 {
        out.push(B32[((pm >> (5 * (5 - i))) & 31) as usize] as char);
    }
    out
}

const B58: &[u8; 58] = b"123456789ABCDEFGHJKLMNPQRSTUVWXYZabcdefghijkmnopqrstuvwxyz";

pub fn base58(data: &[u8]) -> String {
    let zeros = data.iter().take_while(|b| **b == 0).count();
    let mut digits: Vec<u8> = vec![];
    for b in data {
        let mut carry = *b as u32;
        for d in digits.iter_mut() {
            carry += (*d as u32) << 8;
            *d = (carry % 58) as u8;
            carry /= 58;
        }
        while carry > 0 {
            digits.push((carry % 58) as u8);
            carry /= 58;
        }
    }
    let mut out = String::new();
    for _ in 0..zeros {
        out.push('1');
    }
    for d in digits.iter().rev() {
        out.push(B58[*d as usize] as char);
    }
    out
}

#[cfg(test)]
mod tests {
    #[test]
    fn vectors() {
        assert_eq!(super::base58(b"Hello World!"), "2NEpo7TZRRrLZSi2U");
        assert_eq!(super::base58(&[0, 0, 1]), "112");
        // BIP-173: "a12uel5l" is the empty-data bech32 of hrp "a"
        assert_eq!(super::bech32("a", &[]), "a12uel5l");
    }
}
