mod c09;
mod enc;
mod seedgen;
mod seeds;
mod semdmg;
mod targets;

use pvkit::session::CheckDef;

pub fn pvhash(s: &str) -> u64 {
    pvkit::fnv64(s.as_bytes())
}

fn main() {
    // isolated probe child (deep nesting / huge lengths): decode one input and exit; must be
    // checked before pvkit::main, which owns the argument parsing
    if let Ok(spec) = std::env::var("PV_DECODE_PROBE") {
        c09::probe_child(&spec);
    }
    pvkit::main(&[CheckDef { id: "C09", level: "exploration", run: c09::run }]);
}
