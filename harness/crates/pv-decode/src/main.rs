mod c09;
mod enc;
mod seedgen;
mod seeds;
mod semdmg;
mod targets;

use pvkit::session::CheckDef;

pub fn pvhash(s: &str) -> u64 {
    pvkit::fnv64(s.as_bytes())
}

/// Seed corpora of the libFuzzer targets in `/verif/harness/fuzz-decode` (one directory per target),
/// written from the same seed pool the check uses. The selector byte in front of the message seeds
/// follows the `decode` tables of `fuzz_targets/n2n_msg.rs` / `n2c_msg.rs`.
fn fuzz_corpus(dir: &str) {
    use seedgen::msgs::Proto as P;
    use targets::{Family as F, Typed as T};
    seeds::init(false);
    let pool = seeds::pool();
    let n2n = [
        P::N1HandshakeN2N, P::N1ChainSyncHeader, P::N1ChainSyncBlock, P::N1BlockFetch, P::N1TxSubmission, P::N1KeepAlive,
        P::N1PeerSharing, P::N2HandshakeN2N, P::N2ChainSyncHeader, P::N2ChainSyncBlock, P::N2BlockFetch, P::N2TxSubmission,
        P::N2KeepAlive, P::N2PeerSharing, P::N2LeiosNotify, P::N2LeiosFetch,
    ];
    let n2c: Vec<F> = vec![
        F::Msg(P::N1HandshakeN2C), F::Msg(P::N1LocalState), F::Msg(P::N1LocalTxSubmission), F::Msg(P::N1TxMonitor),
        F::Msg(P::N1LocalMsgSubmission), F::Msg(P::N1LocalMsgNotification), F::Msg(P::N2HandshakeN2C),
        F::Typed(T::Request), F::Typed(T::BlockQuery), F::Typed(T::SystemStart), F::Typed(T::ChainBlockNumber), F::Typed(T::Point),
        F::Typed(T::GenesisConfig), F::Typed(T::StakeDistribution), F::Typed(T::FilteredDelegsRewards), F::Typed(T::StakeSnapshots),
        F::Typed(T::UTxOByAddress), F::Typed(T::AccountState), F::Typed(T::Constitution), F::Typed(T::DRepState),
        F::Typed(T::ProtocolParam), F::Typed(T::PoolParamsMap), F::Typed(T::PState), F::Typed(T::PoolDistr),
        F::Typed(T::NonMyopicMemberRewards), F::Typed(T::GovState), F::Typed(T::RatifyState), F::Typed(T::ProposedPPUpdates),
        F::Typed(T::GovActionStates), F::Typed(T::CommitteeMembersState), F::Typed(T::DRepStates), F::Typed(T::DRepStakeDistr),
        F::Typed(T::VoteDelegatees), F::Typed(T::QTransactionOutput), F::Typed(T::TxValidationError), F::Typed(T::ConwayLedgerFailure),
        F::Typed(T::ConwayUtxoWPredFailure), F::Typed(T::UtxoFailure), F::Typed(T::ConwayCertsPredFailure), F::Typed(T::ConwayGovPredFailure),
    ];
    let mut counts = std::collections::BTreeMap::new();
    let mut put = |target: &str, name: &str, bytes: &[u8]| {
        let d = std::path::Path::new(dir).join(target);
        std::fs::create_dir_all(&d).expect("corpus dir");
        std::fs::write(d.join(format!("{:016x}", pvkit::fnv64(name.as_bytes()))), bytes).expect("corpus file");
        *counts.entry(target.to_string()).or_insert(0usize) += 1;
    };
    for s in &pool.seeds {
        match &s.family {
            F::Block if s.bytes.len() <= 200_000 => put("block", &s.name, &s.bytes),
            F::Header => {
                // block target, header entry: [tag, subtag selector] + bytes
                for (tag, sub) in [(0u8, 1u8), (0, 2), (1, 0), (5, 0)] {
                    let mut b = vec![tag, sub];
                    b.extend_from_slice(&s.bytes);
                    put("block", &format!("{}:{tag}:{sub}", s.name), &b);
                }
            }
            F::Tx | F::Output => put("tx", &s.name, &s.bytes),
            F::AddrBytes | F::AddrText | F::ByronBytes | F::ByronText => put("address", &s.name, &s.bytes),
            F::Msg(p) => {
                if let Some(i) = n2n.iter().position(|x| x == p) {
                    let mut b = vec![i as u8];
                    b.extend_from_slice(&s.bytes);
                    put("n2n_msg", &s.name, &b);
                }
                if let Some(i) = n2c.iter().position(|x| *x == s.family) {
                    let mut b = vec![i as u8];
                    b.extend_from_slice(&s.bytes);
                    put("n2c_msg", &s.name, &b);
                }
            }
            F::Typed(_) => {
                if let Some(i) = n2c.iter().position(|x| *x == s.family) {
                    let mut b = vec![i as u8];
                    b.extend_from_slice(&s.bytes);
                    put("n2c_msg", &s.name, &b);
                }
            }
            _ => {}
        }
    }
    for (t, n) in counts {
        println!("{t}: {n} seeds");
    }
}

fn main() {
    // isolated probe child (deep nesting / huge lengths): decode and exit; must be checked before
    // pvkit::main, which owns the argument parsing
    if let Ok(spec) = std::env::var("PV_DECODE_PROBE") {
        c09::probe_child(&spec);
    }
    if let Ok(dir) = std::env::var("PV_DECODE_WRITE_CORPUS") {
        fuzz_corpus(&dir);
        return;
    }
    pvkit::main(&[CheckDef { id: "C09", level: "exploration", run: c09::run }]);
}
