#![allow(dead_code)]
//! Builders (C09 only) for the typed local-state results that `payloads.rs` does not cover, and for
//! small nested parts, so that every typed entry point has valid seeds of its own shape.
use std::collections::BTreeMap;

use pallas_codec::minicbor::{self, Encode};
use pallas_codec::utils::{AnyCbor, Bytes, KeyValuePairs, Nullable};
use pallas_network::miniprotocols as n1;
use pallas_network::miniprotocols::localstate::queries_v16 as q;
use pallas_network::miniprotocols::localtxsubmission::SMaybe;
use pallas_network2::protocol as n2;

use super::payloads::*;
use super::src::Src;

pub fn enc<T: Encode<()>>(v: &T) -> Vec<u8> {
    minicbor::to_vec(v).unwrap_or_default()
}

pub fn cost_models(s: &mut Src) -> q::CostModels {
    q::CostModels {
        plutus_v1: opt(s, |s| vecn(s, 4, |s| s.i64())),
        plutus_v2: opt(s, |s| vecn(s, 4, |s| s.i64())),
        plutus_v3: opt(s, |s| vecn(s, 4, |s| s.i64())),
        unknown: KeyValuePairs::Def(vec![]),
    }
}

pub fn protocol_param(s: &mut Src) -> q::ProtocolParam {
    // `full`: every field present (the shape a node sends); otherwise a random subset
    let full = s.sel() < 0xa000;
    macro_rules! f {
        ($e:expr) => {
            if full || s.bool() {
                Some($e)
            } else {
                None
            }
        };
    }
    q::ProtocolParam {
        minfee_a: f!(s.u64()),
        minfee_b: f!(s.u64()),
        max_block_body_size: f!(s.u64()),
        max_transaction_size: f!(s.u64()),
        max_block_header_size: f!(s.u64()),
        key_deposit: f!(coin(s)),
        pool_deposit: f!(coin(s)),
        maximum_epoch: f!(s.u64()),
        desired_number_of_stake_pools: f!(s.u64()),
        pool_pledge_influence: f!(rational(s)),
        expansion_rate: f!(rational(s)),
        treasury_growth_rate: f!(rational(s)),
        protocol_version: f!((s.u64(), s.u64())),
        min_pool_cost: f!(coin(s)),
        ada_per_utxo_byte: f!(coin(s)),
        cost_models_for_script_languages: f!(cost_models(s)),
        execution_costs: f!(q::ExUnitPrices { mem_price: rational(s), step_price: rational(s) }),
        max_tx_ex_units: f!(q::ExUnits { mem: s.u64(), steps: s.u64() }),
        max_block_ex_units: f!(q::ExUnits { mem: s.u64(), steps: s.u64() }),
        max_value_size: f!(s.u64()),
        collateral_percentage: f!(s.u64()),
        max_collateral_inputs: f!(s.u64()),
        pool_voting_thresholds: f!(q::PoolVotingThresholds {
            motion_no_confidence: rational(s),
            committee_normal: rational(s),
            committee_no_confidence: rational(s),
            hard_fork_initiation: rational(s),
            pp_security_group: rational(s),
        }),
        drep_voting_thresholds: f!(q::DRepVotingThresholds {
            motion_no_confidence: rational(s),
            committee_normal: rational(s),
            committee_no_confidence: rational(s),
            update_to_constitution: rational(s),
            hard_fork_initiation: rational(s),
            pp_network_group: rational(s),
            pp_economic_group: rational(s),
            pp_technical_group: rational(s),
            pp_gov_group: rational(s),
            treasury_withdrawal: rational(s),
        }),
        min_committee_size: f!(s.u64()),
        committee_term_limit: f!(s.u64()),
        governance_action_validity_period: f!(s.u64()),
        governance_action_deposit: f!(coin(s)),
        drep_deposit: f!(coin(s)),
        drep_inactivity_period: f!(s.u64()),
        minfee_refscript_cost_per_byte: f!(rational(s)),
    }
}

pub fn relay(s: &mut Src) -> q::Relay {
    match s.pick(3) {
        0 => q::Relay::SingleHostAddr(nullable(s, |s| s.u32()), nullable(s, bytes), nullable(s, bytes)),
        1 => q::Relay::SingleHostName(nullable(s, |s| s.u32()), s.string()),
        _ => q::Relay::MultiHostName(s.string()),
    }
}

pub fn pool_params(s: &mut Src) -> q::PoolParams {
    q::PoolParams {
        operator: bytes(s),
        vrf_keyhash: bytes(s),
        pledge: coin(s),
        cost: coin(s),
        margin: rational(s),
        reward_account: bytes(s),
        pool_owners: tset(s, 3, bytes),
        relays: vecn(s, 3, relay),
        pool_metadata: match s.pick(2) {
            0 => Nullable::Null,
            _ => Nullable::Some(q::PoolMetadata { url: s.string(), hash: bytes(s) }),
        },
    }
}

pub fn pool_params_map(s: &mut Src) -> BTreeMap<Bytes, q::PoolParams> {
    vecn(s, 3, |s| (bytes(s), pool_params(s))).into_iter().collect()
}

/// `PState` (private fields): encoded as the 4-tuple it is on the wire
pub fn pstate_bytes(s: &mut Src) -> Vec<u8> {
    let a = pool_params_map(s);
    let b = pool_params_map(s);
    let c: BTreeMap<Bytes, u32> = vecn(s, 3, |s| (bytes(s), s.u32())).into_iter().collect();
    let d: BTreeMap<Bytes, q::Coin> = vecn(s, 3, |s| (bytes(s), coin(s))).into_iter().collect();
    enc(&(a, b, c, d))
}

/// `PoolDistr` (private fields): map pool -> (stake, vrf)
pub fn pool_distr_bytes(s: &mut Src) -> Vec<u8> {
    let m: BTreeMap<Bytes, (q::RationalNumber, Bytes)> = vecn(s, 4, |s| (bytes(s), (rational(s), bytes(s)))).into_iter().collect();
    enc(&m)
}

pub fn committee(s: &mut Src) -> q::Committee {
    q::Committee { members: vecn(s, 3, |s| (stake_addr(s), s.u64())).into_iter().collect(), threshold: rational(s) }
}

pub fn constitution(s: &mut Src) -> q::Constitution {
    q::Constitution { anchor: anchor(s), script: opt(s, h28) }
}

pub fn vote(s: &mut Src) -> q::Vote {
    match s.pick(3) {
        0 => q::Vote::No,
        1 => q::Vote::Yes,
        _ => q::Vote::Abstain,
    }
}

pub fn gov_action_state(s: &mut Src) -> q::GovActionState {
    q::GovActionState {
        id: gov_action_id(s),
        committee_votes: vecn(s, 2, |s| (stake_addr(s), vote(s))).into_iter().collect(),
        drep_votes: vecn(s, 2, |s| (stake_addr(s), vote(s))).into_iter().collect(),
        stake_pool_votes: vecn(s, 2, |s| (bytes(s), vote(s))).into_iter().collect(),
        proposal_procedure: proposal(s),
        proposed_in: s.u64(),
        expires_after: s.u64(),
    }
}

pub fn future_pparams(s: &mut Src) -> q::FuturePParams {
    match s.pick(3) {
        0 => q::FuturePParams::NoPParamsUpdate,
        1 => q::FuturePParams::DefinitePParamsUpdate(pparams_update(s)),
        _ => q::FuturePParams::PotentialPParamsUpdate(smaybe(s, pparams_update)),
    }
}

pub fn gov_state(s: &mut Src) -> q::GovState {
    q::GovState {
        proposals: AnyCbor::from_raw_bytes(s.cbor()),
        committee: smaybe(s, committee),
        constitution: constitution(s),
        cur_pparams: protocol_param(s),
        prev_pparams: protocol_param(s),
        future_pparams: future_pparams(s),
        drep_pulsing_state: AnyCbor::from_raw_bytes(s.cbor()),
    }
}

pub fn ratify_state(s: &mut Src) -> q::RatifyState {
    q::RatifyState {
        enact_state: q::EnactState {
            committee: smaybe(s, committee),
            constitution: constitution(s),
            cur_pparams: protocol_param(s),
            prev_pparams: protocol_param(s),
            treasury: coin(s),
            withdrawals: vecn(s, 2, |s| (stake_addr(s), coin(s))).into_iter().collect(),
            prev_gov_action_ids: q::GovRelation {
                pparam_update: smaybe(s, gov_action_id),
                hard_fork: smaybe(s, gov_action_id),
                committee: smaybe(s, gov_action_id),
                constitution: smaybe(s, gov_action_id),
            },
        },
        enacted: vecn(s, 2, gov_action_state),
        expired: tset(s, 2, gov_action_id),
        delayed: s.bool(),
    }
}

pub fn committee_members_state(s: &mut Src) -> q::CommitteeMembersState {
    let member = |s: &mut Src| q::CommitteeMemberState {
        hot_cred_auth_status: match s.pick(3) {
            0 => q::HotCredAuthStatus::MemberAuthorized(stake_addr(s)),
            1 => q::HotCredAuthStatus::MemberNotAuthorized,
            _ => q::HotCredAuthStatus::MemberResigned(smaybe(s, anchor)),
        },
        status: match s.pick(3) {
            0 => q::MemberStatus::Active,
            1 => q::MemberStatus::Expired,
            _ => q::MemberStatus::Unrecognized,
        },
        expiration: smaybe(s, |s| s.u64()),
        next_epoch_change: match s.pick(5) {
            0 => q::NextEpochChange::ToBeEnacted,
            1 => q::NextEpochChange::ToBeRemoved,
            2 => q::NextEpochChange::NoChangeExpected,
            3 => q::NextEpochChange::ToBeExpired,
            _ => q::NextEpochChange::TermAdjusted(s.u64()),
        },
    };
    q::CommitteeMembersState {
        committee: vecn(s, 3, |s| (stake_addr(s), member(s))).into_iter().collect(),
        threshold: smaybe(s, rational),
        epoch: s.u64(),
    }
}

pub fn non_myopic(s: &mut Src) -> q::NonMyopicMemberRewards {
    vecn(s, 3, |s| {
        let k = if s.bool() { q::Either::Left(coin(s)) } else { q::Either::Right(stake_addr(s)) };
        let v: BTreeMap<Bytes, q::Coin> = vecn(s, 2, |s| (bytes(s), coin(s))).into_iter().collect();
        (k, v)
    })
    .into_iter()
    .collect()
}

pub fn proposed_pp_updates(s: &mut Src) -> q::ProposedPPUpdates {
    vecn(s, 3, |s| (bytes(s), pparams_update(s))).into_iter().collect()
}

pub fn drep_state(s: &mut Src) -> q::DRepState {
    q::DRepState { expiry: s.u64(), anchor: smaybe(s, anchor), deposit: coin(s), delegs: tset(s, 3, stake_addr) }
}

pub fn smaybe_pp(s: &mut Src) -> SMaybe<q::ProtocolParam> {
    smaybe(s, protocol_param)
}

// ---- small parts of both stacks -------------------------------------------------------------

pub fn n1_point(s: &mut Src) -> n1::Point {
    if s.sel() < 0x3000 {
        n1::Point::Origin
    } else {
        n1::Point::Specific(s.u64(), s.short())
    }
}

pub fn n2_point(s: &mut Src) -> n2::Point {
    if s.sel() < 0x3000 {
        n2::Point::Origin
    } else {
        n2::Point::Specific(s.u64(), s.short())
    }
}

pub fn n1_header_content(s: &mut Src) -> n1::chainsync::HeaderContent {
    if s.bool() {
        n1::chainsync::HeaderContent { variant: 0, byron_prefix: Some((s.u8(), s.u64())), cbor: s.bytes() }
    } else {
        n1::chainsync::HeaderContent { variant: s.u8().max(1), byron_prefix: None, cbor: s.bytes() }
    }
}

pub fn n2_header_content(s: &mut Src) -> n2::chainsync::HeaderContent {
    if s.bool() {
        n2::chainsync::HeaderContent { variant: 0, byron_prefix: Some((s.u8(), s.u64())), cbor: s.bytes() }
    } else {
        n2::chainsync::HeaderContent { variant: s.u8().max(1), byron_prefix: None, cbor: s.bytes() }
    }
}

pub fn n1_refuse(s: &mut Src) -> n1::handshake::RefuseReason {
    use n1::handshake::RefuseReason as R;
    match s.pick(3) {
        0 => R::VersionMismatch(vecn(s, 8, |s| s.u64())),
        1 => R::HandshakeDecodeError(s.u64(), s.string()),
        _ => R::Refused(s.u64(), s.string()),
    }
}

pub fn n2_refuse(s: &mut Src) -> n2::handshake::RefuseReason {
    use n2::handshake::RefuseReason as R;
    match s.pick(3) {
        0 => R::VersionMismatch(vecn(s, 8, |s| s.u64())),
        1 => R::HandshakeDecodeError(s.u64(), s.string()),
        _ => R::Refused(s.u64(), s.string()),
    }
}

pub fn n1_peer(s: &mut Src) -> n1::peersharing::PeerAddress {
    use n1::peersharing::PeerAddress as A;
    if s.bool() {
        A::V4(std::net::Ipv4Addr::from(s.u32()), s.u32())
    } else {
        A::V6(std::net::Ipv6Addr::from(s.arr::<16>()), s.u32())
    }
}

pub fn n2_peer(s: &mut Src) -> n2::peersharing::PeerAddress {
    use n2::peersharing::PeerAddress as A;
    if s.bool() {
        A::V4(std::net::Ipv4Addr::from(s.u32()), s.u16())
    } else {
        A::V6(std::net::Ipv6Addr::from(s.arr::<16>()), s.u16())
    }
}
