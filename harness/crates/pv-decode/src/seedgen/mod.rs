//! Generator of valid mini-protocol messages of both stacks (every variant of every message type),
//! copied from the C22 group (`pv-msg`): a plain-data recipe is turned into a pallas value by the
//! `Wire::build` of the message type. C09 uses the encodings as *seeds* for damage.
pub mod msgs;
pub mod payloads;
pub mod src;
pub mod extra;
