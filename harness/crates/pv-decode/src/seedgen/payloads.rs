#![allow(dead_code)]
//! Builders for the typed payloads carried inside net1 node-to-client messages: local-state queries
//! and results (`queries_v16`) and the local-tx-submission rejection tree. Every value that has its
//! own hand-written or derived codec is registered as a *part* (`Src::part`) so that it is checked
//! on its own, innermost first.
use std::collections::{BTreeMap, BTreeSet};

use pallas_codec::utils::{
    AnyUInt, Bytes, CborWrap, Int, KeyValuePairs, MaybeIndefArray, NonEmptyKeyValuePairs, Nullable, Set, TagWrap,
};
use pallas_primitives::Hash;
use pallas_network::miniprotocols as n1;
use pallas_network::miniprotocols::localstate::queries_v16 as q;
use pallas_network::miniprotocols::localtxsubmission as ltx;
use pallas_network::miniprotocols::localtxsubmission::primitives as prim;
use pallas_network::miniprotocols::localtxsubmission::SMaybe;

use crate::seedgen::src::Src;

const F_Q: &str = "net1/localstate-query";
const F_R: &str = "net1/localstate-result";
const F_L: &str = "net1/localtx-reject";

// ---------- leaf helpers ----------

/// AnyUInt in a representable form (the variant determines the head width; `MajorByte` only holds
/// 0..=23, `U8` only 24..=255 — smaller values would not round-trip as the same variant, which is
/// the subject of C03, not of C22).
pub fn coin(s: &mut Src) -> AnyUInt {
    let v = s.u64();
    match s.pick(5) {
        0 => AnyUInt::MajorByte((v % 24) as u8),
        1 => AnyUInt::U8(24 + (v % 232) as u8),
        2 => AnyUInt::U16(v as u16),
        3 => AnyUInt::U32(v as u32),
        _ => AnyUInt::U64(v),
    }
}
pub fn bytes(s: &mut Src) -> Bytes {
    Bytes::from(s.short())
}
pub fn h28(s: &mut Src) -> Hash<28> {
    Hash::from(s.arr::<28>())
}
pub fn h32(s: &mut Src) -> Hash<32> {
    Hash::from(s.arr::<32>())
}
pub fn rational(s: &mut Src) -> q::RationalNumber {
    q::RationalNumber { numerator: s.u64(), denominator: s.u64() }
}
pub fn smaybe<T>(s: &mut Src, f: impl FnOnce(&mut Src) -> T) -> SMaybe<T> {
    if s.bool() {
        SMaybe::Some(f(s))
    } else {
        SMaybe::None
    }
}
pub fn opt<T>(s: &mut Src, f: impl FnOnce(&mut Src) -> T) -> Option<T> {
    if s.bool() {
        Some(f(s))
    } else {
        None
    }
}
pub fn nullable<T: Clone>(s: &mut Src, f: impl FnOnce(&mut Src) -> T) -> Nullable<T> {
    if s.bool() {
        Nullable::Some(f(s))
    } else {
        Nullable::Null
    }
}
pub fn vecn<T>(s: &mut Src, max: usize, mut f: impl FnMut(&mut Src) -> T) -> Vec<T> {
    let n = s.len(max);
    (0..n).map(|_| f(s)).collect()
}
pub fn tset<T: Ord>(s: &mut Src, max: usize, f: impl FnMut(&mut Src) -> T) -> q::TaggedSet<T> {
    let v = vecn(s, max, f);
    TagWrap::new(v.into_iter().collect::<BTreeSet<T>>())
}
pub fn set<T>(s: &mut Src, max: usize, f: impl FnMut(&mut Src) -> T) -> Set<T> {
    Set::from(vecn(s, max, f))
}
pub fn stake_addr(s: &mut Src) -> q::StakeAddr {
    q::StakeAddr::from((s.pick(2) as u8, bytes(s)))
}
pub fn anchor(s: &mut Src) -> q::Anchor {
    q::Anchor { url: s.string(), data_hash: bytes(s) }
}
pub fn gov_action_id(s: &mut Src) -> q::GovActionId {
    q::GovActionId { tx_id: h32(s), gov_action_ix: s.u32() }
}
pub fn tx_in(s: &mut Src) -> q::TransactionInput {
    q::TransactionInput { transaction_id: h32(s), index: s.u64() }
}
pub fn drep(s: &mut Src) -> q::DRep {
    let d = match s.pick(4) {
        0 => q::DRep::KeyHash(bytes(s)),
        1 => q::DRep::ScriptHash(bytes(s)),
        2 => q::DRep::AlwaysAbstain,
        _ => q::DRep::AlwaysNoConfidence,
    };
    s.part("net1/DRep", &d);
    d
}
pub fn stake_cred(s: &mut Src) -> prim::StakeCredential {
    if s.bool() {
        prim::StakeCredential::ScriptHash(h28(s))
    } else {
        prim::StakeCredential::AddrKeyhash(h28(s))
    }
}
pub fn credential(s: &mut Src) -> prim::Credential {
    if s.bool() {
        prim::Credential::ScriptHashObj(h28(s))
    } else {
        prim::Credential::KeyHashObj(h28(s))
    }
}
pub fn network(s: &mut Src) -> ltx::Network {
    if s.bool() {
        ltx::Network::Mainnet
    } else {
        ltx::Network::Testnet
    }
}
pub fn dcoin(s: &mut Src) -> ltx::DisplayCoin {
    ltx::DisplayCoin(coin(s))
}
pub fn keyhash(s: &mut Src) -> ltx::KeyHash {
    ltx::KeyHash(bytes(s))
}
pub fn reward_acct(s: &mut Src) -> ltx::DisplayRewardAccount {
    ltx::DisplayRewardAccount(bytes(s))
}

pub fn multiasset(s: &mut Src) -> q::Multiasset<q::Coin> {
    let n = 1 + s.len(2);
    let mut outer = vec![];
    for _ in 0..n {
        let m = 1 + s.len(2);
        let inner: Vec<(Bytes, AnyUInt)> = (0..m).map(|_| (bytes(s), coin(s))).collect();
        outer.push((h28(s), NonEmptyKeyValuePairs::Def(inner)));
    }
    NonEmptyKeyValuePairs::Def(outer)
}
pub fn value(s: &mut Src) -> q::Value {
    let v = if s.bool() { q::Value::Coin(coin(s)) } else { q::Value::Multiasset(coin(s), multiasset(s)) };
    s.part("net1/Value", &v);
    v
}

pub fn plutus_data(s: &mut Src, depth: usize) -> q::PlutusData {
    let k = if depth == 0 { s.pick(2) } else { s.pick(5) };
    let d = match k {
        0 => q::PlutusData::BigInt(match s.pick(3) {
            0 => q::BigInt::Int(Int::from(s.i64())),
            1 => q::BigInt::BigUInt(q::BoundedBytes::from(s.short())),
            _ => q::BigInt::BigNInt(q::BoundedBytes::from(s.short())),
        }),
        1 => q::PlutusData::BoundedBytes(q::BoundedBytes::from(if s.bool() { s.short() } else { s.bytes_n(130) })),
        2 => {
            let items = vecn(s, 3, |s| plutus_data(s, depth - 1));
            q::PlutusData::Array(if s.bool() { MaybeIndefArray::Def(items) } else { MaybeIndefArray::Indef(items) })
        }
        3 => {
            let items = vecn(s, 2, |s| (plutus_data(s, 0), plutus_data(s, depth - 1)));
            q::PlutusData::Map(KeyValuePairs::Def(items))
        }
        _ => {
            let fields = vecn(s, 3, |s| plutus_data(s, depth - 1));
            let fields = if s.bool() { MaybeIndefArray::Def(fields) } else { MaybeIndefArray::Indef(fields) };
            match s.pick(3) {
                0 => q::PlutusData::Constr(q::Constr { tag: 121 + (s.u64() % 7), any_constructor: None, fields }),
                1 => q::PlutusData::Constr(q::Constr { tag: 1280 + (s.u64() % 121), any_constructor: None, fields }),
                _ => q::PlutusData::Constr(q::Constr { tag: 102, any_constructor: Some(s.u64()), fields }),
            }
        }
    };
    d
}

pub fn native_script(s: &mut Src, depth: usize) -> prim::NativeScript {
    let k = if depth == 0 { [0usize, 4, 5][s.pick(3)] } else { s.pick(6) };
    match k {
        0 => prim::NativeScript::ScriptPubkey(h28(s)),
        1 => prim::NativeScript::ScriptAll(vecn(s, 2, |s| native_script(s, depth - 1))),
        2 => prim::NativeScript::ScriptAny(vecn(s, 2, |s| native_script(s, depth - 1))),
        3 => prim::NativeScript::ScriptNOfK(s.u32(), vecn(s, 2, |s| native_script(s, depth - 1))),
        4 => prim::NativeScript::InvalidBefore(s.u64()),
        _ => prim::NativeScript::InvalidHereafter(s.u64()),
    }
}

pub fn script_ref(s: &mut Src) -> prim::ScriptRef {
    let r = match s.pick(4) {
        0 => prim::PseudoScript::NativeScript(native_script(s, 2)),
        1 => prim::PseudoScript::PlutusV1Script(prim::PlutusScript::<1>(bytes(s))),
        2 => prim::PseudoScript::PlutusV2Script(prim::PlutusScript::<2>(bytes(s))),
        _ => prim::PseudoScript::PlutusV3Script(prim::PlutusScript::<3>(bytes(s))),
    };
    s.part("net1/ScriptRef", &r);
    r
}

pub fn tx_out(s: &mut Src) -> q::TransactionOutput {
    let o = if s.bool() {
        q::TransactionOutput::Legacy(q::LegacyTransactionOutput {
            address: bytes(s),
            amount: value(s),
            datum_hash: opt(s, h32),
        })
    } else {
        let inline_datum = opt(s, |s| {
            let d = if s.bool() {
                q::DatumOption::Hash(h32(s))
            } else {
                let pd = plutus_data(s, 2);
                s.part("net1/PlutusData", &pd);
                q::DatumOption::Data(CborWrap(pd))
            };
            s.part("net1/DatumOption", &d);
            d
        });
        q::TransactionOutput::Current(q::PostAlonsoTransactionOutput {
            address: bytes(s),
            amount: value(s),
            inline_datum,
            script_ref: opt(s, |s| CborWrap(script_ref(s))),
        })
    };
    s.part("net1/TransactionOutput", &o);
    o
}

// ---------- local-state queries ----------

pub const BLOCK_QUERIES: [&str; 39] = [
    "GetLedgerTip",
    "GetEpochNo",
    "GetNonMyopicMemberRewards",
    "GetCurrentPParams",
    "GetProposedPParamsUpdates",
    "GetStakeDistribution",
    "GetUTxOByAddress",
    "GetUTxOWhole",
    "DebugEpochState",
    "GetCBOR",
    "GetFilteredDelegationsAndRewardAccounts",
    "GetGenesisConfig",
    "DebugNewEpochState",
    "DebugChainDepState",
    "GetRewardProvenance",
    "GetUTxOByTxIn",
    "GetStakePools",
    "GetStakePoolParams",
    "GetRewardInfoPools",
    "GetPoolState",
    "GetStakeSnapshots",
    "GetPoolDistr",
    "GetStakeDelegDeposits",
    "GetConstitution",
    "GetGovState",
    "GetDRepState",
    "GetDRepStakeDistr",
    "GetCommitteeMembersState",
    "GetFilteredVoteDelegatees",
    "GetAccountState",
    "GetSPOStakeDistr",
    "GetProposals",
    "GetRatifyState",
    "GetFuturePParams",
    "GetBigLedgerPeerSnapshot",
    "GetLedgerPeerSnapshot",
    "GetPoolDistr2",
    "GetStakeDistribution2",
    "GetDRepsDelegations",
];

pub fn pools(s: &mut Src) -> q::Pools {
    tset(s, 3, bytes)
}

pub fn block_query(s: &mut Src, k: usize, depth: usize) -> q::BlockQuery {
    use q::BlockQuery as B;
    match k {
        0 => B::GetLedgerTip,
        1 => B::GetEpochNo,
        2 => B::GetNonMyopicMemberRewards(tset(s, 3, |s| {
            if s.bool() {
                q::Either::Left(coin(s))
            } else {
                q::Either::Right(stake_addr(s))
            }
        })),
        3 => B::GetCurrentPParams,
        4 => B::GetProposedPParamsUpdates,
        5 => B::GetStakeDistribution,
        6 => B::GetUTxOByAddress(vecn(s, 3, bytes)),
        7 => B::GetUTxOWhole,
        8 => B::DebugEpochState,
        9 => {
            let inner = if depth == 0 { B::GetEpochNo } else { let k = s.pick(BLOCK_QUERIES.len()); block_query(s, k, depth - 1) };
            B::GetCBOR(Box::new(inner))
        }
        10 => B::GetFilteredDelegationsAndRewardAccounts(vecn(s, 3, stake_addr).into_iter().collect()),
        11 => B::GetGenesisConfig,
        12 => B::DebugNewEpochState,
        13 => B::DebugChainDepState,
        14 => B::GetRewardProvenance,
        15 => B::GetUTxOByTxIn(vecn(s, 3, tx_in).into_iter().collect()),
        16 => B::GetStakePools,
        17 => B::GetStakePoolParams(pools(s)),
        18 => B::GetRewardInfoPools,
        19 => B::GetPoolState(smaybe(s, pools)),
        20 => B::GetStakeSnapshots(smaybe(s, pools)),
        21 => B::GetPoolDistr(smaybe(s, pools)),
        22 => B::GetStakeDelegDeposits(tset(s, 3, stake_addr)),
        23 => B::GetConstitution,
        24 => B::GetGovState,
        25 => B::GetDRepState(tset(s, 3, stake_addr)),
        26 => B::GetDRepStakeDistr(tset(s, 3, drep)),
        27 => B::GetCommitteeMembersState(
            tset(s, 2, stake_addr),
            tset(s, 2, stake_addr),
            tset(s, 3, |s| [q::MemberStatus::Active, q::MemberStatus::Expired, q::MemberStatus::Unrecognized][s.pick(3)].clone()),
        ),
        28 => B::GetFilteredVoteDelegatees(vecn(s, 3, stake_addr).into_iter().collect()),
        29 => B::GetAccountState,
        30 => B::GetSPOStakeDistr(pools(s)),
        31 => B::GetProposals(tset(s, 3, gov_action_id)),
        32 => B::GetRatifyState,
        33 => B::GetFuturePParams,
        34 => B::GetBigLedgerPeerSnapshot,
        35 => B::GetLedgerPeerSnapshot(if s.bool() { q::LedgerPeerSnapshotKind::All } else { q::LedgerPeerSnapshotKind::Big }),
        36 => B::GetPoolDistr2(smaybe(s, pools)),
        37 => B::GetStakeDistribution2,
        _ => B::GetDRepsDelegations(tset(s, 3, drep)),
    }
}

/// A typed local-state request (all variants), registered as a part.
pub fn request(s: &mut Src) -> q::Request {
    let r = match s.pick(8) {
        0 => q::Request::GetSystemStart,
        1 => q::Request::GetChainBlockNo,
        2 => q::Request::GetChainPoint,
        3 => q::Request::LedgerQuery(q::LedgerQuery::HardForkQuery(if s.bool() {
            q::HardForkQuery::GetInterpreter
        } else {
            q::HardForkQuery::GetCurrentEra
        })),
        _ => {
            let k = s.pick(BLOCK_QUERIES.len());
            s.feature(format!("query:{}", BLOCK_QUERIES[k]));
            let bq = block_query(s, k, 2);
            s.part_dbg(F_Q, &bq);
            q::Request::LedgerQuery(q::LedgerQuery::BlockQuery(s.u16(), bq))
        }
    };
    s.part_dbg("net1/localstate-request", &r);
    r
}

// ---------- local-state results ----------

pub fn big_int(s: &mut Src) -> q::BigInt {
    match s.pick(3) {
        0 => q::BigInt::Int(Int::from(s.i64())),
        1 => q::BigInt::BigUInt(q::BoundedBytes::from(s.short())),
        _ => q::BigInt::BigNInt(q::BoundedBytes::from(s.short())),
    }
}

pub fn system_start(s: &mut Src) -> q::SystemStart {
    q::SystemStart { year: big_int(s), day_of_year: s.i64(), picoseconds_of_day: big_int(s) }
}

pub fn pparams_update(s: &mut Src) -> q::PParamsUpdate {
    q::PParamsUpdate {
        minfee_a: opt(s, |s| s.u64()),
        minfee_b: opt(s, |s| s.u64()),
        max_block_body_size: None,
        max_transaction_size: opt(s, |s| s.u64()),
        max_block_header_size: None,
        key_deposit: opt(s, coin),
        pool_deposit: None,
        maximum_epoch: opt(s, |s| s.u64()),
        desired_number_of_stake_pools: None,
        pool_pledge_influence: opt(s, rational),
        expansion_rate: None,
        treasury_growth_rate: opt(s, rational),
        min_pool_cost: None,
        ada_per_utxo_byte: opt(s, coin),
        cost_models_for_script_languages: opt(s, |s| q::CostModels {
            plutus_v1: opt(s, |s| vecn(s, 3, |s| s.i64())),
            plutus_v2: None,
            plutus_v3: opt(s, |s| vecn(s, 3, |s| s.i64())),
            unknown: KeyValuePairs::Def(vec![]),
        }),
        execution_costs: opt(s, |s| q::ExUnitPrices { mem_price: rational(s), step_price: rational(s) }),
        max_tx_ex_units: opt(s, |s| q::ExUnits { mem: s.u64(), steps: s.u64() }),
        max_block_ex_units: None,
        max_value_size: None,
        collateral_percentage: opt(s, |s| s.u64()),
        max_collateral_inputs: None,
        pool_voting_thresholds: opt(s, |s| q::PoolVotingThresholds {
            motion_no_confidence: rational(s),
            committee_normal: rational(s),
            committee_no_confidence: rational(s),
            hard_fork_initiation: rational(s),
            pp_security_group: rational(s),
        }),
        drep_voting_thresholds: None,
        min_committee_size: opt(s, |s| s.u64()),
        committee_term_limit: None,
        governance_action_validity_period: None,
        governance_action_deposit: opt(s, coin),
        drep_deposit: None,
        drep_inactivity_period: opt(s, |s| s.u64()),
        minfee_refscript_cost_per_byte: opt(s, rational),
    }
}

pub const RESULTS: [&str; 12] = [
    "SystemStart",
    "ChainBlockNumber",
    "ChainPoint",
    "Era",
    "GenesisConfig",
    "StakeDistribution",
    "FilteredDelegsRewards",
    "StakeSnapshots",
    "UTxOByAddress",
    "AccountState",
    "Constitution",
    "DRepState",
];

/// Encoded bytes of a typed local-state result (the typed value is checked as a part).
pub fn result_bytes(s: &mut Src) -> Vec<u8> {
    use pallas_codec::minicbor::to_vec;
    let k = s.pick(RESULTS.len());
    s.feature(format!("result:{}", RESULTS[k]));
    macro_rules! done {
        ($v:expr) => {{
            let v = $v;
            s.part(F_R, &v);
            to_vec(&v).unwrap_or_default()
        }};
    }
    match k {
        0 => done!(system_start(s)),
        1 => done!(q::ChainBlockNumber { slot_timeline: s.u32(), block_number: s.u32() }),
        2 => {
            let p = if s.bool() { n1::Point::Origin } else { n1::Point::Specific(s.u64(), s.short()) };
            s.part("net1/Point", &p);
            to_vec(&p).unwrap_or_default()
        }
        3 => to_vec(s.u16()).unwrap_or_default(),
        4 => done!(q::GenesisConfig {
            system_start: system_start(s),
            network_magic: s.u32(),
            network_id: s.u32(),
            active_slots_coefficient: q::Fraction { num: s.u64(), den: s.u64() },
            security_param: s.u32(),
            epoch_length: s.u32(),
            slots_per_kes_period: s.u32(),
            max_kes_evolutions: s.u32(),
            slot_length: s.u32(),
            update_quorum: s.u32(),
            max_lovelace_supply: coin(s),
        }),
        5 => {
            let items = vecn(s, 3, |s| (bytes(s), q::Pool { stakes: rational(s), hashes: bytes(s) }));
            let v: q::StakeDistribution = if s.bool() { KeyValuePairs::Def(items) } else { KeyValuePairs::Indef(items) };
            s.part(F_R, &v);
            to_vec(&v).unwrap_or_default()
        }
        6 => done!(q::FilteredDelegsRewards {
            delegs: KeyValuePairs::Def(vecn(s, 3, |s| (stake_addr(s), bytes(s)))),
            rewards: KeyValuePairs::Def(vecn(s, 3, |s| (stake_addr(s), s.u64()))),
        }),
        7 => done!(q::StakeSnapshots {
            stake_snapshots: KeyValuePairs::Def(vecn(s, 3, |s| (
                bytes(s),
                q::Stakes { snapshot_mark_pool: s.u64(), snapshot_set_pool: s.u64(), snapshot_go_pool: s.u64() }
            ))),
            snapshot_stake_mark_total: s.u64(),
            snapshot_stake_set_total: s.u64(),
            snapshot_stake_go_total: s.u64(),
        }),
        8 => {
            let items = vecn(s, 3, |s| (q::UTxO { transaction_id: h32(s), index: coin(s) }, tx_out(s)));
            let v: q::UTxOByAddress = KeyValuePairs::Def(items);
            s.part(F_R, &v);
            to_vec(&v).unwrap_or_default()
        }
        9 => done!(q::AccountState { treasury: coin(s), reserves: coin(s) }),
        10 => done!(q::Constitution { anchor: anchor(s), script: opt(s, h28) }),
        _ => done!(q::DRepState {
            expiry: s.u64(),
            anchor: smaybe(s, anchor),
            deposit: coin(s),
            delegs: tset(s, 3, stake_addr),
        }),
    }
}

// ---------- local-tx-submission rejection tree ----------

pub fn certificate(s: &mut Src) -> prim::Certificate {
    use prim::Certificate as C;
    let c = match s.pick(17) {
        0 => C::StakeRegistration(stake_cred(s)),
        1 => C::StakeDeregistration(stake_cred(s)),
        2 => C::StakeDelegation(stake_cred(s), h28(s)),
        3 => C::PoolRegistration {
            operator: h28(s),
            vrf_keyhash: h32(s),
            pledge: coin(s),
            cost: coin(s),
            margin: rational(s),
            reward_account: bytes(s),
            pool_owners: set(s, 2, h28),
            relays: vecn(s, 3, |s| match s.pick(3) {
                0 => q::Relay::SingleHostAddr(
                    nullable(s, |s| s.u32()),
                    nullable(s, |s| Bytes::from(s.bytes_n(4))),
                    nullable(s, |s| Bytes::from(s.bytes_n(16))),
                ),
                1 => q::Relay::SingleHostName(nullable(s, |s| s.u32()), s.string()),
                _ => q::Relay::MultiHostName(s.string()),
            }),
            pool_metadata: nullable(s, |s| q::PoolMetadata { url: s.string(), hash: bytes(s) }),
        },
        4 => C::PoolRetirement(h28(s), s.u64()),
        5 => C::Reg(stake_cred(s), coin(s)),
        6 => C::UnReg(stake_cred(s), coin(s)),
        7 => C::VoteDeleg(stake_cred(s), drep(s)),
        8 => C::StakeVoteDeleg(stake_cred(s), h28(s), drep(s)),
        9 => C::StakeRegDeleg(stake_cred(s), h28(s), coin(s)),
        10 => C::VoteRegDeleg(stake_cred(s), drep(s), coin(s)),
        11 => C::StakeVoteRegDeleg(stake_cred(s), h28(s), drep(s), coin(s)),
        12 => C::AuthCommitteeHot(stake_cred(s), stake_cred(s)),
        13 => C::ResignCommitteeCold(stake_cred(s), nullable(s, anchor)),
        14 => C::RegDRepCert(stake_cred(s), coin(s), nullable(s, anchor)),
        15 => C::UnRegDRepCert(stake_cred(s), coin(s)),
        _ => C::UpdateDRepCert(stake_cred(s), nullable(s, anchor)),
    };
    s.part("net1/Certificate", &c);
    c
}

pub fn tx_cert(s: &mut Src) -> ltx::ConwayTxCert {
    use prim::Certificate as C;
    let c = certificate(s);
    // the wrapper is determined by the certificate kind (the decoder derives it from the tag)
    let w = match &c {
        C::StakeRegistration(..) | C::StakeDeregistration(..) | C::StakeDelegation(..) => ltx::ConwayTxCert::Deleg(c),
        C::PoolRegistration { .. } | C::PoolRetirement(..) => ltx::ConwayTxCert::Pool(c),
        C::Reg(..)
        | C::UnReg(..)
        | C::VoteDeleg(..)
        | C::StakeVoteDeleg(..)
        | C::StakeRegDeleg(..)
        | C::VoteRegDeleg(..)
        | C::StakeVoteRegDeleg(..) => ltx::ConwayTxCert::Deleg(c),
        _ => ltx::ConwayTxCert::Gov(c),
    };
    s.part("net1/ConwayTxCert", &w);
    w
}

pub fn voter(s: &mut Src) -> prim::Voter {
    let v = match s.pick(5) {
        0 => prim::Voter::ConstitutionalCommitteeKey(h28(s)),
        1 => prim::Voter::ConstitutionalCommitteeScript(h28(s)),
        2 => prim::Voter::DRepKey(h28(s)),
        3 => prim::Voter::DRepScript(h28(s)),
        _ => prim::Voter::StakePoolKey(h28(s)),
    };
    s.part("net1/Voter", &v);
    v
}

pub fn gov_action(s: &mut Src) -> q::GovAction {
    let a = match s.pick(7) {
        0 => q::GovAction::ParameterChange(opt(s, gov_action_id), pparams_update(s), opt(s, h28)),
        1 => q::GovAction::HardForkInitiation(opt(s, gov_action_id), (s.u64(), s.u64())),
        2 => q::GovAction::TreasuryWithdrawals(KeyValuePairs::Def(vecn(s, 2, |s| (bytes(s), coin(s)))), opt(s, h28)),
        3 => q::GovAction::NoConfidence(opt(s, gov_action_id)),
        4 => q::GovAction::UpdateCommittee(
            opt(s, gov_action_id),
            tset(s, 2, stake_cred),
            vecn(s, 2, |s| (stake_cred(s), s.u64())).into_iter().collect::<BTreeMap<_, _>>(),
            rational(s),
        ),
        5 => q::GovAction::NewConstitution(opt(s, gov_action_id), q::Constitution { anchor: anchor(s), script: opt(s, h28) }),
        _ => q::GovAction::InfoAction,
    };
    s.part("net1/GovAction", &a);
    a
}

pub fn proposal(s: &mut Src) -> q::ProposalProcedure {
    let p = q::ProposalProcedure { deposit: coin(s), return_addr: bytes(s), gov_action: gov_action(s), anchor: anchor(s) };
    s.part("net1/ProposalProcedure", &p);
    p
}

pub fn purpose_item(s: &mut Src) -> ltx::PlutusPurposeItem {
    use ltx::PlutusPurpose as P;
    let p: ltx::PlutusPurposeItem = match s.pick(6) {
        0 => P::Spending(tx_in(s)),
        1 => P::Minting(h28(s)),
        2 => P::Certifying(tx_cert(s)),
        3 => P::Rewarding(reward_acct(s)),
        4 => P::Voting(voter(s)),
        _ => P::Proposing(proposal(s)),
    };
    s.part_fam("net1/PlutusPurpose", &p);
    p
}

pub fn purpose_ix(s: &mut Src) -> ltx::PlutusPurposeIx {
    use ltx::PlutusPurpose as P;
    let v = s.u64();
    let p: ltx::PlutusPurposeIx = match s.pick(6) {
        0 => P::Spending(v),
        1 => P::Minting(v),
        2 => P::Certifying(v),
        3 => P::Rewarding(v),
        4 => P::Voting(v),
        _ => P::Proposing(v),
    };
    s.part_fam("net1/PlutusPurpose", &p);
    p
}

pub fn tx_out_source(s: &mut Src) -> ltx::TxOutSource {
    if s.bool() {
        ltx::TxOutSource::Input(tx_in(s))
    } else {
        ltx::TxOutSource::Output(s.u64())
    }
}

pub fn context_error(s: &mut Src) -> ltx::ConwayContextError {
    use ltx::BabbageContextError as B;
    use ltx::ConwayContextError as C;
    let e = match s.pick(7) {
        0 => {
            let b = match s.pick(7) {
                0 => B::ByronTxOutInContext(tx_out_source(s)),
                1 => B::AlonzoMissingInput(tx_in(s)),
                2 => B::RedeemerPointerPointsToNothing(purpose_ix(s)),
                3 => B::InlineDatumsNotSupported(tx_out_source(s)),
                4 => B::ReferenceScriptsNotSupported(tx_out_source(s)),
                5 => B::ReferenceInputsNotSupported(set(s, 2, tx_in)),
                _ => B::AlonzoTimeTranslationPastHorizon(s.string()),
            };
            s.part("net1/BabbageContextError", &b);
            C::BabbageContextError(b)
        }
        1 => C::CertificateNotSupported(tx_cert(s)),
        2 => C::PlutusPurposeNotSupported(purpose_item(s)),
        3 => C::CurrentTreasuryFieldNotSupported(dcoin(s)),
        4 => {
            let inner = |s: &mut Src| {
                let m = 1 + s.len(1);
                let v: Vec<(q::GovActionId, ltx::VotingProcedure)> = (0..m)
                    .map(|_| {
                        let vp = ltx::VotingProcedure {
                            vote: [q::Vote::No, q::Vote::Yes, q::Vote::Abstain][s.pick(3)].clone(),
                            anchor: nullable(s, anchor),
                        };
                        s.part("net1/VotingProcedure", &vp);
                        (gov_action_id(s), vp)
                    })
                    .collect();
                NonEmptyKeyValuePairs::Def(v)
            };
            let n = 1 + s.len(1);
            let v: Vec<_> = (0..n).map(|_| (voter(s), inner(s))).collect();
            C::VotingProceduresFieldNotSupported(ltx::DisplayVotingProcedures(NonEmptyKeyValuePairs::Def(v)))
        }
        5 => C::ProposalProceduresFieldNotSupported(ltx::DisplayOSet(set(s, 2, proposal))),
        _ => C::TreasuryDonationFieldNotSupported(dcoin(s)),
    };
    s.part("net1/ConwayContextError", &e);
    e
}

pub fn utxos_failure(s: &mut Src) -> ltx::UtxosFailure {
    let f = if s.bool() {
        let d = if s.bool() {
            ltx::TagMismatchDescription::PassedUnexpectedly
        } else {
            ltx::TagMismatchDescription::FailedUnexpectedly(vecn(s, 2, |s| ltx::FailureDescription::PlutusFailure(s.string(), bytes(s))))
        };
        s.part("net1/TagMismatchDescription", &d);
        ltx::UtxosFailure::ValidationTagMismatch(s.bool(), d)
    } else {
        ltx::UtxosFailure::CollectErrors(ltx::Array(vecn(s, 2, |s| {
            let c = match s.pick(4) {
                0 => ltx::CollectError::NoRedeemer(purpose_item(s)),
                1 => ltx::CollectError::NoWitness(ltx::DisplayScriptHash(h28(s))),
                2 => ltx::CollectError::NoCostModel([prim::Language::PlutusV1, prim::Language::PlutusV2, prim::Language::PlutusV3][s.pick(3)].clone()),
                _ => ltx::CollectError::BadTranslation(context_error(s)),
            };
            s.part("net1/CollectError", &c);
            c
        })))
    };
    s.part("net1/UtxosFailure", &f);
    f
}

pub fn utxo_failure(s: &mut Src) -> ltx::UtxoFailure {
    use ltx::UtxoFailure as U;
    let f = match s.pick(23) {
        0 => U::UtxosFailure(utxos_failure(s)),
        1 => U::BadInputsUTxO(set(s, 2, tx_in)),
        2 => U::OutsideValidityIntervalUTxO(
            ltx::ValidityInterval { invalid_before: smaybe(s, |s| s.u64()), invalid_hereafter: smaybe(s, |s| s.u64()) },
            s.u64(),
        ),
        3 => U::MaxTxSizeUTxO(s.i64(), s.i64()),
        4 => U::InputSetEmptyUTxO,
        5 => U::FeeTooSmallUTxO(dcoin(s), dcoin(s)),
        6 => U::ValueNotConservedUTxO(value(s), value(s)),
        7 => U::WrongNetwork(network(s), set(s, 2, |s| ltx::DisplayAddress(bytes(s)))),
        8 => U::WrongNetworkWithdrawal(network(s), set(s, 2, reward_acct)),
        9 => U::OutputTooSmallUTxO(ltx::Array(vecn(s, 2, tx_out))),
        10 => U::OutputBootAddrAttrsTooBig(ltx::Array(vecn(s, 2, tx_out))),
        11 => U::OutputTooBigUTxO(ltx::Array(vecn(s, 2, |s| (s.i64(), s.i64(), tx_out(s))))),
        12 => U::InsufficientCollateral(ltx::DeltaCoin(s.i32()), dcoin(s)),
        13 => {
            let u = ltx::Utxo(ohm(s, 2, |s| (tx_in(s), tx_out(s))));
            s.part("net1/Utxo", &u);
            U::ScriptsNotPaidUTxO(u)
        }
        14 => U::ExUnitsTooBigUTxO(q::ExUnits { mem: s.u64(), steps: s.u64() }, q::ExUnits { mem: s.u64(), steps: s.u64() }),
        15 => U::CollateralContainsNonADA(value(s)),
        16 => U::WrongNetworkInTxBody(network(s), network(s)),
        17 => U::OutsideForecast(s.u64()),
        18 => U::TooManyCollateralInputs(s.u16(), s.u16()),
        19 => U::NoCollateralInputs,
        20 => U::IncorrectTotalCollateralField(ltx::DeltaCoin(s.i32()), dcoin(s)),
        21 => U::BabbageOutputTooSmallUTxO(ltx::Array(vecn(s, 2, |s| (tx_out(s), dcoin(s))))),
        _ => U::BabbageNonDisjointRefInputs(vecn(s, 2, tx_in)),
    };
    s.part("net1/UtxoFailure", &f);
    f
}

/// every `OHashMap` is checked on its own: its codec does not depend on the key/value types
pub fn ohm<K, V>(s: &mut Src, max: usize, f: impl FnMut(&mut Src) -> (K, V)) -> ltx::OHashMap<K, V>
where
    K: pallas_codec::minicbor::Encode<()> + for<'b> pallas_codec::minicbor::Decode<'b, ()> + std::fmt::Debug + PartialEq,
    V: pallas_codec::minicbor::Encode<()> + for<'b> pallas_codec::minicbor::Decode<'b, ()> + std::fmt::Debug + PartialEq,
{
    let m = ltx::OHashMap(vecn(s, max, f));
    s.part_fam("net1/OHashMap", &m);
    m
}

pub fn safe_hash(s: &mut Src) -> ltx::SafeHash {
    ltx::SafeHash(bytes(s))
}

pub fn utxow_failure(s: &mut Src) -> ltx::ConwayUtxoWPredFailure {
    use ltx::ConwayUtxoWPredFailure as W;
    let f = match s.pick(18) {
        0 => W::UtxoFailure(utxo_failure(s)),
        1 => W::InvalidWitnessesUTXOW(ltx::Array(vecn(s, 2, |s| ltx::VKey(bytes(s))))),
        2 => W::MissingVKeyWitnessesUTXOW(set(s, 2, keyhash)),
        3 => W::MissingScriptWitnessesUTXOW(set(s, 2, h28)),
        4 => W::ScriptWitnessNotValidatingUTXOW(set(s, 2, h28)),
        5 => W::MissingTxBodyMetadataHash(bytes(s)),
        6 => W::MissingTxMetadata(bytes(s)),
        7 => W::ConflictingMetadataHash(bytes(s), bytes(s)),
        8 => W::InvalidMetadata(),
        9 => W::ExtraneousScriptWitnessesUTXOW(set(s, 2, h28)),
        10 => W::MissingRedeemers(ltx::Array(vecn(s, 2, |s| (purpose_item(s), h28(s))))),
        11 => W::MissingRequiredDatums(set(s, 2, safe_hash), set(s, 2, safe_hash)),
        12 => W::NotAllowedSupplementalDatums(set(s, 2, safe_hash), set(s, 2, safe_hash)),
        13 => W::PPViewHashesDontMatch(smaybe(s, safe_hash), smaybe(s, safe_hash)),
        14 => W::UnspendableUTxONoDatumHash(set(s, 2, tx_in)),
        15 => W::ExtraRedeemers(ltx::Array(vecn(s, 2, purpose_ix))),
        16 => W::MalformedScriptWitnesses(set(s, 2, h28)),
        _ => W::MalformedReferenceScripts(set(s, 2, h28)),
    };
    s.part("net1/ConwayUtxoWPredFailure", &f);
    f
}

pub fn withdrawals(s: &mut Src) -> ltx::OHashMap<ltx::DisplayRewardAccount, ltx::DisplayCoin> {
    ohm(s, 3, |s| (reward_acct(s), dcoin(s)))
}

pub fn certs_failure(s: &mut Src) -> ltx::ConwayCertsPredFailure {
    use ltx::ConwayCertPredFailure as C;
    let f = if s.sel() < 0x3000 {
        ltx::ConwayCertsPredFailure::WithdrawalsNotInRewardsCERTS(withdrawals(s))
    } else {
        let c = match s.pick(3) {
            0 => {
                use ltx::ConwayDelegPredFailure as D;
                let d = match s.pick(6) {
                    0 => D::IncorrectDepositDELEG(dcoin(s)),
                    1 => D::StakeKeyRegisteredDELEG(credential(s)),
                    2 => D::StakeKeyNotRegisteredDELEG(credential(s)),
                    3 => D::StakeKeyHasNonZeroRewardAccountBalanceDELEG(dcoin(s)),
                    4 => D::DelegateeDRepNotRegisteredDELEG(credential(s)),
                    _ => D::DelegateeStakePoolNotRegisteredDELEG(keyhash(s)),
                };
                s.part("net1/ConwayDelegPredFailure", &d);
                C::DelegFailure(d)
            }
            1 => {
                use ltx::ShelleyPoolPredFailure as P;
                let p = match s.pick(5) {
                    0 => P::StakePoolNotRegisteredOnKeyPOOL(keyhash(s)),
                    1 => {
                        // the decoder reads three epochs (gt_expected, lt_supplied, lt_expected) and uses
                        // lt_supplied as the first element of both pairs: only values of that shape are
                        // representable
                        let supplied = ltx::EpochNo(s.u64());
                        P::StakePoolRetirementWrongEpochPOOL(
                            ltx::Mismatch(supplied.clone(), ltx::EpochNo(s.u64())),
                            ltx::Mismatch(supplied, ltx::EpochNo(s.u64())),
                        )
                    }
                    2 => P::StakePoolCostTooLowPOOL(ltx::Mismatch(dcoin(s), dcoin(s))),
                    3 => P::WrongNetworkPOOL(ltx::Mismatch(network(s), network(s)), keyhash(s)),
                    _ => P::PoolMedataHashTooBig(keyhash(s), s.i64()),
                };
                s.part("net1/ShelleyPoolPredFailure", &p);
                C::PoolFailure(p)
            }
            _ => {
                use ltx::ConwayGovCertPredFailure as G;
                let g = match s.pick(6) {
                    0 => G::DRepAlreadyRegistered(credential(s)),
                    1 => G::DRepNotRegistered(credential(s)),
                    2 => G::DRepIncorrectDeposit(dcoin(s), dcoin(s)),
                    3 => G::CommitteeHasPreviouslyResigned(credential(s)),
                    4 => G::DRepIncorrectRefund(dcoin(s), dcoin(s)),
                    _ => G::CommitteeIsUnknown(credential(s)),
                };
                s.part("net1/ConwayGovCertPredFailure", &g);
                C::GovCertFailure(g)
            }
        };
        s.part("net1/ConwayCertPredFailure", &c);
        ltx::ConwayCertsPredFailure::CertFailure(c)
    };
    s.part("net1/ConwayCertsPredFailure", &f);
    f
}

pub fn gov_failure(s: &mut Src) -> ltx::ConwayGovPredFailure {
    use ltx::ConwayGovPredFailure as G;
    let vg = |s: &mut Src| vecn(s, 2, |s| (voter(s), gov_action_id(s)));
    let f = match s.pick(18) {
        0 => G::GovActionsDoNotExist(vecn(s, 2, gov_action_id)),
        1 => G::MalformedProposal(gov_action(s)),
        2 => G::ProposalProcedureNetworkIdMismatch(reward_acct(s), network(s)),
        3 => G::TreasuryWithdrawalsNetworkIdMismatch(set(s, 2, reward_acct), network(s)),
        4 => G::ProposalDepositIncorrect(dcoin(s), dcoin(s)),
        5 => G::DisallowedVoters(vg(s)),
        6 => G::ConflictingCommitteeUpdate(set(s, 2, credential)),
        7 => G::ExpirationEpochTooSmall(ohm(s, 2, |s| (stake_cred(s), ltx::EpochNo(s.u64())))),
        8 => G::InvalidPrevGovActionId(proposal(s)),
        9 => G::VotingOnExpiredGovAction(vg(s)),
        10 => G::ProposalCantFollow(smaybe(s, gov_action_id), (s.u64(), s.u64()), (s.u64(), s.u64())),
        11 => G::InvalidPolicyHash(smaybe(s, |s| ltx::DisplayScriptHash(h28(s))), smaybe(s, |s| ltx::DisplayScriptHash(h28(s)))),
        12 => G::DisallowedProposalDuringBootstrap(proposal(s)),
        13 => G::DisallowedVotesDuringBootstrap(vg(s)),
        14 => G::VotersDoNotExist(vecn(s, 2, voter)),
        15 => G::ZeroTreasuryWithdrawals(gov_action(s)),
        16 => G::ProposalReturnAccountDoesNotExist(reward_acct(s)),
        _ => G::TreasuryWithdrawalReturnAccountsDoNotExist(vecn(s, 2, reward_acct)),
    };
    s.part("net1/ConwayGovPredFailure", &f);
    f
}

pub fn ledger_failure(s: &mut Src) -> ltx::ConwayLedgerFailure {
    use ltx::ConwayLedgerFailure as L;
    let f = match s.pick(9) {
        0 => L::UtxowFailure(utxow_failure(s)),
        1 => L::CertsFailure(certs_failure(s)),
        2 => L::GovFailure(gov_failure(s)),
        3 => L::WdrlNotDelegatedToDRep(vecn(s, 2, keyhash)),
        4 => L::TreasuryValueMismatch(dcoin(s), dcoin(s)),
        5 => L::TxRefScriptsSizeTooBig(s.i64(), s.i64()),
        6 => L::MempoolFailure(s.string()),
        7 => L::WithdrawalsMissingAccounts(withdrawals(s)),
        _ => L::IncompleteWithdrawals(ohm(s, 2, |s| (reward_acct(s), (dcoin(s), dcoin(s))))),
    };
    s.feature(format!("reject:{}", crate::seedgen::src::dbg_head(&f)));
    s.part(F_L, &f);
    f
}

/// The only variant of `TxValidationError` whose encoder is implemented (the other two are `todo!()`).
pub fn tx_validation_error(s: &mut Src) -> ltx::TxValidationError {
    use ltx::ShelleyBasedEra as E;
    let errs = vecn(s, 3, ledger_failure);
    let error = ltx::ApplyTxError(errs);
    s.part("net1/ApplyTxError", &error);
    let era = [E::Shelley, E::Allegra, E::Mary, E::Alonzo, E::Babbage, E::Conway][s.pick(6)].clone();
    let e = ltx::TxValidationError::ShelleyTxValidationError { error, era };
    s.part("net1/TxValidationError", &e);
    e
}
