//! Seed pool: every corpus artefact, pieces cut out of them with cborx (headers, outputs, addresses),
//! hand-built addresses of every type, and the encodings of valid mini-protocol messages and typed
//! payloads built with the pallas constructors. The pool is a pure function of the repository
//! contents (no session seed), so a case can name its seed.
use std::collections::{BTreeMap, HashMap, HashSet};
use std::sync::OnceLock;

use pallas_codec::minicbor::{self, Encode};
use pvkit::cborx::{self, Kind, Node};
use pvkit::{crc32, splitmix};

use crate::enc;
use crate::seedgen::msgs::{nvariants, proto_name, Wire, ALL_PROTOS};
use crate::seedgen::extra as ex;
use crate::seedgen::payloads as pl;
use crate::seedgen::src::{MsgRecipe, Src};
use crate::targets::{Family, Typed};
use crate::with_proto;

pub struct Seed {
    pub name: String,
    pub family: Family,
    pub bytes: Vec<u8>,
    tree: OnceLock<Option<Node>>,
}

impl Seed {
    fn new(name: String, family: Family, bytes: Vec<u8>) -> Seed {
        Seed { name, family, bytes, tree: OnceLock::new() }
    }
    /// cborx tree of the seed (its first item), parsed once
    pub fn tree(&self) -> Option<&Node> {
        self.tree.get_or_init(|| cborx::read_prefix(&self.bytes).ok().map(|x| x.0)).as_ref()
    }
}

pub struct Pool {
    pub seeds: Vec<Seed>,
    by_name: HashMap<String, usize>,
    by_family: BTreeMap<Family, Vec<usize>>,
    all: Vec<usize>,
    /// seeds small enough to be used as cross-family inputs / donors
    small: Vec<usize>,
    typed_any: Vec<usize>,
}

impl Pool {
    pub fn get(&self, name: &str) -> Option<&Seed> {
        self.by_name.get(name).map(|i| &self.seeds[*i])
    }
    /// indices of the seeds that belong to the family; falls back to all typed seeds (typed
    /// families without a builder) and then to every seed
    pub fn family(&self, f: &Family) -> &[usize] {
        match self.by_family.get(f) {
            Some(v) if !v.is_empty() => v,
            _ => {
                if matches!(f, Family::Typed(_)) && !self.typed_any.is_empty() {
                    &self.typed_any
                } else {
                    &self.all
                }
            }
        }
    }
    pub fn has_family(&self, f: &Family) -> bool {
        self.by_family.get(f).map(|v| !v.is_empty()).unwrap_or(false)
    }
    pub fn small(&self) -> &[usize] {
        &self.small
    }
    pub fn all(&self) -> &[usize] {
        &self.all
    }
}

static POOL: OnceLock<Pool> = OnceLock::new();

pub fn pool() -> &'static Pool {
    POOL.get().expect("seed pool not initialised")
}

fn fixed_recipe(tag: u64, k: u64) -> MsgRecipe {
    if k == 0 {
        return MsgRecipe { variant: 0, ent: vec![], sel: vec![], blob: vec![] };
    }
    let mut x = splitmix(tag ^ splitmix(k));
    let mut next = || {
        x = splitmix(x);
        x
    };
    let edges = [0u64, 1, 23, 24, 255, 256, 65535, 65536, u32::MAX as u64, 1 << 32, i64::MAX as u64, 1 << 63, u64::MAX];
    let ent = (0..20)
        .map(|_| {
            let r = next();
            match r % 4 {
                0 => edges[(r >> 8) as usize % edges.len()],
                1 => (r >> 8) % 300,
                _ => next(),
            }
        })
        .collect();
    let sel = (0..64).map(|_| (next() >> 20) as u16).collect();
    let blob = (0..40).map(|_| (next() >> 24) as u8).collect();
    MsgRecipe { variant: 0, ent, sel, blob }
}

fn build_msg<M: Wire>(variant: usize, r: &MsgRecipe) -> Option<Vec<u8>> {
    pvkit::panics::guarded(|| {
        let mut s = Src::new(r);
        s.big = false;
        let m = M::build(variant, &mut s);
        minicbor::to_vec(&m).ok()
    })
    .ok()
    .flatten()
}

fn variant_name<M: Wire>(v: usize) -> &'static str {
    M::VARIANTS[v.min(M::VARIANTS.len() - 1)]
}

fn enc_part<T: Encode<()>>(f: impl FnOnce(&mut Src) -> T, r: &MsgRecipe) -> Option<Vec<u8>> {
    pvkit::panics::guarded(|| {
        let mut s = Src::new(r);
        s.big = false;
        let v = f(&mut s);
        minicbor::to_vec(&v).ok()
    })
    .ok()
    .flatten()
}

/// hand-built Shelley / stake addresses of every type id and both networks (+ an unknown network)
fn handmade_addresses() -> Vec<(String, Vec<u8>)> {
    let mut out = vec![];
    let h1: Vec<u8> = (1..=28u8).collect();
    let h2: Vec<u8> = (101..=128u8).collect();
    for net in [0u8, 1, 7] {
        for ty in [0u8, 1, 2, 3] {
            let mut b = vec![(ty << 4) | net];
            b.extend(&h1);
            b.extend(&h2);
            out.push((format!("addr:type{ty}-net{net}"), b));
        }
        for ty in [4u8, 5] {
            for ptr in [vec![0u8, 0, 0], vec![0x81, 0x00, 0x7f, 0x01], vec![0xff, 0xff, 0xff, 0xff, 0xff, 0xff, 0xff, 0xff, 0xff, 0x7f, 1, 1]] {
                let mut b = vec![(ty << 4) | net];
                b.extend(&h1);
                b.extend(&ptr);
                out.push((format!("addr:type{ty}-net{net}-ptr{}", ptr.len()), b));
            }
        }
        for ty in [6u8, 7, 14, 15] {
            let mut b = vec![(ty << 4) | net];
            b.extend(&h1);
            out.push((format!("addr:type{ty}-net{net}"), b));
        }
    }
    out
}

fn hrp_for(b: &[u8]) -> &'static str {
    let h = b.first().copied().unwrap_or(0);
    match (h >> 4, h & 15) {
        (14 | 15, 1) => "stake",
        (14 | 15, _) => "stake_test",
        (_, 1) => "addr",
        _ => "addr_test",
    }
}

struct Builder {
    seeds: Vec<Seed>,
    seen: HashSet<(Family, Vec<u8>)>,
}

impl Builder {
    fn add(&mut self, name: String, family: Family, bytes: Vec<u8>) {
        if self.seen.insert((family.clone(), bytes.clone())) {
            self.seeds.push(Seed::new(name, family, bytes));
        }
    }
}

fn child<'a>(n: &'a Node, i: usize) -> Option<&'a Node> {
    n.as_array().and_then(|v| v.get(i))
}

/// outputs (and their addresses) of a transaction node `[body, ...]` of any era
fn cut_outputs(b: &mut Builder, origin: &str, src: &[u8], tx: &Node, cap: usize) {
    let Some(body) = child(tx, 0) else { return };
    let outs: Option<&Vec<Node>> = match &body.k {
        Kind::Map(..) => body.map_get(1).and_then(|o| o.untagged().as_array()),
        // byron: [inputs, outputs, attributes]
        Kind::Array(..) => child(body, 1).and_then(|o| o.as_array()),
        _ => None,
    };
    let Some(outs) = outs else { return };
    for (i, o) in outs.iter().take(cap).enumerate() {
        b.add(format!("output:{origin}#{i}"), Family::Output, o.span(src).to_vec());
        let addr = match &o.k {
            Kind::Array(v, _) => v.first(),
            Kind::Map(..) => o.map_get(0),
            _ => None,
        };
        if let Some(a) = addr {
            if let Some(bytes) = a.as_bytes() {
                b.add(format!("addr:{origin}#{i}"), Family::AddrBytes, bytes.clone());
                b.add(format!("addrhex:{origin}#{i}"), Family::AddrText, hex::encode(&bytes).into_bytes());
                b.add(format!("addrbech:{origin}#{i}"), Family::AddrText, enc::bech32(hrp_for(&bytes), &bytes).into_bytes());
            } else if matches!(a.k, Kind::Array(..)) {
                // byron address = [#6.24(bytes), crc]
                let raw = a.span(src).to_vec();
                b.add(format!("byron:{origin}#{i}"), Family::ByronBytes, raw.clone());
                b.add(format!("addr-byron:{origin}#{i}"), Family::AddrBytes, raw.clone());
                b.add(format!("byron58:{origin}#{i}"), Family::ByronText, enc::base58(&raw).into_bytes());
                b.add(format!("addr58:{origin}#{i}"), Family::AddrText, enc::base58(&raw).into_bytes());
            }
        }
    }
}

pub fn init(with_chunks: bool) {
    POOL.get_or_init(|| {
        let mut b = Builder { seeds: vec![], seen: HashSet::new() };
        // --- corpus artefacts and the pieces cut out of them
        for a in pvkit::corpus::artefacts() {
            let fam = match a.kind.as_str() {
                "block" => Family::Block,
                "tx" => Family::Tx,
                _ => Family::Header,
            };
            b.add(format!("art:{}", a.name), fam.clone(), a.bytes.clone());
            let Ok((tree, _)) = cborx::read_prefix(&a.bytes) else { continue };
            match fam {
                Family::Block => {
                    // [era, [header, bodies...]]
                    if let Some(inner) = child(&tree, 1) {
                        if let Some(h) = child(inner, 0) {
                            b.add(format!("header-of:{}", a.name), Family::Header, h.span(&a.bytes).to_vec());
                        }
                        // alonzo-family blocks: bodies = inner[1]; byron: inner[1] = body = [tx_payload, ...]
                        if let Some(bodies) = child(inner, 1).and_then(|x| x.as_array()) {
                            let byron = !bodies.first().map(|x| matches!(x.k, Kind::Map(..))).unwrap_or(false);
                            for (i, body) in bodies.iter().take(if byron { 1 } else { 3 }).enumerate() {
                                if matches!(body.k, Kind::Map(..)) {
                                    // wrap into a pseudo tx node view: cut outputs straight from the body
                                    let fake = cborx::array(vec![body.clone()]);
                                    // spans inside `body` still refer to a.bytes
                                    cut_outputs(&mut b, &format!("{}/tx{i}", a.name), &a.bytes, &fake, 3);
                                } else if let Some(txs) = body.as_array() {
                                    // byron tx_payload: [[tx, witnesses], ...]
                                    for (j, t) in txs.iter().take(3).enumerate() {
                                        b.add(format!("tx-of:{}#{j}", a.name), Family::Tx, t.span(&a.bytes).to_vec());
                                        cut_outputs(&mut b, &format!("{}/tx{j}", a.name), &a.bytes, t, 3);
                                    }
                                }
                            }
                        }
                    }
                }
                Family::Tx => cut_outputs(&mut b, &a.name, &a.bytes, &tree, 6),
                _ => {}
            }
        }
        for (name, bytes) in handmade_addresses() {
            b.add(format!("hex{name}"), Family::AddrText, hex::encode(&bytes).into_bytes());
            b.add(format!("bech{name}"), Family::AddrText, enc::bech32(hrp_for(&bytes), &bytes).into_bytes());
            b.add(name, Family::AddrBytes, bytes);
        }
        // a hand-built byron address with every attribute kind: [#6.24(h'payload'), crc]
        {
            let payload = cborx::write(&cborx::array(vec![
                cborx::bytes(&[7u8; 28]),
                cborx::map(vec![
                    (cborx::uint(0), cborx::bytes(&cborx::write(&cborx::array(vec![cborx::uint(0), cborx::bytes(&[9u8; 28])])))),
                    (cborx::uint(1), cborx::bytes(&cborx::write(&cborx::bytes(&[1, 2, 3, 4, 5])))),
                    (cborx::uint(2), cborx::bytes(&cborx::write(&cborx::uint(1097911063)))),
                ]),
                cborx::uint(0),
            ]));
            let raw = cborx::write(&cborx::array(vec![
                cborx::tag(24, cborx::bytes(&payload)),
                cborx::uint(crc32::crc32(&payload) as u64),
            ]));
            b.add("byron:handmade".into(), Family::ByronBytes, raw.clone());
            b.add("addr-byron:handmade".into(), Family::AddrBytes, raw.clone());
            b.add("byron58:handmade".into(), Family::ByronText, enc::base58(&raw).into_bytes());
            b.add("addr58:handmade".into(), Family::AddrText, enc::base58(&raw).into_bytes());
        }
        // --- valid messages of every (type, variant): the empty recipe and two fixed ones
        for p in ALL_PROTOS {
            for v in 0..nvariants(p) {
                for k in 0..3u64 {
                    let r = fixed_recipe(crate::pvhash(proto_name(p)) ^ (v as u64) << 32, k);
                    if let Some(bytes) = with_proto!(p, build_msg(v, &r)) {
                        let vn = with_proto!(p, variant_name(v));
                        b.add(format!("msg:{}/{}#{k}", proto_name(p), vn), Family::Msg(p), bytes);
                    }
                }
            }
        }
        // --- typed payloads
        macro_rules! typed {
            ($ty:expr, $n:expr, $f:expr) => {
                for k in 0..($n as u64) {
                    let r = fixed_recipe(crate::pvhash($ty.name()), k);
                    if let Some(bytes) = enc_part($f, &r) {
                        b.add(format!("typed:{}#{k}", $ty.name()), Family::Typed($ty), bytes);
                    }
                }
            };
        }
        typed!(Typed::Request, 12, pl::request);
        for k in 0..pl::BLOCK_QUERIES.len() {
            for j in 0..2u64 {
                let r = fixed_recipe(0xb10c ^ (k as u64) << 8, j);
                if let Some(bytes) = enc_part(|s| pl::block_query(s, k, 2), &r) {
                    b.add(format!("typed:BlockQuery/{}#{j}", pl::BLOCK_QUERIES[k]), Family::Typed(Typed::BlockQuery), bytes.clone());
                    // the same query inside the ledger-query and request wrappers
                    let lq = cborx::write(&cborx::array(vec![
                        cborx::uint(0),
                        cborx::array(vec![cborx::uint(6), cborx::read(&bytes).unwrap_or(cborx::null())]),
                    ]));
                    b.add(format!("typed:LedgerQuery/{}#{j}", pl::BLOCK_QUERIES[k]), Family::Typed(Typed::LedgerQuery), lq.clone());
                    let rq = cborx::write(&cborx::array(vec![cborx::uint(0), cborx::read(&lq).unwrap_or(cborx::null())]));
                    b.add(format!("typed:Request/{}#{j}", pl::BLOCK_QUERIES[k]), Family::Typed(Typed::Request), rq);
                }
            }
        }
        b.add("typed:HardForkQuery#0".into(), Family::Typed(Typed::HardForkQuery), vec![0x81, 0x00]);
        b.add("typed:HardForkQuery#1".into(), Family::Typed(Typed::HardForkQuery), vec![0x81, 0x01]);
        b.add("typed:LedgerQuery/hf#0".into(), Family::Typed(Typed::LedgerQuery), vec![0x82, 0x02, 0x81, 0x01]);
        // results: the builder picks the kind from the first selector
        let result_types = [
            Some(Typed::SystemStart),
            Some(Typed::ChainBlockNumber),
            Some(Typed::Point),
            None,
            Some(Typed::GenesisConfig),
            Some(Typed::StakeDistribution),
            Some(Typed::FilteredDelegsRewards),
            Some(Typed::StakeSnapshots),
            Some(Typed::UTxOByAddress),
            Some(Typed::AccountState),
            Some(Typed::Constitution),
            Some(Typed::DRepState),
        ];
        for (k, ty) in result_types.iter().enumerate() {
            let Some(ty) = ty else { continue };
            for j in 0..4u64 {
                let mut r = fixed_recipe(0x7e5 ^ (k as u64) << 8, j);
                let want = (((k as u32) << 16) / result_types.len() as u32 + 1) as u16;
                if r.sel.is_empty() {
                    r.sel.push(want);
                } else {
                    r.sel[0] = want;
                }
                let bytes = pvkit::panics::guarded(|| {
                    let mut s = Src::new(&r);
                    s.big = false;
                    pl::result_bytes(&mut s)
                })
                .unwrap_or_default();
                if !bytes.is_empty() {
                    b.add(format!("typed:{}#{j}", ty.name()), Family::Typed(*ty), bytes.clone());
                    if *ty == Typed::UTxOByAddress {
                        b.add(format!("typed:UTxOByTxin#{j}"), Family::Typed(Typed::UTxOByTxin), bytes.clone());
                        b.add(format!("typed:UTxOWhole#{j}"), Family::Typed(Typed::UTxOWhole), bytes.clone());
                    }
                    if *ty == Typed::Point {
                        b.add(format!("typed:N2Point#{j}"), Family::Typed(Typed::N2Point), bytes);
                    }
                }
            }
        }
        typed!(Typed::TxValidationError, 24, pl::tx_validation_error);
        typed!(Typed::ConwayLedgerFailure, 24, pl::ledger_failure);
        typed!(Typed::ConwayUtxoWPredFailure, 24, pl::utxow_failure);
        typed!(Typed::UtxoFailure, 24, pl::utxo_failure);
        typed!(Typed::UtxosFailure, 8, pl::utxos_failure);
        typed!(Typed::ConwayCertsPredFailure, 16, pl::certs_failure);
        typed!(Typed::ConwayGovPredFailure, 24, pl::gov_failure);
        typed!(Typed::ConwayContextError, 16, pl::context_error);
        typed!(Typed::ConwayTxCert, 12, pl::tx_cert);
        typed!(Typed::LtxCertificate, 24, pl::certificate);
        typed!(Typed::LtxVoter, 8, pl::voter);
        typed!(Typed::LtxNativeScript, 8, |s: &mut Src| pl::native_script(s, 3));
        typed!(Typed::LtxPlutusData, 12, |s: &mut Src| pl::plutus_data(s, 3));
        typed!(Typed::QTransactionOutput, 12, pl::tx_out);
        typed!(Typed::QValue, 8, pl::value);
        typed!(Typed::QGovAction, 16, pl::gov_action);
        typed!(Typed::QDRep, 6, pl::drep);
        typed!(Typed::QPParamsUpdate, 8, pl::pparams_update);
        typed!(Typed::QCostModels, 6, ex::cost_models);
        typed!(Typed::QRelay, 9, ex::relay);
        typed!(Typed::ProtocolParam, 8, ex::protocol_param);
        typed!(Typed::FutureProtocolParam, 6, ex::smaybe_pp);
        typed!(Typed::PoolParamsMap, 8, ex::pool_params_map);
        typed!(Typed::GovState, 10, ex::gov_state);
        typed!(Typed::RatifyState, 10, ex::ratify_state);
        typed!(Typed::GovActionStates, 8, |s: &mut Src| pl::vecn(s, 3, ex::gov_action_state));
        typed!(Typed::CommitteeMembersState, 10, ex::committee_members_state);
        typed!(Typed::NonMyopicMemberRewards, 8, ex::non_myopic);
        typed!(Typed::ProposedPPUpdates, 8, ex::proposed_pp_updates);
        typed!(Typed::StakeDelegDeposits, 6, |s: &mut Src| pl::vecn(s, 3, |s| (pl::stake_addr(s), pl::coin(s))).into_iter().collect::<std::collections::BTreeMap<_, _>>());
        typed!(Typed::DRepStates, 6, |s: &mut Src| pl::vecn(s, 3, |s| (pl::stake_addr(s), ex::drep_state(s))).into_iter().collect::<std::collections::BTreeMap<_, _>>());
        typed!(Typed::DRepStakeDistr, 6, |s: &mut Src| pl::vecn(s, 3, |s| (pl::drep(s), pl::coin(s))).into_iter().collect::<std::collections::BTreeMap<_, _>>());
        typed!(Typed::VoteDelegatees, 6, |s: &mut Src| pl::vecn(s, 3, |s| (pl::stake_addr(s), pl::drep(s))).into_iter().collect::<std::collections::BTreeMap<_, _>>());
        typed!(Typed::SpoStakeDistr, 6, |s: &mut Src| pl::vecn(s, 3, |s| (pl::bytes(s), pl::coin(s))).into_iter().collect::<std::collections::BTreeMap<_, _>>());
        typed!(Typed::GetCborResult, 6, |s: &mut Src| pl::vecn(s, 3, |s| pallas_codec::utils::TagWrap::<pallas_codec::utils::Bytes, 24>::new(pallas_codec::utils::Bytes::from(s.cbor()))));
        typed!(Typed::LedgerPeerSnapshot, 6, |s: &mut Src| pallas_codec::utils::AnyCbor::from_raw_bytes(s.cbor()));
        typed!(Typed::EraTx, 6, |s: &mut Src| pallas_network::miniprotocols::localtxsubmission::EraTx(s.u16(), s.bytes()));
        typed!(Typed::DmqMsg, 6, crate::seedgen::msgs::dmq_msg);
        typed!(Typed::DmqMsgValidationError, 8, |s: &mut Src| {
            use pallas_network::miniprotocols::localmsgsubmission::{DmqMsgRejectReason as R, DmqMsgValidationError as E};
            E(match s.pick(4) {
                0 => R::Invalid(s.string()),
                1 => R::AlreadyReceived,
                2 => R::Expired,
                _ => R::Other(s.string()),
            })
        });
        typed!(Typed::N1VersionDataN2N, 8, |s: &mut Src| {
            let (a, b) = (s.u64(), s.bool());
            if s.bool() {
                pallas_network::miniprotocols::handshake::n2n::VersionData::new(a, b, Some(s.u8()), Some(s.bool()))
            } else {
                pallas_network::miniprotocols::handshake::n2n::VersionData::new(a, b, None, None)
            }
        });
        typed!(Typed::N2VersionDataN2N, 8, |s: &mut Src| {
            let (a, b) = (s.u64(), s.bool());
            if s.bool() {
                pallas_network2::protocol::handshake::n2n::VersionData::new(a, b, Some(s.u8()), Some(s.bool()))
            } else {
                pallas_network2::protocol::handshake::n2n::VersionData::new(a, b, None, None)
            }
        });
        typed!(Typed::N1VersionDataN2C, 6, |s: &mut Src| {
            let a = s.u64();
            pallas_network::miniprotocols::handshake::n2c::VersionData::new(a, pl::opt(s, |s| s.bool()))
        });
        typed!(Typed::N2VersionDataN2C, 6, |s: &mut Src| {
            let a = s.u64();
            pallas_network2::protocol::handshake::n2c::VersionData::new(a, pl::opt(s, |s| s.bool()))
        });
        typed!(Typed::N1RefuseReason, 8, ex::n1_refuse);
        typed!(Typed::N2RefuseReason, 8, ex::n2_refuse);
        typed!(Typed::N1Tip, 6, |s: &mut Src| pallas_network::miniprotocols::chainsync::Tip(ex::n1_point(s), s.u64()));
        typed!(Typed::N2Tip, 6, |s: &mut Src| pallas_network2::protocol::chainsync::Tip(ex::n2_point(s), s.u64()));
        typed!(Typed::N1HeaderContent, 8, ex::n1_header_content);
        typed!(Typed::N2HeaderContent, 8, ex::n2_header_content);
        typed!(Typed::N1PeerAddress, 8, ex::n1_peer);
        typed!(Typed::N2PeerAddress, 8, ex::n2_peer);
        typed!(Typed::N2Point, 6, ex::n2_point);
        typed!(Typed::N2Bitmaps, 6, |s: &mut Src| pallas_network2::protocol::leiosfetch::Bitmaps(pl::vecn(s, 4, |s| (s.u16(), s.u64())).into_iter().collect()));
        typed!(Typed::ApplyTxError, 12, |s: &mut Src| pallas_network::miniprotocols::localtxsubmission::ApplyTxError(pl::vecn(s, 3, pl::ledger_failure)));
        for k in 0..8u64 {
            let r = fixed_recipe(0x957a7e, k);
            if let Ok(bytes) = pvkit::panics::guarded(|| { let mut s = Src::new(&r); s.big = false; ex::pstate_bytes(&mut s) }) {
                b.add(format!("typed:PState#{k}"), Family::Typed(Typed::PState), bytes);
            }
            if let Ok(bytes) = pvkit::panics::guarded(|| { let mut s = Src::new(&r); s.big = false; ex::pool_distr_bytes(&mut s) }) {
                b.add(format!("typed:PoolDistr#{k}"), Family::Typed(Typed::PoolDistr), bytes);
            }
        }
        // --- immutable-DB blocks (thorough)
        if with_chunks {
            for a in pvkit::corpus::all_chunk_blocks() {
                b.add(format!("chunk:{}", a.name), Family::Block, a.bytes);
            }
        }
        // --- index
        let seeds = b.seeds;
        let mut by_name = HashMap::new();
        let mut by_family: BTreeMap<Family, Vec<usize>> = BTreeMap::new();
        let mut small = vec![];
        let mut typed_any = vec![];
        for (i, s) in seeds.iter().enumerate() {
            by_name.insert(s.name.clone(), i);
            by_family.entry(s.family.clone()).or_default().push(i);
            if s.bytes.len() <= 2048 {
                small.push(i);
            }
            if matches!(s.family, Family::Typed(_)) {
                typed_any.push(i);
            }
        }
        let all = (0..seeds.len()).collect();
        Pool { seeds, by_name, by_family, all, small, typed_any }
    });
}
