//! cborx-level *semantic* damage: the result is (except for the two marked kinds) still one
//! well-formed CBOR item, so a decoder is carried deep into the structure before it meets the
//! unexpected value.
use pvkit::cborx::{self, Kind, Len, Node, Str, W};
use pvkit::mutate::MutOp;
use pvkit::pick_idx;

pub const SEM_KINDS: [&str; 16] = [
    "int-boundary",
    "int-nudge",
    "bytes-length",
    "empty-container",
    "dup-child",
    "drop-child",
    "tag-change",
    "swap-children",
    "replace-scalar",
    "wrap",
    "def-indef",
    "truncate-inside", // not well-formed afterwards (by design)
    "len-lie",         // not well-formed afterwards (by design)
    "widen-int",
    "graft",
    "unwrap-tag",
];

const INT_BOUNDS: [i128; 22] = [
    0,
    1,
    23,
    24,
    255,
    256,
    65535,
    65536,
    (1 << 31) - 1,
    1 << 31,
    (1 << 32) - 1,
    1 << 32,
    (1 << 63) - 1,
    1 << 63,
    (1 << 64) - 1,
    -1,
    -24,
    -25,
    -(1 << 31) - 1,
    -(1 << 63),
    -(1 << 63) - 1,
    -(1 << 64),
];

const BYTE_LENS: [usize; 14] = [0, 1, 27, 28, 29, 31, 32, 33, 56, 57, 58, 64, 65, 300];
const TAGS: [u64; 16] = [0, 1, 2, 3, 24, 30, 102, 121, 127, 258, 259, 1280, 1400, 1401, 1 << 32, u64::MAX];

fn preorder<'a>(n: &'a Node, out: &mut Vec<&'a Node>) {
    out.push(n);
    match &n.k {
        Kind::Array(v, _) => v.iter().for_each(|c| preorder(c, out)),
        Kind::Map(v, _) => v.iter().for_each(|(a, b)| {
            preorder(a, out);
            preorder(b, out)
        }),
        Kind::Tag(_, _, i) => preorder(i, out),
        _ => {}
    }
}

fn resized(d: &[u8], n: usize) -> Vec<u8> {
    let mut out = Vec::with_capacity(n);
    for i in 0..n {
        out.push(if d.is_empty() { 0 } else { d[i % d.len()] });
    }
    out
}

fn scalar(arg: u64) -> Node {
    match arg % 14 {
        0 => cborx::null(),
        1 => cborx::undefined(),
        2 => cborx::boolean(true),
        3 => cborx::boolean(false),
        4 => cborx::node(Kind::Simple(0, false)),
        5 => cborx::node(Kind::Simple(255, true)),
        6 => cborx::node(Kind::F16(0x7e00)),
        7 => cborx::node(Kind::F64(0x7ff0_0000_0000_0000)),
        8 => cborx::bytes(&[]),
        9 => cborx::text(""),
        10 => cborx::array(vec![]),
        11 => cborx::map(vec![]),
        12 => cborx::uint(0),
        _ => cborx::node(Kind::F32(0x3f80_0000)),
    }
}

/// Replacement bytes for node `n` under damage family `fam`; `None` when the family does not apply
/// to this kind of node. `others` = every node of the tree (for grafting).
fn replacement(n: &Node, fam: &str, arg: u64, src: &[u8], others: &[&Node]) -> Option<Vec<u8>> {
    let a = (arg >> 8) as usize;
    let new: Node = match (fam, &n.k) {
        ("int-boundary", Kind::UInt(..)) | ("int-boundary", Kind::NInt(..)) => cborx::int(INT_BOUNDS[a % INT_BOUNDS.len()]),
        ("int-nudge", Kind::UInt(v, _)) => match a % 4 {
            0 => cborx::uint(v.wrapping_add(1)),
            1 => cborx::uint(v.wrapping_sub(1)),
            2 => cborx::nint(*v),
            _ => cborx::uint(v ^ (1 << (a / 4 % 64))),
        },
        ("int-nudge", Kind::NInt(v, _)) => match a % 3 {
            0 => cborx::nint(v.wrapping_add(1)),
            1 => cborx::nint(v.wrapping_sub(1)),
            _ => cborx::uint(*v),
        },
        ("bytes-length", Kind::Bytes(s)) => cborx::bytes(&resized(&s.data(), BYTE_LENS[a % BYTE_LENS.len()])),
        ("bytes-length", Kind::Text(s)) => {
            // valid UTF-8 of about n bytes: plain letters, or an ASCII prefix of 0..3 bytes followed by a run of 2-, 3- or
            // 4-byte characters, so that for long texts a character straddles every byte offset a decoder might cut at
            const TEXT_LENS: [usize; 14] = [127, 128, 129, 130, 131, 255, 256, 257, 258, 1000, 1023, 1024, 1025, 4099];
            let n = if a % 3 == 0 { TEXT_LENS[(a / 3) % TEXT_LENS.len()] } else { BYTE_LENS[a % BYTE_LENS.len()] };
            let d: Vec<u8> = match (a / 7) % 4 {
                0 => resized(&s.data(), n).iter().map(|c| 0x61 + c % 26).collect(),
                k => {
                    let ch: &str = ["\u{e9}", "\u{20ac}", "\u{1d11e}"][k - 1];
                    let mut t = "abc"[..(a / 28) % 4].to_string();
                    while t.len() + ch.len() <= n.max(ch.len()) {
                        t.push_str(ch);
                    }
                    t.into_bytes()
                }
            };
            cborx::node(Kind::Text(Str::Def(W::min_for(d.len() as u64), d)))
        }
        ("empty-container", Kind::Array(v, len)) if !v.is_empty() => cborx::node(Kind::Array(vec![], len_min(len, 0))),
        ("empty-container", Kind::Map(v, len)) if !v.is_empty() => cborx::node(Kind::Map(vec![], len_min(len, 0))),
        ("dup-child", Kind::Array(v, len)) if !v.is_empty() => {
            let mut c = v.clone();
            let i = a % c.len();
            c.insert(i, c[i].clone());
            let l = len_min(len, c.len());
            cborx::node(Kind::Array(c, l))
        }
        ("dup-child", Kind::Map(v, len)) if !v.is_empty() => {
            let mut c = v.clone();
            let i = a % c.len();
            c.insert(i, c[i].clone());
            let l = len_min(len, c.len());
            cborx::node(Kind::Map(c, l))
        }
        ("drop-child", Kind::Array(v, len)) if !v.is_empty() => {
            let mut c = v.clone();
            c.remove(a % c.len());
            let l = len_min(len, c.len());
            cborx::node(Kind::Array(c, l))
        }
        ("drop-child", Kind::Map(v, len)) if !v.is_empty() => {
            let mut c = v.clone();
            c.remove(a % c.len());
            let l = len_min(len, c.len());
            cborx::node(Kind::Map(c, l))
        }
        ("tag-change", Kind::Tag(_, _, inner)) => cborx::tag(TAGS[a % TAGS.len()], (**inner).clone()),
        ("unwrap-tag", Kind::Tag(_, _, inner)) => (**inner).clone(),
        ("swap-children", Kind::Array(v, len)) if v.len() >= 2 => {
            let mut c = v.clone();
            let i = a % c.len();
            let j = (i + 1 + (a / c.len()) % (c.len() - 1)) % c.len();
            c.swap(i, j);
            cborx::node(Kind::Array(c, *len))
        }
        ("swap-children", Kind::Map(v, len)) if !v.is_empty() => {
            let mut c = v.clone();
            let i = a % c.len();
            if c.len() >= 2 && a & 1 == 0 {
                // swap the values of two entries (keys keep their places)
                let j = (i + 1) % c.len();
                let (x, y) = (c[i].1.clone(), c[j].1.clone());
                c[i].1 = y;
                c[j].1 = x;
            } else {
                // swap key and value of one entry
                let (k, val) = c[i].clone();
                c[i] = (val, k);
            }
            cborx::node(Kind::Map(c, *len))
        }
        ("replace-scalar", _) => scalar(arg >> 8),
        ("wrap", _) => match a % 6 {
            0 => cborx::array(vec![n.clone()]),
            1 => cborx::array_indef(vec![n.clone()]),
            2 => cborx::tag(24, cborx::bytes(n.span(src))),
            3 => cborx::tag(258, cborx::array(vec![n.clone()])),
            4 => cborx::tag(TAGS[(a / 6) % TAGS.len()], n.clone()),
            _ => cborx::map(vec![(cborx::uint(0), n.clone())]),
        },
        ("def-indef", Kind::Array(v, len)) => cborx::node(Kind::Array(
            v.clone(),
            match len {
                Len::Def(_) => Len::Indef,
                Len::Indef => Len::Def(W::min_for(v.len() as u64)),
            },
        )),
        ("def-indef", Kind::Map(v, len)) => cborx::node(Kind::Map(
            v.clone(),
            match len {
                Len::Def(_) => Len::Indef,
                Len::Indef => Len::Def(W::min_for(v.len() as u64)),
            },
        )),
        ("def-indef", Kind::Bytes(s)) => {
            let d = s.data();
            match s {
                Str::Def(..) => {
                    let cut = if d.is_empty() { 0 } else { a % (d.len() + 1) };
                    cborx::node(Kind::Bytes(Str::Indef(vec![
                        (W::min_for(cut as u64), d[..cut].to_vec()),
                        (W::min_for((d.len() - cut) as u64), d[cut..].to_vec()),
                    ])))
                }
                Str::Indef(_) => cborx::bytes(&d),
            }
        }
        ("def-indef", Kind::Text(s)) => {
            let d = s.data();
            match s {
                Str::Def(..) => cborx::node(Kind::Text(Str::Indef(vec![(W::min_for(d.len() as u64), d)]))),
                Str::Indef(_) => cborx::node(Kind::Text(Str::Def(W::min_for(d.len() as u64), d))),
            }
        }
        ("widen-int", Kind::UInt(v, w)) => {
            let o: Vec<W> = W::options(*v).into_iter().filter(|x| x != w).collect();
            if o.is_empty() {
                return None;
            }
            cborx::node(Kind::UInt(*v, o[a % o.len()]))
        }
        ("widen-int", Kind::NInt(v, w)) => {
            let o: Vec<W> = W::options(*v).into_iter().filter(|x| x != w).collect();
            if o.is_empty() {
                return None;
            }
            cborx::node(Kind::NInt(*v, o[a % o.len()]))
        }
        ("graft", _) => {
            // a copy of another node of the same artefact: valid content of the wrong type
            let other = others[a % others.len()];
            if other.e - other.s > 4096 || std::ptr::eq(other, n) {
                return None;
            }
            return Some(other.span(src).to_vec());
        }
        ("len-lie", Kind::Array(_, Len::Def(_))) | ("len-lie", Kind::Map(_, Len::Def(_))) => {
            // declared length differs from the number of children present
            let is_map = matches!(n.k, Kind::Map(..));
            let present = match &n.k {
                Kind::Array(c, _) => c.len() as u64,
                Kind::Map(c, _) => c.len() as u64,
                _ => 0,
            };
            let declared = match a % 4 {
                0 => present + 1,
                1 => present.saturating_sub(1),
                2 => present * 2 + 1,
                // 2^32..2^40 (a pre-sizing decoder would abort the process, not panic) is left to the isolated probes
                _ => [255u64, 65536, 1 << 62, u64::MAX][(a / 4) % 4],
            };
            let mut out = vec![];
            head(&mut out, if is_map { 5 } else { 4 }, declared);
            let first_child = match &n.k {
                Kind::Array(c, _) => c.first().map(|x| x.s),
                Kind::Map(c, _) => c.first().map(|x| x.0.s),
                _ => None,
            };
            if let Some(s) = first_child {
                out.extend_from_slice(&src[s..n.e]);
            }
            return Some(out);
        }
        _ => return None,
    };
    Some(cborx::write(&new))
}

fn head(out: &mut Vec<u8>, major: u8, v: u64) {
    let m = major << 5;
    if v < 24 {
        out.push(m | v as u8);
    } else if v <= 0xff {
        out.extend([m | 24, v as u8]);
    } else if v <= 0xffff {
        out.push(m | 25);
        out.extend((v as u16).to_be_bytes());
    } else if v <= 0xffff_ffff {
        out.push(m | 26);
        out.extend((v as u32).to_be_bytes());
    } else {
        out.push(m | 27);
        out.extend(v.to_be_bytes());
    }
}

fn len_min(len: &Len, n: usize) -> Len {
    match len {
        Len::Def(_) => Len::Def(W::min_for(n as u64)),
        Len::Indef => Len::Indef,
    }
}

/// Apply one semantic damage op to `src` whose parsed form is `tree` (spans must refer to `src`).
/// Returns the damaged bytes and the family applied.
pub fn apply_one(src: &[u8], tree: &Node, op: &MutOp) -> Option<(Vec<u8>, &'static str)> {
    let mut nodes = vec![];
    preorder(tree, &mut nodes);
    apply_on(src, &nodes, op)
}

pub fn apply_on(src: &[u8], nodes: &[&Node], op: &MutOp) -> Option<(Vec<u8>, &'static str)> {
    if nodes.is_empty() {
        return None;
    }
    let fam = SEM_KINDS[(op.kind as usize) % SEM_KINDS.len()];
    let start = pick_idx(op.sel, nodes.len());
    if fam == "truncate-inside" {
        // cut the whole input at a byte strictly inside a nested (non-root) node
        for off in 0..nodes.len().min(64) {
            let n = nodes[(start + off) % nodes.len()];
            if n.s > 0 && n.e - n.s >= 2 {
                let cut = n.s + 1 + (op.arg as usize >> 8) % (n.e - n.s - 1);
                return Some((src[..cut].to_vec(), fam));
            }
        }
        return None;
    }
    // scan forward (bounded) for a node the family applies to
    let limit = nodes.len().min(4000);
    for off in 0..limit {
        let n = nodes[(start + off) % nodes.len()];
        if let Some(rep) = replacement(n, fam, op.arg, src, nodes) {
            let mut out = Vec::with_capacity(src.len() + rep.len());
            out.extend_from_slice(&src[..n.s]);
            out.extend_from_slice(&rep);
            out.extend_from_slice(&src[n.e..]);
            return Some((out, fam));
        }
    }
    None
}

/// Apply a sequence of ops; the first uses the cached tree, later ones re-parse the intermediate
/// bytes (which stay well-formed unless a by-design breaking kind was applied).
pub fn apply(src: &[u8], tree: &Node, ops: &[MutOp]) -> (Vec<u8>, Vec<&'static str>) {
    let mut applied = vec![];
    let mut cur: Option<Vec<u8>> = None;
    for (i, op) in ops.iter().enumerate() {
        let r = if i == 0 {
            apply_one(src, tree, op)
        } else {
            let b = cur.as_deref().unwrap_or(src);
            match cborx::read_prefix(b) {
                Ok((t, _)) => apply_one(b, &t, op),
                Err(_) => None,
            }
        };
        if let Some((b, fam)) = r {
            cur = Some(b);
            applied.push(fam);
        }
    }
    (cur.unwrap_or_else(|| src.to_vec()), applied)
}
