//! The decoding entry points of C09 ("targets") and, separately, the cheap accessor chains that a
//! consumer would run over a successfully decoded value.
use std::collections::BTreeMap;
use std::str::FromStr;

use pallas_addresses::{Address, ByronAddress};
use pallas_codec::minicbor::{self, Decode, Encode};
use pallas_codec::utils::{Bytes, TagWrap};
use pallas_network::miniprotocols as n1;
use pallas_network::miniprotocols::localstate::queries_v16 as q;
use pallas_network::miniprotocols::localtxsubmission as ltx;
use pallas_network::miniprotocols::localtxsubmission::primitives as prim;
use pallas_network2::behavior::AnyMessage;
use pallas_network2::Message as _;
use pallas_traverse::{Era, MultiEraBlock, MultiEraHeader, MultiEraOutput, MultiEraTx};
use pvkit::panics::{guarded, PanicInfo};
use serde::{Deserialize, Serialize};

use crate::enc;
use crate::seedgen::msgs::{Proto, Wire, ALL_PROTOS};
use crate::with_proto;

pub const ERAS: [Era; 7] =
    [Era::Byron, Era::Shelley, Era::Allegra, Era::Mary, Era::Alonzo, Era::Babbage, Era::Conway];

/// (tag, subtag) combinations of `MultiEraHeader::decode` that select a distinct branch, plus
/// out-of-range tags.
pub const HEADER_TAGS: [(u8, Option<u8>); 9] =
    [(0, Some(0)), (0, Some(1)), (0, None), (1, None), (4, None), (5, None), (6, None), (7, None), (255, None)];

/// channel ids handed to `AnyMessage::from_payload`: the eight known ones and unknown ones
/// (n2c ids, the responder flag, extremes)
pub const CHANNELS: [u16; 14] = [0, 2, 3, 4, 8, 10, 18, 19, 1, 5, 7, 9, 0x8002, 0xffff];

macro_rules! typed_targets {
    ($( $name:ident => $ty:ty ),* $(,)?) => {
        /// Nested payload types of pallas-network that have their own `Decode` (typed local-state
        /// queries / results, the local-tx rejection tree, handshake and chain-sync parts).
        #[allow(clippy::enum_variant_names)]
        #[derive(Debug, Clone, Copy, PartialEq, Eq, Hash, PartialOrd, Ord, Serialize, Deserialize)]
        pub enum Typed { $( $name ),* }
        pub const ALL_TYPED: &[Typed] = &[ $( Typed::$name ),* ];
        impl Typed {
            pub fn name(self) -> &'static str { match self { $( Typed::$name => stringify!($name) ),* } }
            fn run(self, b: &[u8], mode: Mode) -> Outcome {
                match self { $( Typed::$name => cbor_value::<$ty>(b, mode) ),* }
            }
        }
    };
}

typed_targets! {
    Request => q::Request,
    BlockQuery => q::BlockQuery,
    LedgerQuery => q::LedgerQuery,
    HardForkQuery => q::HardForkQuery,
    Point => n1::Point,
    SystemStart => q::SystemStart,
    ChainBlockNumber => q::ChainBlockNumber,
    GenesisConfig => q::GenesisConfig,
    StakeDistribution => q::StakeDistribution,
    FilteredDelegsRewards => q::FilteredDelegsRewards,
    StakeSnapshots => q::StakeSnapshots,
    UTxOByAddress => q::UTxOByAddress,
    UTxOByTxin => q::UTxOByTxin,
    UTxOWhole => q::UTxOWhole,
    AccountState => q::AccountState,
    Constitution => q::Constitution,
    DRepState => q::DRepState,
    ProtocolParam => q::ProtocolParam,
    FutureProtocolParam => ltx::SMaybe<q::ProtocolParam>,
    PoolParamsMap => BTreeMap<Bytes, q::PoolParams>,
    PState => q::PState,
    PoolDistr => q::PoolDistr,
    NonMyopicMemberRewards => q::NonMyopicMemberRewards,
    GovState => q::GovState,
    RatifyState => q::RatifyState,
    LedgerPeerSnapshot => q::LedgerPeerSnapshot,
    ProposedPPUpdates => q::ProposedPPUpdates,
    GovActionStates => Vec<q::GovActionState>,
    CommitteeMembersState => q::CommitteeMembersState,
    StakeDelegDeposits => BTreeMap<q::StakeAddr, q::Coin>,
    DRepStates => BTreeMap<q::StakeAddr, q::DRepState>,
    DRepStakeDistr => BTreeMap<q::DRep, q::Coin>,
    VoteDelegatees => BTreeMap<q::StakeAddr, q::DRep>,
    SpoStakeDistr => BTreeMap<q::Addr, q::Coin>,
    GetCborResult => Vec<TagWrap<Bytes, 24>>,
    QTransactionOutput => q::TransactionOutput,
    QValue => q::Value,
    QGovAction => q::GovAction,
    QDRep => q::DRep,
    QPParamsUpdate => q::PParamsUpdate,
    QCostModels => q::CostModels,
    QRelay => q::Relay,
    TxValidationError => ltx::TxValidationError,
    ApplyTxError => ltx::ApplyTxError,
    ConwayLedgerFailure => ltx::ConwayLedgerFailure,
    ConwayUtxoWPredFailure => ltx::ConwayUtxoWPredFailure,
    UtxoFailure => ltx::UtxoFailure,
    UtxosFailure => ltx::UtxosFailure,
    ConwayCertsPredFailure => ltx::ConwayCertsPredFailure,
    ConwayGovPredFailure => ltx::ConwayGovPredFailure,
    ConwayContextError => ltx::ConwayContextError,
    ConwayTxCert => ltx::ConwayTxCert,
    LtxCertificate => prim::Certificate,
    LtxVoter => prim::Voter,
    LtxNativeScript => prim::NativeScript,
    LtxPlutusData => q::PlutusData,
    EraTx => ltx::EraTx,
    DmqMsg => n1::localmsgsubmission::DmqMsg,
    DmqMsgValidationError => n1::localmsgsubmission::DmqMsgValidationError,
    N1VersionDataN2N => n1::handshake::n2n::VersionData,
    N1VersionDataN2C => n1::handshake::n2c::VersionData,
    N1RefuseReason => n1::handshake::RefuseReason,
    N1Tip => n1::chainsync::Tip,
    N1HeaderContent => n1::chainsync::HeaderContent,
    N1PeerAddress => n1::peersharing::PeerAddress,
    N2VersionDataN2N => pallas_network2::protocol::handshake::n2n::VersionData,
    N2VersionDataN2C => pallas_network2::protocol::handshake::n2c::VersionData,
    N2RefuseReason => pallas_network2::protocol::handshake::RefuseReason,
    N2Tip => pallas_network2::protocol::chainsync::Tip,
    N2HeaderContent => pallas_network2::protocol::chainsync::HeaderContent,
    N2PeerAddress => pallas_network2::protocol::peersharing::PeerAddress,
    N2Point => pallas_network2::protocol::Point,
    N2Bitmaps => pallas_network2::protocol::leiosfetch::Bitmaps,
}

#[derive(Debug, Clone, Copy, PartialEq, Eq, Hash, PartialOrd, Ord, Serialize, Deserialize)]
pub enum Target {
    Block,
    Tx,
    /// index into `ERAS`
    TxEra(u8),
    /// index into `HEADER_TAGS`
    Header(u8),
    /// index into `ERAS`
    Output(u8),
    AddrBytes,
    AddrHex,
    AddrBech32,
    AddrStr,
    ByronBytes,
    ByronBase58,
    Msg(Proto),
    Typed(Typed),
    /// index into `CHANNELS`
    AnyMsg(u8),
}

/// What kind of seed a target is meant to be fed with (see `seeds`).
#[derive(Debug, Clone, PartialEq, Eq, Hash, PartialOrd, Ord)]
pub enum Family {
    Block,
    Tx,
    Header,
    Output,
    AddrBytes,
    AddrText,
    ByronBytes,
    ByronText,
    Msg(Proto),
    Typed(Typed),
}

impl Target {
    pub fn all() -> Vec<Target> {
        let mut v = vec![Target::Block, Target::Tx];
        v.extend((0..ERAS.len() as u8).map(Target::TxEra));
        v.extend((0..HEADER_TAGS.len() as u8).map(Target::Header));
        v.extend((0..ERAS.len() as u8).map(Target::Output));
        v.extend([
            Target::AddrBytes,
            Target::AddrHex,
            Target::AddrBech32,
            Target::AddrStr,
            Target::ByronBytes,
            Target::ByronBase58,
        ]);
        v.extend(ALL_PROTOS.iter().map(|p| Target::Msg(*p)));
        v.extend(ALL_TYPED.iter().map(|t| Target::Typed(*t)));
        v.extend((0..CHANNELS.len() as u8).map(Target::AnyMsg));
        v
    }

    pub fn name(&self) -> String {
        match self {
            Target::Block => "MultiEraBlock::decode".into(),
            Target::Tx => "MultiEraTx::decode".into(),
            Target::TxEra(e) => format!("MultiEraTx::decode_for_era:{}", ERAS[*e as usize % ERAS.len()]),
            Target::Header(i) => {
                let (t, s) = HEADER_TAGS[*i as usize % HEADER_TAGS.len()];
                format!("MultiEraHeader::decode:{t}/{}", s.map(|x| x.to_string()).unwrap_or("-".into()))
            }
            Target::Output(e) => format!("MultiEraOutput::decode:{}", ERAS[*e as usize % ERAS.len()]),
            Target::AddrBytes => "Address::from_bytes".into(),
            Target::AddrHex => "Address::from_hex".into(),
            Target::AddrBech32 => "Address::from_bech32".into(),
            Target::AddrStr => "Address::from_str".into(),
            Target::ByronBytes => "ByronAddress::from_bytes".into(),
            Target::ByronBase58 => "ByronAddress::from_base58".into(),
            Target::Msg(p) => format!("msg:{}", crate::seedgen::msgs::proto_name(*p)),
            Target::Typed(t) => format!("typed:{}", t.name()),
            Target::AnyMsg(c) => format!("AnyMessage::from_payload:{}", CHANNELS[*c as usize % CHANNELS.len()]),
        }
    }

    /// coarse class for histograms
    pub fn group(&self) -> &'static str {
        match self {
            Target::Block => "block",
            Target::Tx | Target::TxEra(_) => "tx",
            Target::Header(_) => "header",
            Target::Output(_) => "output",
            Target::AddrBytes | Target::AddrHex | Target::AddrBech32 | Target::AddrStr => "address",
            Target::ByronBytes | Target::ByronBase58 => "byron-address",
            Target::Msg(p) => {
                if crate::seedgen::msgs::proto_name(*p).starts_with("net1") {
                    "net1-msg"
                } else {
                    "net2-msg"
                }
            }
            Target::Typed(_) => "net1-typed",
            Target::AnyMsg(_) => "net2-anymessage",
        }
    }

    pub fn family(&self) -> Family {
        match self {
            Target::Block => Family::Block,
            Target::Tx | Target::TxEra(_) => Family::Tx,
            Target::Header(_) => Family::Header,
            Target::Output(_) => Family::Output,
            Target::AddrBytes => Family::AddrBytes,
            Target::AddrHex | Target::AddrBech32 | Target::AddrStr => Family::AddrText,
            Target::ByronBytes => Family::ByronBytes,
            Target::ByronBase58 => Family::ByronText,
            Target::Msg(p) => Family::Msg(*p),
            Target::Typed(t) => Family::Typed(*t),
            Target::AnyMsg(c) => Family::Msg(match CHANNELS[*c as usize % CHANNELS.len()] {
                0 => Proto::N2HandshakeN2N,
                2 => Proto::N2ChainSyncHeader,
                3 => Proto::N2BlockFetch,
                4 => Proto::N2TxSubmission,
                8 => Proto::N2KeepAlive,
                10 => Proto::N2PeerSharing,
                18 => Proto::N2LeiosNotify,
                19 => Proto::N2LeiosFetch,
                5 | 0x8002 => Proto::N2ChainSyncBlock,
                _ => Proto::N2HandshakeN2C,
            }),
        }
    }

    /// true when the input of the target is CBOR (the cborx-based non-triviality rule applies)
    pub fn is_cbor(&self) -> bool {
        !matches!(
            self,
            Target::AddrBytes | Target::AddrHex | Target::AddrBech32 | Target::AddrStr | Target::ByronBase58
        )
    }
}

#[derive(Debug, Clone, Copy, PartialEq, Eq)]
pub enum Mode {
    /// call the entry point, nothing else (the property)
    DecodeOnly,
    /// afterwards run the accessor chain over a decoded value under its own panic guard
    Traverse,
}

#[derive(Debug, Default)]
pub struct Outcome {
    /// the entry point returned a value
    pub ok: bool,
    /// for text targets: the text form was syntactically valid so that the payload parser was reached
    pub reached_payload: bool,
    /// panic inside the accessor chain (Mode::Traverse only)
    pub accessor_panic: Option<PanicInfo>,
    /// number of accessor calls made
    pub accessor_calls: u32,
}

fn ok(v: bool) -> Outcome {
    Outcome { ok: v, ..Outcome::default() }
}

fn traverse_guarded(mode: Mode, out: &mut Outcome, f: impl FnOnce(&mut u32)) {
    if mode != Mode::Traverse {
        return;
    }
    let mut calls = 0u32;
    let r = guarded(|| f(&mut calls));
    out.accessor_calls = calls;
    if let Err(p) = r {
        out.accessor_panic = Some(p);
    }
}

/// A value with a CBOR codec: decode; the accessor chain is its `Debug` rendering (a full walk) and
/// re-encoding (what a relay / logger does with a received message).
fn cbor_value<T>(b: &[u8], mode: Mode) -> Outcome
where
    T: for<'b> Decode<'b, ()> + Encode<()> + std::fmt::Debug,
{
    let mut d = minicbor::Decoder::new(b);
    match d.decode::<T>() {
        Ok(v) => {
            let mut o = ok(true);
            traverse_guarded(mode, &mut o, |calls| {
                let s = format!("{v:?}");
                std::hint::black_box(s.len());
                *calls += 1;
                let e = minicbor::to_vec(&v);
                std::hint::black_box(e.is_ok());
                *calls += 1;
            });
            o
        }
        Err(_) => ok(false),
    }
}

fn msg_value<M: Wire>(b: &[u8], mode: Mode) -> Outcome {
    cbor_value::<M>(b, mode)
}

/// Text of a string-input target: input that is printable ASCII is the text itself (damaged
/// address strings), anything else is the *payload* and is put into the target's text encoding so
/// that the payload parser behind the text decoder is reached.
pub fn text_for(t: Target, b: &[u8]) -> (String, bool) {
    let printable = !b.is_empty() && b.iter().all(|c| (0x20..0x7f).contains(c));
    if printable {
        return (String::from_utf8_lossy(b).into_owned(), false);
    }
    let s = match t {
        Target::AddrHex => hex::encode(b),
        Target::AddrBech32 => enc::bech32("addr", b),
        Target::AddrStr => {
            if b.first().map(|x| x >> 4 == 8).unwrap_or(false) {
                enc::base58(b)
            } else {
                enc::bech32("addr_test", b)
            }
        }
        Target::ByronBase58 => enc::base58(b),
        _ => String::from_utf8_lossy(b).into_owned(),
    };
    (s, true)
}

fn address_accessors(a: &Address, calls: &mut u32) {
    let _ = a.network();
    let _ = a.typeid();
    let _ = a.hrp();
    let _ = a.has_script();
    let _ = a.is_enterprise();
    let v = a.to_vec();
    let _ = a.to_hex();
    let _ = a.to_bech32();
    let s = a.to_string();
    *calls += 9;
    // what a consumer does next: parse it again from its own renderings
    let _ = Address::from_bytes(&v);
    let _ = Address::from_str(&s);
    *calls += 2;
    match a {
        Address::Shelley(x) => {
            let _ = x.payment().to_vec();
            let _ = x.payment().to_bech32();
            let _ = x.delegation().to_vec();
            let _ = x.delegation().to_bech32();
            let _ = x.delegation().as_hash();
            let _ = pallas_addresses::StakeAddress::try_from(x.clone());
            *calls += 6;
        }
        Address::Stake(x) => {
            let _ = x.payload().as_hash();
            let _ = x.is_script();
            *calls += 2;
        }
        Address::Byron(x) => {
            byron_accessors(x, calls);
        }
    }
}

fn byron_accessors(x: &ByronAddress, calls: &mut u32) {
    let _ = x.typeid();
    let _ = x.to_vec();
    let _ = x.to_base58();
    let _ = x.to_hex();
    let _ = x.decode();
    *calls += 5;
}

fn tx_accessors(tx: &MultiEraTx, calls: &mut u32) {
    let _ = tx.era();
    let _ = tx.hash();
    let _ = tx.size();
    let _ = tx.fee();
    let _ = tx.ttl();
    let _ = tx.validity_start();
    let _ = tx.network_id();
    let _ = tx.is_valid();
    let _ = tx.total_collateral();
    *calls += 9;
    for i in tx.inputs().iter().chain(tx.reference_inputs().iter()).chain(tx.collateral().iter()) {
        let _ = i.hash();
        let _ = i.index();
        let _ = i.output_ref();
        let _ = i.lexicographical_key();
        *calls += 4;
    }
    let _ = tx.inputs_sorted_set();
    let _ = tx.requires();
    let _ = tx.consumes();
    *calls += 3;
    let mut outs = tx.outputs();
    if let Some(c) = tx.collateral_return() {
        outs.push(c);
    }
    for o in &outs {
        output_accessors(o, calls);
    }
    let _ = tx.produces();
    let _ = tx.output_at(0);
    let _ = tx.produces_at(outs.len());
    *calls += 3;
    for pa in tx.mints().iter().chain(tx.mints_sorted_set().iter()) {
        let _ = pa.policy();
        let _ = pa.is_mint();
        for a in pa.assets() {
            let _ = a.name();
            let _ = a.mint_coin();
            let _ = a.output_coin();
            let _ = a.any_coin();
            let _ = a.to_ascii_name();
            *calls += 5;
        }
        *calls += 2;
    }
    for c in tx.certs() {
        let _ = c.as_alonzo();
        let _ = c.as_conway();
        *calls += 2;
    }
    let wd = tx.withdrawals();
    let w: Vec<(&[u8], u64)> = wd.collect();
    for (acct, _) in &w {
        let _ = Address::from_bytes(acct);
        *calls += 1;
    }
    let _ = tx.withdrawals_sorted_set();
    let _ = tx.withdrawals().is_empty();
    let meta = tx.metadata();
    let md: Vec<_> = meta.collect();
    std::hint::black_box(format!("{md:?}").len());
    let _ = tx.metadata().is_empty();
    let signers = tx.required_signers();
    let s: Vec<_> = signers.collect();
    std::hint::black_box(s.len());
    *calls += 6;
    let _ = tx.update().map(|u| {
        let _ = u.epoch();
        let _ = u.byron_proposed_fee_policy();
        let _ = u.byron_proposed_max_tx_size();
        let _ = u.byron_proposed_block_version();
    });
    for p in tx.gov_proposals() {
        let _ = p.deposit();
        let _ = p.reward_account();
        let _ = p.gov_action().id();
        let _ = p.anchor();
        *calls += 4;
    }
    let _ = tx.vkey_witnesses().len();
    let _ = tx.bootstrap_witnesses().len();
    for ns in tx.native_scripts() {
        let _ = ns.raw_cbor().len();
        *calls += 1;
    }
    let _ = tx.plutus_v1_scripts().len();
    let _ = tx.plutus_v2_scripts().len();
    let _ = tx.plutus_v3_scripts().len();
    for pd in tx.plutus_data() {
        let _ = pd.raw_cbor().len();
        std::hint::black_box(format!("{:?}", std::ops::Deref::deref(pd)).len());
        *calls += 2;
    }
    for r in tx.redeemers() {
        let _ = r.tag();
        let _ = r.index();
        let _ = r.ex_units();
        let _ = r.data();
        *calls += 4;
    }
    let _ = tx.find_spend_redeemer(0);
    let _ = tx.find_mint_redeemer(0);
    let _ = tx.find_withdrawal_redeemer(0);
    let _ = tx.find_certificate_redeemer(0);
    let _ = tx.aux_plutus_v1_scripts().len();
    let _ = tx.aux_native_scripts().len();
    let _ = tx.encode();
    *calls += 13;
}

fn output_accessors(o: &MultiEraOutput, calls: &mut u32) {
    let _ = o.era();
    if let Ok(a) = o.address() {
        address_accessors(&a, calls);
    }
    let v = o.value();
    let _ = v.coin();
    for pa in v.assets() {
        let _ = pa.policy();
        let _ = pa.is_output();
        for a in pa.assets() {
            let _ = a.name();
            let _ = a.output_coin();
            let _ = a.any_coin();
            let _ = a.to_ascii_name();
            *calls += 4;
        }
        *calls += 2;
    }
    let _ = v.into_alonzo();
    let _ = v.into_conway();
    let _ = o.datum();
    let _ = o.script_ref();
    let _ = o.encode();
    *calls += 8;
}

fn header_accessors(h: &MultiEraHeader, calls: &mut u32) {
    let _ = h.cbor().len();
    let _ = h.number();
    let _ = h.slot();
    let _ = h.hash();
    let _ = h.previous_hash();
    let _ = h.vrf_vkey();
    let _ = h.issuer_vkey();
    let _ = h.leader_vrf_output();
    let _ = h.nonce_vrf_output();
    *calls += 9;
}

pub fn run(t: Target, b: &[u8], mode: Mode) -> Outcome {
    match t {
        Target::Block => match MultiEraBlock::decode(b) {
            Ok(blk) => {
                let mut o = ok(true);
                traverse_guarded(mode, &mut o, |calls| {
                    let _ = blk.era();
                    let _ = blk.hash();
                    let _ = blk.slot();
                    let _ = blk.number();
                    let _ = blk.tx_count();
                    let _ = blk.is_empty();
                    let _ = blk.has_aux_data();
                    let _ = blk.body_size();
                    let _ = blk.update().map(|u| u.epoch());
                    *calls += 9;
                    header_accessors(&blk.header(), calls);
                    for tx in blk.txs() {
                        tx_accessors(&tx, calls);
                    }
                    let _ = blk.size();
                    *calls += 1;
                });
                o
            }
            Err(_) => ok(false),
        },
        Target::Tx => match MultiEraTx::decode(b) {
            Ok(tx) => {
                let mut o = ok(true);
                traverse_guarded(mode, &mut o, |calls| tx_accessors(&tx, calls));
                o
            }
            Err(_) => ok(false),
        },
        Target::TxEra(e) => match MultiEraTx::decode_for_era(ERAS[e as usize % ERAS.len()], b) {
            Ok(tx) => {
                let mut o = ok(true);
                traverse_guarded(mode, &mut o, |calls| tx_accessors(&tx, calls));
                o
            }
            Err(_) => ok(false),
        },
        Target::Header(i) => {
            let (tag, sub) = HEADER_TAGS[i as usize % HEADER_TAGS.len()];
            match MultiEraHeader::decode(tag, sub, b) {
                Ok(h) => {
                    let mut o = ok(true);
                    traverse_guarded(mode, &mut o, |calls| header_accessors(&h, calls));
                    o
                }
                Err(_) => ok(false),
            }
        }
        Target::Output(e) => match MultiEraOutput::decode(ERAS[e as usize % ERAS.len()], b) {
            Ok(x) => {
                let mut o = ok(true);
                traverse_guarded(mode, &mut o, |calls| output_accessors(&x, calls));
                o
            }
            Err(_) => ok(false),
        },
        Target::AddrBytes => match Address::from_bytes(b) {
            Ok(a) => {
                let mut o = ok(true);
                o.reached_payload = true;
                traverse_guarded(mode, &mut o, |calls| address_accessors(&a, calls));
                o
            }
            Err(_) => Outcome { reached_payload: true, ..ok(false) },
        },
        Target::AddrHex | Target::AddrBech32 | Target::AddrStr => {
            let (s, encoded) = text_for(t, b);
            let r = match t {
                Target::AddrHex => Address::from_hex(&s),
                Target::AddrBech32 => Address::from_bech32(&s),
                _ => Address::from_str(&s),
            };
            match r {
                Ok(a) => {
                    let mut o = ok(true);
                    o.reached_payload = true;
                    traverse_guarded(mode, &mut o, |calls| address_accessors(&a, calls));
                    o
                }
                Err(_) => Outcome { reached_payload: encoded, ..ok(false) },
            }
        }
        Target::ByronBytes => match ByronAddress::from_bytes(b) {
            Ok(a) => {
                let mut o = ok(true);
                traverse_guarded(mode, &mut o, |calls| byron_accessors(&a, calls));
                o
            }
            Err(_) => ok(false),
        },
        Target::ByronBase58 => {
            let (s, encoded) = text_for(t, b);
            match ByronAddress::from_base58(&s) {
                Ok(a) => {
                    let mut o = ok(true);
                    o.reached_payload = true;
                    traverse_guarded(mode, &mut o, |calls| byron_accessors(&a, calls));
                    o
                }
                Err(_) => Outcome { reached_payload: encoded, ..ok(false) },
            }
        }
        Target::Msg(p) => with_proto!(p, msg_value(b, mode)),
        Target::Typed(ty) => ty.run(b, mode),
        Target::AnyMsg(c) => {
            let ch = CHANNELS[c as usize % CHANNELS.len()];
            let mut payload = b.to_vec();
            let mut got = vec![];
            // what the bearer does: drain messages until none can be decoded
            for _ in 0..4096 {
                match AnyMessage::from_payload(ch, &mut payload) {
                    Some(m) => got.push(m),
                    None => break,
                }
            }
            let mut o = ok(!got.is_empty());
            if !got.is_empty() {
                traverse_guarded(mode, &mut o, |calls| {
                    for m in &got {
                        let _ = m.channel();
                        std::hint::black_box(format!("{m:?}").len());
                        let _ = m.payload();
                        let _ = m.clone().into_chunks();
                        *calls += 4;
                    }
                });
            }
            o
        }
    }
}
