//! C42 — immutable-DB reads return exactly the requested chain suffix (DESIGN §C42).
//!
//! Databases: temp directories holding (symlinks to) every subset of the three chunk triples of
//! `test_data`. Oracle: `imm::read_chunk` (own reader of primary/secondary/chunk, own CBOR header
//! parse, own Blake2b/CRC32), cross-checked against `pvkit::corpus::chunk_blocks`. The immutable
//! part of a database is every chunk but the one with the greatest name (the crate documents that
//! the last chunk "is not really immutable" and omits it).
use crate::imm::{self, Blk, TempDir};
use pallas_hardano::storage::immutable::{get_tip, read_blocks, read_blocks_from_point, FallibleBlock, Point};
use proptest::prelude::*;
use pvkit::corpus::CHUNKS;
use pvkit::{pv_ensure, pv_fail, Fail, Obs, Session};
use serde::{Deserialize, Serialize};

/// A concrete query.
#[derive(Debug, Clone, PartialEq, Serialize, Deserialize)]
pub enum Q {
    ReadAll,
    Tip,
    /// exact point of immutable block `idx`
    Exact { idx: usize },
    /// `Point::Specific(slot, vec![])`
    Fuzzy { slot: u64 },
    /// slot of block `idx`, its hash with one bit flipped
    AbsentFlippedHash { idx: usize, byte: u8, bit: u8 },
    /// slot of block `idx`, hash of block `other` (≠ idx)
    AbsentOtherHash { idx: usize, other: usize },
    /// hash of block `idx` at slot `slot` (≠ its slot)
    AbsentWrongSlot { idx: usize, slot: u64 },
    /// slot of block `idx`, the first `len` (1..=31) bytes of its hash
    AbsentHashPrefix { idx: usize, len: u8 },
}

/// `db` is a bit mask over `pvkit::corpus::CHUNKS` (bit i set = chunk i present in the directory).
#[derive(Debug, Clone, Serialize, Deserialize)]
pub struct Case {
    pub db: u8,
    pub q: Q,
}

/// Random query in terms of selectors, resolved against the database inside the check.
#[derive(Debug, Clone, Serialize, Deserialize)]
pub enum RQ {
    Exact { sel: u16 },
    FuzzyNear { sel: u16, delta: i8 },
    FuzzyAnywhere { pos: u32 },
    FlippedHash { sel: u16, byte: u8, bit: u8 },
    OtherHash { sel: u16, other: u16 },
    WrongSlotNear { sel: u16, delta: i8 },
    WrongSlotAt { sel: u16, at: u16 },
    WrongSlotAnywhere { sel: u16, pos: u32 },
    HashPrefix { sel: u16, len: u8 },
}

#[derive(Debug, Clone, Serialize, Deserialize)]
pub struct RCase {
    pub db: u8,
    pub q: RQ,
}

pub struct Db<'a> {
    pub mask: u8,
    pub dir: TempDir,
    /// blocks of the immutable chunks, in order
    pub blocks: Vec<&'a Blk>,
    /// index in `blocks` of the first block of each immutable chunk
    pub chunk_starts: Vec<usize>,
}

pub fn names_of(mask: u8) -> Vec<&'static str> {
    (0..3).filter(|i| mask & (1 << i) != 0).map(|i| CHUNKS[i]).collect()
}

/// Database codes: bits 0..2 = which chunks, bits 3.. = the newest immutable chunk is cut down to its first 1 / 2 / 17
/// blocks (0 = as it is in test_data).
pub fn cut_of(code: u8) -> Option<usize> {
    match code >> 3 {
        0 => None,
        1 => Some(1),
        2 => Some(2),
        _ => Some(17),
    }
}

/// Load the oracle's view of the three chunks; `Err` = the oracle itself is not trustworthy here.
pub fn load_chunks() -> Result<Vec<Vec<Blk>>, String> {
    let td = pvkit::corpus::test_data();
    let mut out = vec![];
    for (i, c) in CHUNKS.iter().enumerate() {
        let split = pvkit::corpus::chunk_blocks(c);
        let mine = if i + 1 < CHUNKS.len() {
            imm::read_chunk(&td, c)?
        } else {
            // The greatest-named chunk is never part of the immutable set of any subset, so its
            // index files are never needed (in test_data its primary index is a stub that lists
            // 1 block, its secondary 15, its chunk file holds 5 — the "not yet immutable" chunk). Only slot/hash by CBOR.
            let mut v = vec![];
            for b in &split {
                let (slot, hash) = imm::slot_and_hash(b)?;
                v.push(Blk { slot, hash, bytes: b.clone() });
            }
            v
        };
        if split.len() != mine.len() || split.iter().zip(&mine).any(|(a, b)| *a != b.bytes) {
            return Err(format!("{c}: index-based reader and CBOR-splitting reader disagree"));
        }
        out.push(mine);
    }
    let flat: Vec<&Blk> = out.iter().flatten().collect();
    if flat.windows(2).any(|w| w[0].slot >= w[1].slot) {
        return Err("test database is not strictly increasing in slot".into());
    }
    Ok(out)
}

pub fn build_dbs<'a>(chunks: &'a [Vec<Blk>], masks: &[u8]) -> Vec<Db<'a>> {
    masks
        .iter()
        .map(|&mask| {
            let dir = TempDir::new(&format!("c42-{mask}"));
            let names = names_of(mask);
            let cut = if names.len() >= 2 { cut_of(mask) } else { None };
            for (k, n) in names.iter().enumerate() {
                match cut {
                    Some(keep) if k + 2 == names.len() => imm::write_chunk_head(dir.path(), n, n, keep),
                    _ => imm::link_chunk(dir.path(), n, n),
                }
            }
            let mut blocks = vec![];
            let mut chunk_starts = vec![];
            // all but the last (greatest name) chunk
            for (k, n) in names.iter().enumerate().take(names.len().saturating_sub(1)) {
                let ci = CHUNKS.iter().position(|c| c == n).unwrap();
                chunk_starts.push(blocks.len());
                match cut {
                    Some(keep) if k + 2 == names.len() => blocks.extend(chunks[ci].iter().take(keep)),
                    _ => blocks.extend(chunks[ci].iter()),
                }
            }
            Db { mask, dir, blocks, chunk_starts }
        })
        .collect()
}

fn describe(bytes: &[u8]) -> String {
    match imm::slot_and_hash(bytes) {
        Ok((slot, hash)) => format!("block slot={slot} hash={}", hex::encode(hash)),
        Err(_) => format!("{} bytes that are not a block", bytes.len()),
    }
}

/// The iterator must yield exactly `exp`, all `Ok`.
fn expect_blocks<I: Iterator<Item = FallibleBlock>>(it: I, exp: &[&Blk], what: &str, ctx: &str) -> Result<(), Fail> {
    let mut k = 0usize;
    for item in it {
        match item {
            Err(e) => pv_fail!(format!("{what}:item-is-error"), "{ctx}: item {k} of {} expected is Err({e})", exp.len()),
            Ok(b) => {
                pv_ensure!(k < exp.len(), format!("{what}:extra-blocks"), "{ctx}: more than the {} expected blocks; extra item is {}", exp.len(), describe(&b));
                if b != exp[k].bytes {
                    let sig = if k == 0 { "wrong-first-block" } else { "wrong-later-block" };
                    pv_fail!(
                        format!("{what}:{sig}"),
                        "{ctx}: item {k} is {} but the oracle expects slot={} hash={}",
                        describe(&b), exp[k].slot, hex::encode(exp[k].hash)
                    );
                }
            }
        }
        k += 1;
    }
    pv_ensure!(k == exp.len(), format!("{what}:missing-blocks"), "{ctx}: {k} blocks yielded, {} expected", exp.len());
    Ok(())
}

fn expect_absent(db: &Db, slot: u64, hash: Vec<u8>, what: &str, obs: &mut Obs) -> Result<(), Fail> {
    let first = db.blocks.first().map(|b| b.slot);
    let last = db.blocks.last().map(|b| b.slot);
    let zone = match (first, last) {
        (Some(f), _) if slot < f => "slot-before-first",
        (_, Some(l)) if slot > l => "slot-beyond-tip",
        (Some(_), Some(_)) => "slot-in-range",
        _ => "empty-db",
    };
    obs.class(format!("absent:{what}:{zone}"));
    obs.nontrivial();
    let hx = hex::encode(&hash);
    match read_blocks_from_point(db.dir.path(), Point::Specific(slot, hash)) {
        Err(_) => Ok(()),
        Ok(mut it) => match it.next() {
            // weaker reading of "fails": the failure may surface as the first item
            Some(Err(_)) => Ok(()),
            Some(Ok(b)) => pv_fail!(
                format!("absent-exact-point-accepted:{zone}:yields-blocks"),
                "db={:?}: Specific({slot}, {hx}) is not in the database ({what}) but the read succeeds and starts at {}",
                names_of(db.mask), describe(&b)
            ),
            None => pv_fail!(
                format!("absent-exact-point-accepted:{zone}:empty-iterator"),
                "db={:?}: Specific({slot}, {hx}) is not in the database ({what}; tip slot {:?}) but read_blocks_from_point returns Ok with an empty iterator instead of an error",
                names_of(db.mask), last
            ),
        },
    }
}

pub fn check(dbs: &[Db], c: &Case, obs: &mut Obs) -> Result<(), Fail> {
    let Some(db) = dbs.iter().find(|d| d.mask == c.db) else {
        obs.discard();
        return Ok(());
    };
    let dir = db.dir.path();
    let n = db.blocks.len();
    let ctx = format!("db={:?}{} {:?}", names_of(db.mask), cut_of(db.mask).map(|k| format!(" (newest immutable chunk cut to {k} blocks)")).unwrap_or_default(), c.q);
    obs.class(format!("db-chunks:{}", names_of(db.mask).len()));
    if let Some(k) = cut_of(db.mask) {
        obs.class(format!("newest-immutable-chunk-cut-to:{k}"));
    }
    match &c.q {
        Q::ReadAll => {
            obs.class("read-all");
            obs.nontrivial_if(n > 0);
            let it = match read_blocks(dir) {
                Ok(it) => it,
                Err(e) => pv_fail!("read_blocks:error", "{ctx}: read_blocks failed: {e}"),
            };
            expect_blocks(it, &db.blocks, "read_blocks", &ctx)
        }
        Q::Tip => {
            obs.class("tip");
            obs.nontrivial_if(n > 0);
            let exp = db.blocks.last().map(|b| Point::Specific(b.slot, b.hash.to_vec()));
            match get_tip(dir) {
                Err(e) => pv_fail!("get_tip:error", "{ctx}: get_tip failed: {e}"),
                Ok(got) => {
                    pv_ensure!(got == exp, "get_tip:wrong-point", "{ctx}: get_tip = {got:?}, last immutable block is {exp:?}");
                    Ok(())
                }
            }
        }
        Q::Exact { idx } => {
            if *idx >= n {
                obs.discard();
                return Ok(());
            }
            obs.class("exact");
            if db.chunk_starts.contains(idx) || db.chunk_starts.contains(&(idx + 1)) || idx + 1 == n {
                obs.class("exact:chunk-edge");
            }
            obs.nontrivial();
            let b = db.blocks[*idx];
            match read_blocks_from_point(dir, Point::Specific(b.slot, b.hash.to_vec())) {
                Err(e) => pv_fail!("from-exact:error", "{ctx}: existing point Specific({}, {}) rejected: {e}", b.slot, hex::encode(b.hash)),
                Ok(it) => expect_blocks(it, &db.blocks[*idx..], "from-exact", &ctx),
            }
        }
        Q::Fuzzy { slot } => {
            let j = db.blocks.partition_point(|b| b.slot < *slot);
            let r = read_blocks_from_point(dir, Point::Specific(*slot, vec![]));
            if n == 0 || *slot < db.blocks[0].slot {
                // not in the listed quantifier ("in and between blocks"): exercised, not judged
                obs.class("fuzzy:before-first-or-empty-db(unasserted)");
                if let Ok(it) = r {
                    let _ = it.count();
                }
                return Ok(());
            }
            if j == n {
                // past the tip: the requested suffix is empty; Err and Ok(empty) both accepted
                obs.class("fuzzy:past-tip");
                obs.nontrivial();
                return match r {
                    Err(_) => Ok(()),
                    Ok(it) => expect_blocks(it, &[], "from-fuzzy-past-tip", &ctx),
                };
            }
            obs.class(if db.blocks[j].slot == *slot { "fuzzy:on-block" } else { "fuzzy:between-blocks" });
            if db.chunk_starts.contains(&j) && j > 0 && db.blocks[j].slot != *slot {
                obs.class("fuzzy:in-chunk-gap");
            }
            obs.nontrivial();
            match r {
                Err(e) => pv_fail!("from-fuzzy:error", "{ctx}: fuzzy point rejected: {e}; expected the suffix from slot {}", db.blocks[j].slot),
                Ok(it) => expect_blocks(it, &db.blocks[j..], "from-fuzzy", &ctx),
            }
        }
        Q::AbsentFlippedHash { idx, byte, bit } => {
            if *idx >= n {
                obs.discard();
                return Ok(());
            }
            let b = db.blocks[*idx];
            let mut h = b.hash.to_vec();
            h[*byte as usize % 32] ^= 1 << (bit % 8);
            expect_absent(db, b.slot, h, "flipped-hash", obs)
        }
        Q::AbsentOtherHash { idx, other } => {
            if *idx >= n || *other >= n || idx == other {
                obs.discard();
                return Ok(());
            }
            expect_absent(db, db.blocks[*idx].slot, db.blocks[*other].hash.to_vec(), "other-blocks-hash", obs)
        }
        Q::AbsentWrongSlot { idx, slot } => {
            if *idx >= n || db.blocks[*idx].slot == *slot {
                obs.discard();
                return Ok(());
            }
            let on_block = db.blocks.binary_search_by_key(slot, |b| b.slot).is_ok();
            expect_absent(db, *slot, db.blocks[*idx].hash.to_vec(), if on_block { "real-hash-at-other-blocks-slot" } else { "real-hash-at-empty-slot" }, obs)
        }
        Q::AbsentHashPrefix { idx, len } => {
            if *idx >= n || *len == 0 || *len >= 32 {
                obs.discard();
                return Ok(());
            }
            let b = db.blocks[*idx];
            expect_absent(db, b.slot, b.hash[..*len as usize].to_vec(), "hash-prefix", obs)
        }
    }
}

fn resolve(db: &Db, q: &RQ) -> Option<Q> {
    let n = db.blocks.len();
    if n == 0 {
        return None;
    }
    let first = db.blocks[0].slot;
    let last = db.blocks[n - 1].slot;
    // positions cover [first, last + 2000]
    let anywhere = |pos: u32| first + (((last + 2000 - first) as u128 * pos as u128) >> 32) as u64;
    let shift = |slot: u64, d: i8| (slot as i64 + d as i64) as u64;
    Some(match q {
        RQ::Exact { sel } => Q::Exact { idx: pvkit::pick_idx(*sel, n) },
        RQ::FuzzyNear { sel, delta } => Q::Fuzzy { slot: shift(db.blocks[pvkit::pick_idx(*sel, n)].slot, *delta) },
        RQ::FuzzyAnywhere { pos } => Q::Fuzzy { slot: anywhere(*pos) },
        RQ::FlippedHash { sel, byte, bit } => Q::AbsentFlippedHash { idx: pvkit::pick_idx(*sel, n), byte: *byte % 32, bit: *bit % 8 },
        RQ::OtherHash { sel, other } => Q::AbsentOtherHash { idx: pvkit::pick_idx(*sel, n), other: pvkit::pick_idx(*other, n) },
        RQ::WrongSlotNear { sel, delta } => {
            let idx = pvkit::pick_idx(*sel, n);
            Q::AbsentWrongSlot { idx, slot: shift(db.blocks[idx].slot, *delta) }
        }
        RQ::WrongSlotAt { sel, at } => Q::AbsentWrongSlot { idx: pvkit::pick_idx(*sel, n), slot: db.blocks[pvkit::pick_idx(*at, n)].slot },
        RQ::WrongSlotAnywhere { sel, pos } => Q::AbsentWrongSlot { idx: pvkit::pick_idx(*sel, n), slot: anywhere(*pos) },
        RQ::HashPrefix { sel, len } => Q::AbsentHashPrefix { idx: pvkit::pick_idx(*sel, n), len: 1 + *len % 31 },
    })
}

fn rcase() -> impl Strategy<Value = RCase> {
    // databases with at least one immutable chunk: masks 3, 5, 6, 7
    // (and, one time in three, their variants with a cut newest immutable chunk)
    let db = (prop_oneof![Just(3u8), Just(5u8), Just(6u8), Just(7u8)], prop_oneof![4 => Just(0u8), 1 => Just(1u8), 1 => Just(2u8)]).prop_map(|(m, c)| m | (c << 3));
    let q = prop_oneof![
        2 => any::<u16>().prop_map(|sel| RQ::Exact { sel }),
        2 => (any::<u16>(), -3i8..=3).prop_map(|(sel, delta)| RQ::FuzzyNear { sel, delta }),
        2 => any::<u32>().prop_map(|pos| RQ::FuzzyAnywhere { pos }),
        1 => (any::<u16>(), 0u8..32, 0u8..8).prop_map(|(sel, byte, bit)| RQ::FlippedHash { sel, byte, bit }),
        1 => (any::<u16>(), any::<u16>()).prop_map(|(sel, other)| RQ::OtherHash { sel, other }),
        1 => (any::<u16>(), -3i8..=3).prop_map(|(sel, delta)| RQ::WrongSlotNear { sel, delta }),
        1 => (any::<u16>(), any::<u16>()).prop_map(|(sel, at)| RQ::WrongSlotAt { sel, at }),
        1 => (any::<u16>(), any::<u32>()).prop_map(|(sel, pos)| RQ::WrongSlotAnywhere { sel, pos }),
        1 => (any::<u16>(), 0u8..31).prop_map(|(sel, len)| RQ::HashPrefix { sel, len }),
    ];
    (db, q).prop_map(|(db, q)| RCase { db, q })
}

pub fn run(s: &Session) {
    // a panic of the harness itself (outside a case) must be visible, not a silent exit
    if let Err(p) = pvkit::panics::guarded(|| run_inner(s)) {
        s.health(false, &format!("harness panicked outside a case at {}: {}", p.location, p.msg));
    }
}

fn run_inner(s: &Session) {
    s.set_rule("(database, query). Databases: temp directories with every subset (incl. empty) of the three test_data chunk \
        triples, plus those whose newest immutable chunk is cut down to its first 1 / 2 / 17 blocks; the immutable part is all chunks but the greatest-named one. Queries: read_blocks, get_tip, \
        read_blocks_from_point at every immutable block as exact point, fuzzy (empty hash) at \
        block slots -1/0/+1, chunk-gap and past-tip slots (thorough: every slot inside every chunk's range), absent exact \
        points (flipped hash bit, another block's hash, real hash at a neighbouring/other block's/empty/beyond-tip slot, hash \
        prefix), plus random mixtures. Non-trivial = a query on a database with >= 1 immutable chunk whose outcome the oracle \
        asserts; distinct by (database, query)");
    s.assume("block slot and header hash are taken from an own parse of the block CBOR (pvkit::cborx) and pvkit's Blake2b-256; \
        the test_data chunks contain only post-Byron blocks");
    s.assume("the oracle's reading of the file formats is cross-checked at start-up against pvkit::corpus::chunk_blocks \
        (CBOR splitting) and the redundancies of the secondary index (header hash, CRC32, slot)");
    s.assume("a fuzzy point before the first immutable block and any fuzzy point on a database without immutable chunks are \
        exercised but not judged (outside the listed quantifier); a fuzzy point past the tip may yield Err or an empty iterator");
    s.assume("'fails' for an absent exact point = Err from read_blocks_from_point, or an iterator whose first item is Err");

    let chunks = match load_chunks() {
        Ok(c) => c,
        Err(m) => {
            s.health(false, &format!("oracle self-check failed: {m}"));
            return;
        }
    };
    s.note("oracle_blocks_per_chunk", serde_json::json!(chunks.iter().map(|c| c.len()).collect::<Vec<_>>()));
    // every subset as it is, plus the subsets with an immutable part whose newest immutable chunk holds 1 / 2 / 17 blocks
    let mut masks: Vec<u8> = (0u8..8).collect();
    for cut in 1u8..=3 {
        for sub in [3u8, 5, 6, 7] {
            if cut == 3 && sub != 7 {
                continue;
            }
            masks.push(sub | (cut << 3));
        }
    }
    let dbs = build_dbs(&chunks, &masks);
    let dbs = &dbs[..];
    let quick = s.quick();

    // whole-database reads and tips, every subset
    let mut fam = vec![];
    for &m in &masks {
        fam.push(Case { db: m, q: Q::ReadAll });
        fam.push(Case { db: m, q: Q::Tip });
    }
    s.foreach("whole-db", fam, true, |c, o| check(dbs, c, o));

    // exact points
    let mut fam = vec![];
    for db in dbs {
        let n = db.blocks.len();
        for idx in 0..n {
            fam.push(Case { db: db.mask, q: Q::Exact { idx } });
        }
    }
    s.foreach("exact-points", fam, true, |c, o| check(dbs, c, o));

    // fuzzy points
    let mut fam = vec![];
    for db in dbs {
        let n = db.blocks.len();
        if n == 0 {
            // exercised only
            fam.push(Case { db: db.mask, q: Q::Fuzzy { slot: 30_000_000 } });
            continue;
        }
        let mut slots = std::collections::BTreeSet::new();
        for (ci, &st) in db.chunk_starts.iter().enumerate() {
            let en = db.chunk_starts.get(ci + 1).copied().unwrap_or(n);
            let (lo, hi) = (db.blocks[st].slot, db.blocks[en - 1].slot);
            if quick {
                for b in &db.blocks[st..en] {
                    slots.extend([b.slot - 1, b.slot, b.slot + 1]);
                }
            } else {
                slots.extend(lo..=hi);
            }
            // the gap to the next chunk, or past the tip
            if en < n {
                let nxt = db.blocks[en].slot;
                slots.extend([hi + 1, hi + 2, hi + (nxt - hi) / 2, nxt - 2, nxt - 1]);
                if !quick {
                    slots.extend(((hi + 1)..nxt).step_by(9973));
                }
            } else {
                slots.extend([hi + 1, hi + 2, hi + 21_600, hi + 10_000_000, u64::MAX]);
            }
        }
        slots.insert(db.blocks[0].slot - 1); // unasserted
        for slot in slots {
            fam.push(Case { db: db.mask, q: Q::Fuzzy { slot } });
        }
    }
    s.foreach("fuzzy-slots", fam, false, |c, o| check(dbs, c, o));

    // absent exact points
    let mut fam = vec![];
    for db in dbs {
        let n = db.blocks.len();
        if n == 0 {
            continue;
        }
        let step = if quick { 23 } else { 1 };
        let mut idxs: Vec<usize> = (0..n).step_by(step).collect();
        for &st in &db.chunk_starts {
            idxs.extend([st, st + 1]);
            if st > 0 {
                idxs.push(st - 1);
            }
        }
        idxs.extend([n.saturating_sub(2), n - 1]);
        idxs.retain(|i| *i < n);
        idxs.sort();
        idxs.dedup();
        let last = db.blocks[n - 1].slot;
        for idx in idxs {
            let b = db.blocks[idx];
            fam.push(Case { db: db.mask, q: Q::AbsentFlippedHash { idx, byte: (idx % 32) as u8, bit: (idx % 8) as u8 } });
            // (a one-block database has no other block)
            if n > 1 {
                fam.push(Case { db: db.mask, q: Q::AbsentOtherHash { idx, other: (idx + 1) % n } });
                fam.push(Case { db: db.mask, q: Q::AbsentOtherHash { idx, other: (idx + n - 1) % n } });
                fam.push(Case { db: db.mask, q: Q::AbsentWrongSlot { idx, slot: db.blocks[(idx + 1) % n].slot } });
                fam.push(Case { db: db.mask, q: Q::AbsentWrongSlot { idx, slot: db.blocks[(idx + n - 1) % n].slot } });
            }
            fam.push(Case { db: db.mask, q: Q::AbsentWrongSlot { idx, slot: b.slot + 1 } });
            fam.push(Case { db: db.mask, q: Q::AbsentWrongSlot { idx, slot: b.slot - 1 } });
            fam.push(Case { db: db.mask, q: Q::AbsentWrongSlot { idx, slot: last + 1 } });
            fam.push(Case { db: db.mask, q: Q::AbsentWrongSlot { idx, slot: last + 1_000_000 } });
            fam.push(Case { db: db.mask, q: Q::AbsentWrongSlot { idx, slot: db.blocks[0].slot - 1 } });
            fam.push(Case { db: db.mask, q: Q::AbsentHashPrefix { idx, len: 31 } });
            fam.push(Case { db: db.mask, q: Q::AbsentHashPrefix { idx, len: 1 } });
        }
    }
    s.foreach("absent-points", fam, false, |c, o| check(dbs, c, o));

    // random mixtures
    s.forall("random-queries", s.pick(3_000, 60_000), rcase, |rc: &RCase, o: &mut Obs| {
        let Some(db) = dbs.iter().find(|d| d.mask == rc.db) else {
            o.discard();
            return Ok(());
        };
        match resolve(db, &rc.q) {
            Some(q) => check(dbs, &Case { db: rc.db, q }, o),
            None => {
                o.discard();
                Ok(())
            }
        }
    });

    s.health(s.class_count("exact:chunk-edge") > 0, "no exact point at a chunk edge");
    s.health(s.class_count("fuzzy:in-chunk-gap") > 0, "no fuzzy slot in the gap between two chunks");
    s.health(s.class_count("fuzzy:between-blocks") > 0, "no fuzzy slot between blocks");
    s.health(s.class_count("fuzzy:on-block") > 0, "no fuzzy slot on a block");
    s.health(s.class_count("absent:flipped-hash:slot-in-range") > 0, "no absent point with a wrong hash");
    s.health(s.class_count("absent:real-hash-at-empty-slot:slot-beyond-tip") > 0, "no absent point beyond the tip");
    s.health(s.class_count("db-chunks:3") > 0 && s.class_count("db-chunks:2") > 0, "database subsets not covered");
}
