//! C43 — immutable-DB readers report corrupted / truncated files as errors, never panic
//! (DESIGN §C43). Fault injection into copies of the test database.
//!
//! Every case builds its own temp directory (symlinks to the intact files, a real file for the one
//! faulted file, an empty `99999.chunk` so that every real chunk counts as immutable), has every
//! public reader driven over it and removes it. The readers are driven inside long-lived **worker
//! processes** (one per runner thread, `<exe> --c43-worker`, RLIMIT_AS = 4 GiB): a panic is caught
//! there per entry point, an allocation failure (which aborts a Rust process) or any other death of
//! the worker is a failure of the case being served, and so is an entry point that does not come
//! back within the per-step time limit (the worker is killed and replaced).
use crate::c42;
use crate::lightpanic;
use crate::imm::{self, TempDir, ENTRY};
use pallas_hardano::storage::immutable::{self as db, chunk, primary, secondary, Point};
use proptest::prelude::*;
use pvkit::{fnv64, Fail, Obs, Session};
use serde::{Deserialize, Serialize};
use std::collections::HashSet;
use std::path::{Path, PathBuf};

pub const MINI_BLOCKS: usize = 12;
const ITEM_CAP: usize = 100_000; // the longest legitimate iterator is a primary index: 21_601 entries
const WORKER_AS_LIMIT: u64 = 4 << 30;
/// per reader driven to exhaustion; generous (a loaded machine), intact databases take milliseconds
const CASE_TIMEOUT_S: u64 = 60;

#[derive(Debug, Clone, Copy, PartialEq, Eq, Serialize, Deserialize)]
pub enum Target {
    /// consistent prefix of chunk 01285 holding its first 12 blocks (all three files cut accordingly)
    Mini,
    C01285,
    C01836,
    /// the partially written last chunk of test_data (chunk holds 5 blocks, secondary lists 15, primary lists 1)
    C02019,
}

impl Target {
    fn idx(self) -> usize {
        match self {
            Target::Mini => 0,
            Target::C01285 => 1,
            Target::C01836 => 2,
            Target::C02019 => 3,
        }
    }
    fn name(self) -> &'static str {
        match self {
            Target::Mini | Target::C01285 => "01285",
            Target::C01836 => "01836",
            Target::C02019 => "02019",
        }
    }
}

#[derive(Debug, Clone, Copy, PartialEq, Eq, Serialize, Deserialize)]
pub enum FileKind {
    Chunk,
    Primary,
    Secondary,
}

impl FileKind {
    fn idx(self) -> usize {
        match self {
            FileKind::Chunk => 0,
            FileKind::Primary => 1,
            FileKind::Secondary => 2,
        }
    }
    fn ext(self) -> &'static str {
        imm::EXTS[self.idx()]
    }
}

/// New value of a primary-index offset (u32), relative to the intact file.
#[derive(Debug, Clone, Copy, PartialEq, Serialize, Deserialize)]
pub enum PVal {
    Zero,
    /// previous offset minus k (saturating): decreasing
    PrevMinus(u32),
    EqPrev,
    /// own value plus k: unaligned / skipping / beyond the secondary file
    Plus(u32),
    Max,
    HighBit,
    Raw(u32),
}

/// New value of a secondary-index block offset (u64).
#[derive(Debug, Clone, Copy, PartialEq, Serialize, Deserialize)]
pub enum SVal {
    Zero,
    PrevMinus(u32),
    EqPrev,
    Plus(u32),
    /// chunk file length plus k
    EofPlus(u32),
    /// 2^40
    Tera,
    /// 2^63 + own value
    HighBit,
    Max,
    Raw(u64),
}

#[derive(Debug, Clone, PartialEq, Serialize, Deserialize)]
pub enum Fault {
    None,
    Truncate { file: FileKind, len: u32 },
    Missing { file: FileKind },
    MissingTwo { a: FileKind, b: FileKind },
    /// overwrite primary offsets: (selector of the offset index, value)
    SetPrimary { edits: Vec<(u16, PVal)> },
    /// overwrite secondary block offsets: (selector of the entry index, value)
    SetSecondary { edits: Vec<(u16, SVal)> },
    /// xor bytes of an index file: (position selector, xor mask)
    FlipBytes { file: FileKind, edits: Vec<(u16, u8)> },
    /// every primary offset from the selected index on repeats the offset found there: the rest of the relative slots
    /// reads as one long run of empty slots
    FreezePrimaryFrom { sel: u16 },
    /// the primary index replaced by its version byte and `slots` zero offsets
    ZeroPrimary { slots: u32 },
}

#[derive(Debug, Clone, Serialize, Deserialize)]
pub struct Case {
    pub target: Target,
    pub fault: Fault,
    /// also drive the directory-level API (read_blocks, get_tip, read_blocks_from_point)
    pub db_level: bool,
    /// run the readers in the unoptimised build of the library (opt-level 0, 2 MiB thread stack), where recursion that
    /// an optimiser turns into a loop really recurses
    #[serde(default)]
    pub opt0: bool,
}

#[derive(Debug, Clone, Serialize, Deserialize)]
pub struct Probe {
    pub slot: u64,
    /// empty = fuzzy
    pub hash: String,
}

#[derive(Debug, Default, Serialize, Deserialize)]
pub struct Outcome {
    pub fails: Vec<(String, String)>,
    pub classes: Vec<String>,
}

// ---- driving the readers ---------------------------------------------------------------------

fn bucket(step: &str, ok: usize, err: usize, out: &mut Outcome) {
    let b = match (ok, err) {
        (0, 0) => "empty",
        (_, 0) => "all-ok",
        (0, _) => "only-err",
        _ => "ok-then-err",
    };
    out.classes.push(format!("{step}:{b}"));
}

/// Exhaust an iterator of results: (ok items, err items, gave up after ITEM_CAP items).
fn drain<T, E>(it: impl Iterator<Item = Result<T, E>>, mut on_ok: impl FnMut(&T)) -> (usize, usize, bool) {
    let (mut ok, mut err) = (0usize, 0usize);
    for item in it {
        match item {
            Ok(v) => {
                ok += 1;
                on_ok(&v);
            }
            Err(_) => err += 1,
        }
        if ok + err > ITEM_CAP {
            return (ok, err, true);
        }
    }
    (ok, err, false)
}

/// Drive every reader over `dir`; each call is guarded separately so that one panic does not hide
/// the behaviour of the other entry points. `progress` is told the step about to run.
pub fn exercise(
    dir: &Path,
    name: &str,
    db_level: bool,
    probes: &[Probe],
    truth: Option<&HashSet<u64>>,
    progress: &mut dyn FnMut(&str),
) -> Outcome {
    let mut out = Outcome::default();
    let bogus = std::cell::Cell::new(0usize);
    let genuine = |b: &Vec<u8>| {
        if let Some(t) = truth {
            if !t.contains(&fnv64(b)) {
                bogus.set(bogus.get() + 1);
            }
        }
    };
    let mut seen: Vec<String> = vec![];
    let mut step = |name: &str, body: &dyn Fn() -> Result<(usize, usize, bool), String>| {
        progress(name);
        match lightpanic::guarded(body) {
            Ok(Ok((ok, err, hung))) => {
                bucket(name, ok, err, &mut out);
                if hung {
                    out.fails.push((format!("iterator-does-not-terminate:{name}"), format!("{name} yielded more than {ITEM_CAP} items")));
                }
            }
            Ok(Err(_open_err)) => out.classes.push(format!("{name}:open-err")),
            Err(p) => {
                out.classes.push(format!("{name}:PANIC"));
                // root cause = (source file, message); a panic raised inside the standard library
                // is attributed to the entry point being driven. The directory-level readers wrap
                // the chunk reader, so a repeat of the same (file, message) in a later step of the
                // same case is the same root cause and is not listed again.
                let sig = if p.file.starts_with("pallas-") {
                    format!("panic@{}: {}", p.file, p.norm)
                } else {
                    format!("panic@{} (driving {}): {}", p.file, name.split('(').next().unwrap_or(name), p.norm)
                };
                let key = format!("{}|{}", p.file, p.norm);
                if !seen.contains(&key) {
                    seen.push(key);
                    out.fails.push((sig, format!("{name} panicked at {}:{}: {}", p.file, p.line, p.msg)));
                }
            }
        }
    };

    step("primary::Reader", &|| {
        let f = std::fs::File::open(dir.join(format!("{name}.primary"))).map_err(|e| e.to_string())?;
        let r = primary::Reader::open(f).map_err(|e| e.to_string())?;
        Ok(drain(r, |_| ()))
    });
    step("secondary::read_entries", &|| {
        let r = secondary::read_entries(dir, name).map_err(|e| e.to_string())?;
        Ok(drain(r, |_| ()))
    });
    step("chunk::read_blocks", &|| {
        let r = chunk::read_blocks(dir, name).map_err(|e| e.to_string())?;
        Ok(drain(r, genuine))
    });
    if db_level {
        step("read_blocks", &|| {
            let r = db::read_blocks(dir).map_err(|e| e.to_string())?;
            Ok(drain(r, genuine))
        });
        step("get_tip", &|| match db::get_tip(dir) {
            Ok(Some(_)) => Ok((1, 0, false)),
            Ok(None) => Ok((0, 0, false)),
            Err(e) => Err(e.to_string()),
        });
        for p in probes {
            let kind = if p.hash.is_empty() { "read_blocks_from_point(fuzzy)" } else { "read_blocks_from_point(exact)" };
            step(kind, &|| {
                let point = Point::Specific(p.slot, hex::decode(&p.hash).unwrap_or_default());
                let r = db::read_blocks_from_point(dir, point).map_err(|e| e.to_string())?;
                Ok(drain(r, |_| ()))
            });
        }
        step("read_blocks_from_point(origin)", &|| {
            let r = db::read_blocks_from_point(dir, Point::Origin).map_err(|e| e.to_string())?;
            Ok(drain(r, |_| ()))
        });
    }
    if bogus.get() > 0 {
        // observation only (the statement does not require Ok items to be genuine blocks)
        out.classes.push("observation:Ok-item-that-is-not-a-block-of-the-database".into());
    }
    out
}

#[derive(Serialize, Deserialize)]
struct Request {
    dir: PathBuf,
    name: String,
    db_level: bool,
    probes: Vec<Probe>,
}

/// fnv64 of every genuine block of the three test_data chunks: written once by the check process
/// (little-endian u64s) and handed to the workers through PV_C43_TRUTH.
fn load_truth() -> HashSet<u64> {
    std::env::var("PV_C43_TRUTH")
        .ok()
        .and_then(|p| std::fs::read(p).ok())
        .map(|b| b.chunks_exact(8).map(|c| u64::from_le_bytes(c.try_into().unwrap())).collect())
        .unwrap_or_default()
}

/// Entry point of the isolated worker (`<exe> --c43-worker`): serves one request per stdin line
/// (`Request` as JSON), answering with `STEP <name>` progress lines and one `RESULT <Outcome>` line.
pub fn worker_main(args: &[String]) -> ! {
    if let Some(sz) = std::env::var("PV_C43_WORKER_STACK").ok().and_then(|v| v.parse::<usize>().ok()) {
        std::env::remove_var("PV_C43_WORKER_STACK");
        let a = args.to_vec();
        let h = std::thread::Builder::new().stack_size(sz).spawn(move || worker_loop(&a)).expect("spawn worker thread");
        let _ = h.join();
        std::process::exit(3)
    }
    worker_loop(args)
}

fn worker_loop(_args: &[String]) -> ! {
    use std::io::{BufRead, Write};
    let truth = load_truth();
    let truth = if truth.is_empty() { None } else { Some(&truth) };
    let lim = libc::rlimit { rlim_cur: WORKER_AS_LIMIT, rlim_max: WORKER_AS_LIMIT };
    unsafe {
        // PV_C43_NO_RLIMIT: manual experiments only (what happens without an address-space limit)
        if std::env::var("PV_C43_NO_RLIMIT").is_err() {
            libc::setrlimit(libc::RLIMIT_AS, &lim);
        }
        // no core dumps from allocation-failure aborts
        let z = libc::rlimit { rlim_cur: 0, rlim_max: 0 };
        libc::setrlimit(libc::RLIMIT_CORE, &z);
    }
    let stdin = std::io::stdin();
    for line in stdin.lock().lines() {
        let Ok(line) = line else { break };
        let Ok(req) = serde_json::from_str::<Request>(&line) else { break };
        let mut progress = |s: &str| {
            let mut o = std::io::stdout().lock();
            let _ = writeln!(o, "STEP {s}");
            let _ = o.flush();
        };
        let out = exercise(&req.dir, &req.name, req.db_level, &req.probes, truth, &mut progress);
        let mut o = std::io::stdout().lock();
        let _ = writeln!(o, "RESULT {}", serde_json::to_string(&out).unwrap());
        let _ = o.flush();
    }
    std::process::exit(0)
}

/// A long-lived worker process owned by one runner thread; respawned after it dies or is killed.
struct Worker {
    child: std::process::Child,
    stdin: std::process::ChildStdin,
    stdout: std::process::ChildStdout,
    buf: Vec<u8>,
}

enum Line {
    Text(String),
    Eof,
    Timeout,
}

impl Worker {
    fn spawn(exe: &Path, truth_file: &Path, opt0: bool) -> std::io::Result<Worker> {
        use std::process::Stdio;
        let mut cmd = std::process::Command::new(exe);
        if opt0 {
            // the stack a spawned thread (and every `cargo test` test) gets by default
            cmd.env("PV_C43_WORKER_STACK", (2usize << 20).to_string());
        }
        let mut child = cmd
            .arg("--c43-worker")
            .env("PV_C43_TRUTH", truth_file)
            .stdin(Stdio::piped())
            .stdout(Stdio::piped())
            .stderr(Stdio::piped())
            .spawn()?;
        let stdin = child.stdin.take().unwrap();
        let stdout = child.stdout.take().unwrap();
        Ok(Worker { child, stdin, stdout, buf: vec![] })
    }

    /// Next line of the worker's stdout, waiting no longer than until `deadline`.
    fn read_line(&mut self, deadline: std::time::Instant) -> Line {
        use std::io::Read;
        use std::os::fd::AsRawFd;
        loop {
            if let Some(i) = self.buf.iter().position(|b| *b == b'\n') {
                let line: Vec<u8> = self.buf.drain(..=i).collect();
                return Line::Text(String::from_utf8_lossy(&line[..line.len() - 1]).to_string());
            }
            let now = std::time::Instant::now();
            if now >= deadline {
                return Line::Timeout;
            }
            let ms = (deadline - now).as_millis().min(i32::MAX as u128) as i32;
            let mut pfd = libc::pollfd { fd: self.stdout.as_raw_fd(), events: libc::POLLIN, revents: 0 };
            let r = unsafe { libc::poll(&mut pfd, 1, ms.max(1)) };
            if r == 0 {
                return Line::Timeout;
            }
            if r < 0 {
                if std::io::Error::last_os_error().kind() == std::io::ErrorKind::Interrupted {
                    continue;
                }
                return Line::Eof;
            }
            let mut tmp = [0u8; 8192];
            match self.stdout.read(&mut tmp) {
                Ok(0) | Err(_) => return Line::Eof,
                Ok(n) => self.buf.extend_from_slice(&tmp[..n]),
            }
        }
    }
}

impl Drop for Worker {
    fn drop(&mut self) {
        let _ = self.child.kill();
        let _ = self.child.wait();
    }
}

thread_local! {
    static WORKER: std::cell::RefCell<Option<Worker>> = const { std::cell::RefCell::new(None) };
    static WORKER0: std::cell::RefCell<Option<Worker>> = const { std::cell::RefCell::new(None) };
}

fn case_timeout() -> std::time::Duration {
    let s = std::env::var("PV_C43_TIMEOUT_S").ok().and_then(|v| v.parse().ok()).unwrap_or(CASE_TIMEOUT_S);
    std::time::Duration::from_secs(s)
}

fn run_in_worker(exe: &Path, truth_file: &Path, dir: &Path, name: &str, db_level: bool, probes: &[Probe], opt0: bool) -> Outcome {
    use std::io::{Read, Write};
    use std::os::unix::process::ExitStatusExt;
    let harness_fail = |m: String| Outcome { fails: vec![("harness:worker-io".into(), m)], classes: vec![] };
    let key = if opt0 { &WORKER0 } else { &WORKER };
    key.with(|slot| {
        let mut slot = slot.borrow_mut();
        if slot.is_none() {
            match Worker::spawn(exe, truth_file, opt0) {
                Ok(w) => *slot = Some(w),
                Err(e) => return harness_fail(format!("spawn: {e}")),
            }
        }
        let w = slot.as_mut().unwrap();
        let req = Request { dir: dir.to_owned(), name: name.to_string(), db_level, probes: probes.to_vec() };
        let mut line = serde_json::to_string(&req).unwrap();
        line.push('\n');
        let sent = w.stdin.write_all(line.as_bytes()).and_then(|_| w.stdin.flush());
        let mut last_step = "?".to_string();
        let mut timed_out = false;
        if sent.is_ok() {
            let limit = case_timeout();
            // the limit applies to each step (a reader driven to exhaustion), not to the whole case
            let mut deadline = std::time::Instant::now() + limit;
            loop {
                match w.read_line(deadline) {
                    Line::Eof => break,
                    Line::Timeout => {
                        timed_out = true;
                        break;
                    }
                    Line::Text(l) => {
                        if let Some(st) = l.strip_prefix("STEP ") {
                            last_step = st.to_string();
                            deadline = std::time::Instant::now() + limit;
                        } else if let Some(r) = l.strip_prefix("RESULT ") {
                            return match serde_json::from_str::<Outcome>(r) {
                                Ok(o) => o,
                                Err(e) => harness_fail(format!("unparsable result: {e}")),
                            };
                        }
                    }
                }
            }
        }
        // the worker died, or hangs, while serving this request
        let mut w = slot.take().unwrap();
        if timed_out {
            let _ = w.child.kill();
            let _ = w.child.wait();
            let step = last_step.split('(').next().unwrap_or("?").to_string();
            return Outcome {
                fails: vec![(
                    format!("does-not-terminate@{step}"),
                    format!("{last_step} did not finish within {} s (intact databases take milliseconds); worker killed", case_timeout().as_secs()),
                )],
                classes: vec![format!("{last_step}:HANG")],
            };
        }
        let status = w.child.wait();
        let mut stderr = String::new();
        if let Some(mut e) = w.child.stderr.take() {
            let _ = e.read_to_string(&mut stderr);
        }
        let first = stderr.lines().find(|l| !l.trim().is_empty()).unwrap_or("").trim().to_string();
        let how = match status {
            Ok(st) => match (st.signal(), st.code()) {
                (Some(s), _) => format!("signal {s}"),
                (_, Some(c)) => format!("exit {c}"),
                _ => "?".into(),
            },
            Err(e) => format!("wait: {e}"),
        };
        Outcome {
            fails: vec![(
                format!("process-abort@{last_step}: {}", lightpanic::normalise(&first)),
                format!("the process died ({how}) inside {last_step} under RLIMIT_AS={WORKER_AS_LIMIT}: {first}"),
            )],
            classes: vec![format!("{last_step}:ABORT")],
        }
    })
}

// ---- fault application ----------------------------------------------------------------------

pub struct Ctx {
    /// [target][file] intact contents
    files: Vec<[Vec<u8>; 3]>,
    /// where the intact file of [target][file] lives (symlink destination)
    paths: Vec<[PathBuf; 3]>,
    probes: Vec<Vec<Probe>>,
    deep_probes: Vec<Vec<Probe>>,
    exe: PathBuf,
    /// the same binary built with the `opt0` profile (PV_C43_OPT0_WORKER, set by ./check), if there is one
    exe0: Option<PathBuf>,
    truth_file: PathBuf,
    _mini_dir: TempDir,
}

fn apply(ctx: &Ctx, target: Target, fault: &Fault) -> Vec<(FileKind, Option<Vec<u8>>)> {
    let orig = |f: FileKind| &ctx.files[target.idx()][f.idx()];
    match fault {
        Fault::None => vec![],
        Fault::Truncate { file, len } => {
            let o = orig(*file);
            vec![(*file, Some(o[..(*len as usize).min(o.len())].to_vec()))]
        }
        Fault::Missing { file } => vec![(*file, None)],
        Fault::MissingTwo { a, b } => vec![(*a, None), (*b, None)],
        Fault::SetPrimary { edits } => {
            let mut o = orig(FileKind::Primary).clone();
            let n = (o.len().saturating_sub(1)) / 4;
            let intact: Vec<u32> = (0..n).map(|i| imm::be32(&o[1 + 4 * i..])).collect();
            for (sel, v) in edits {
                if n == 0 {
                    break;
                }
                let i = pvkit::pick_idx(*sel, n);
                let own = intact[i];
                let prev = if i > 0 { intact[i - 1] } else { 0 };
                let nv = match v {
                    PVal::Zero => 0,
                    PVal::PrevMinus(k) => prev.saturating_sub(*k),
                    PVal::EqPrev => prev,
                    PVal::Plus(k) => own.saturating_add(*k),
                    PVal::Max => u32::MAX,
                    PVal::HighBit => own | 0x8000_0000,
                    PVal::Raw(x) => *x,
                };
                o[1 + 4 * i..5 + 4 * i].copy_from_slice(&nv.to_be_bytes());
            }
            vec![(FileKind::Primary, Some(o))]
        }
        Fault::SetSecondary { edits } => {
            let mut o = orig(FileKind::Secondary).clone();
            let n = o.len() / ENTRY;
            let intact: Vec<u64> = (0..n).map(|i| imm::be64(&o[ENTRY * i..])).collect();
            let eof = orig(FileKind::Chunk).len() as u64;
            for (sel, v) in edits {
                if n == 0 {
                    break;
                }
                let i = pvkit::pick_idx(*sel, n);
                let own = intact[i];
                let prev = if i > 0 { intact[i - 1] } else { 0 };
                let nv = match v {
                    SVal::Zero => 0,
                    SVal::PrevMinus(k) => prev.saturating_sub(*k as u64),
                    SVal::EqPrev => prev,
                    SVal::Plus(k) => own + *k as u64,
                    SVal::EofPlus(k) => eof + *k as u64,
                    SVal::Tera => 1 << 40,
                    SVal::HighBit => own | (1 << 63),
                    SVal::Max => u64::MAX,
                    SVal::Raw(x) => *x,
                };
                o[ENTRY * i..ENTRY * i + 8].copy_from_slice(&nv.to_be_bytes());
            }
            vec![(FileKind::Secondary, Some(o))]
        }
        Fault::FreezePrimaryFrom { sel } => {
            let mut o = orig(FileKind::Primary).clone();
            let n = (o.len().saturating_sub(1)) / 4;
            if n > 0 {
                let i = pvkit::pick_idx(*sel, n);
                let v = imm::be32(&o[1 + 4 * i..]).to_be_bytes();
                for k in i..n {
                    o[1 + 4 * k..5 + 4 * k].copy_from_slice(&v);
                }
            }
            vec![(FileKind::Primary, Some(o))]
        }
        Fault::ZeroPrimary { slots } => {
            let ver = orig(FileKind::Primary).first().copied().unwrap_or(1);
            let mut o = vec![ver];
            o.extend(std::iter::repeat(0u8).take(4 * *slots as usize));
            vec![(FileKind::Primary, Some(o))]
        }
        Fault::FlipBytes { file, edits } => {
            let mut o = orig(*file).clone();
            for (sel, x) in edits {
                if o.is_empty() {
                    break;
                }
                let i = pvkit::pick_idx(*sel, o.len());
                o[i] ^= *x;
            }
            vec![(*file, Some(o))]
        }
    }
}

fn fault_class(f: &Fault) -> String {
    match f {
        Fault::None => "fault:none".into(),
        Fault::Truncate { file, len: 0 } => format!("fault:empty-{}", file.ext()),
        Fault::Truncate { file, .. } => format!("fault:truncate-{}", file.ext()),
        Fault::Missing { file } => format!("fault:missing-{}", file.ext()),
        Fault::MissingTwo { .. } => "fault:missing-two".into(),
        Fault::SetPrimary { .. } => "fault:primary-offsets".into(),
        Fault::SetSecondary { .. } => "fault:secondary-offsets".into(),
        Fault::FlipBytes { file, .. } => format!("fault:flip-{}", file.ext()),
        Fault::FreezePrimaryFrom { .. } => "fault:primary-frozen-tail".into(),
        Fault::ZeroPrimary { .. } => "fault:primary-all-zero".into(),
    }
}

/// Build the faulted database of a case. Returns the directory and whether anything differs from
/// the intact database.
fn build(ctx: &Ctx, c: &Case) -> (TempDir, bool) {
    let dir = TempDir::new("c43");
    let changes = apply(ctx, c.target, &c.fault);
    let mut differs = false;
    let others: &[Target] = match c.target {
        // small neighbourhood so that directory-level reads stay cheap
        Target::Mini => &[Target::Mini],
        _ => &[Target::C01285, Target::C01836, Target::C02019],
    };
    for &t in others {
        for f in [FileKind::Chunk, FileKind::Primary, FileKind::Secondary] {
            let dst = dir.path().join(format!("{}.{}", t.name(), f.ext()));
            let change = if t == c.target { changes.iter().find(|(k, _)| *k == f) } else { None };
            match change {
                Some((_, None)) => differs = true,
                Some((_, Some(bytes))) => {
                    differs |= *bytes != ctx.files[t.idx()][f.idx()];
                    std::fs::write(&dst, bytes).expect("write faulted file");
                }
                None => std::os::unix::fs::symlink(&ctx.paths[t.idx()][f.idx()], &dst).expect("symlink"),
            }
        }
    }
    // a later chunk, so that every chunk above is "immutable" (the last one is never opened)
    std::fs::write(dir.path().join("99999.chunk"), b"").expect("write");
    (dir, differs)
}

fn check(s: &Session, ctx: &Ctx, c: &Case, obs: &mut Obs) -> Result<(), Fail> {
    let (dir, differs) = build(ctx, c);
    obs.class(fault_class(&c.fault));
    obs.class(format!("target:{:?}", c.target));
    obs.class(if c.db_level { "level:directory" } else { "level:chunk" });
    let mut probes = ctx.probes[c.target.idx()].clone();
    if c.db_level && (!s.quick() || fnv64(format!("{c:?}").as_bytes()) % 8 == 0) {
        obs.class("deep-probes");
        probes.extend(ctx.deep_probes[c.target.idx()].iter().cloned());
    }
    let probes = &probes[..];
    let exe = match (c.opt0, &ctx.exe0) {
        (true, Some(e)) => e,
        (true, None) => {
            obs.class("unoptimised-worker-not-built");
            obs.discard();
            return Ok(());
        }
        _ => &ctx.exe,
    };
    if c.opt0 {
        obs.class("worker:unoptimised-build");
    }
    let out = run_in_worker(exe, &ctx.truth_file, dir.path(), c.target.name(), c.db_level, probes, c.opt0);
    drop(dir);
    for cl in &out.classes {
        obs.class(cl.clone());
    }
    if matches!(c.fault, Fault::None) {
        // sanity of the harness itself: the intact database must read without any error
        // (02019 is the half-written last chunk: its stub primary makes it read as one giant "block")
        let strict = ["primary::Reader:all-ok", "secondary::read_entries:all-ok", "chunk::read_blocks:all-ok", "read_blocks:all-ok"];
        for st in strict {
            if !out.classes.iter().any(|c| c == st) {
                return Err(Fail { sig: "harness:intact-db-reads-with-errors".into(), msg: format!("{:?}: expected {st}, got {:?}", c.target, out.classes) });
            }
        }
        if c.target == Target::Mini && out.classes.iter().any(|c| c.starts_with("observation:")) {
            return Err(Fail { sig: "harness:intact-db-yields-foreign-blocks".into(), msg: format!("{:?}: {:?}", c.target, out.classes) });
        }
    }
    obs.nontrivial_if(differs);
    // report the first failure that is not a known finding; otherwise the first known one (counted)
    let mut first_known = None;
    for (sig, msg) in out.fails {
        let f = Fail { sig, msg: format!("{msg} [case {c:?}]") };
        if s.is_known(&f.sig).is_none() {
            return Err(f);
        }
        first_known.get_or_insert(f);
    }
    match first_known {
        Some(f) => Err(f),
        None => Ok(()),
    }
}

// ---- generators ------------------------------------------------------------------------------

fn pval() -> impl Strategy<Value = PVal> {
    prop_oneof![
        Just(PVal::Zero),
        (1u32..200).prop_map(PVal::PrevMinus),
        Just(PVal::EqPrev),
        prop_oneof![1u32..8, Just(56u32), Just(112u32), 1000u32..100_000].prop_map(PVal::Plus),
        Just(PVal::Max),
        Just(PVal::HighBit),
        any::<u32>().prop_map(PVal::Raw),
    ]
}

fn sval() -> impl Strategy<Value = SVal> {
    prop_oneof![
        Just(SVal::Zero),
        (1u32..5000).prop_map(SVal::PrevMinus),
        Just(SVal::EqPrev),
        (1u32..5000).prop_map(SVal::Plus),
        (0u32..5000).prop_map(SVal::EofPlus),
        Just(SVal::Tera),
        Just(SVal::HighBit),
        Just(SVal::Max),
        any::<u64>().prop_map(SVal::Raw),
        (0u64..(1 << 34)).prop_map(SVal::Raw),
    ]
}

fn corrupt_case() -> impl Strategy<Value = Case> {
    let target = prop_oneof![6 => Just(Target::Mini), 1 => Just(Target::C01285), 1 => Just(Target::C01836), 1 => Just(Target::C02019)];
    let fault = prop_oneof![
        3 => prop::collection::vec((any::<u16>(), pval()), 1..=3).prop_map(|edits| Fault::SetPrimary { edits }),
        3 => prop::collection::vec((any::<u16>(), sval()), 1..=3).prop_map(|edits| Fault::SetSecondary { edits }),
        1 => prop::collection::vec((any::<u16>(), 1u8..=255), 1..=4).prop_map(|edits| Fault::FlipBytes { file: FileKind::Primary, edits }),
        1 => prop::collection::vec((any::<u16>(), 1u8..=255), 1..=4).prop_map(|edits| Fault::FlipBytes { file: FileKind::Secondary, edits }),
    ];
    (target, fault, 0u8..8).prop_map(|(target, fault, d)| {
        // directory level always for the small target, 1 in 8 for the big ones
        let db_level = target == Target::Mini || d == 0;
        Case { target, fault, db_level, opt0: false }
    })
}

// ---- set-up ------------------------------------------------------------------------------------

fn setup() -> Result<Ctx, String> {
    let td = pvkit::corpus::test_data();
    let chunks = c42::load_chunks()?;
    let rd = |n: &str, e: &str| std::fs::read(td.join(format!("{n}.{e}"))).map_err(|x| format!("{n}.{e}: {x}"));
    let mut files: Vec<[Vec<u8>; 3]> = vec![];
    let mut paths: Vec<[PathBuf; 3]> = vec![];
    // mini: consistent prefixes of the three files of 01285 holding its first MINI_BLOCKS blocks
    let (c, p, sx) = (rd("01285", "chunk")?, rd("01285", "primary")?, rd("01285", "secondary")?);
    let sec = imm::secondary_entries(&sx)?;
    let (_, offs) = imm::primary_offsets(&p)?;
    let want = (MINI_BLOCKS * ENTRY) as u32;
    let r = offs.iter().position(|o| *o == want).ok_or("mini: offset not found")?;
    let mini = [
        c[..sec[MINI_BLOCKS].block_offset as usize].to_vec(),
        p[..1 + 4 * (r + 1)].to_vec(),
        sx[..MINI_BLOCKS * ENTRY].to_vec(),
    ];
    let mini_dir = TempDir::new("c43-mini");
    let mut mini_paths: Vec<PathBuf> = vec![];
    for (i, ext) in imm::EXTS.iter().enumerate() {
        let pth = mini_dir.path().join(format!("01285.{ext}"));
        std::fs::write(&pth, &mini[i]).map_err(|e| e.to_string())?;
        mini_paths.push(pth);
    }
    // the oracle must read the mini chunk as exactly the first 12 blocks
    let mini_blocks = imm::read_chunk(mini_dir.path(), "01285")?;
    if mini_blocks.len() != MINI_BLOCKS || mini_blocks.iter().zip(&chunks[0]).any(|(a, b)| a.bytes != b.bytes) {
        return Err("mini chunk is not the first 12 blocks of 01285".into());
    }
    files.push(mini);
    paths.push([mini_paths[0].clone(), mini_paths[1].clone(), mini_paths[2].clone()]);
    for n in pvkit::corpus::CHUNKS {
        files.push([rd(n, "chunk")?, rd(n, "primary")?, rd(n, "secondary")?]);
        paths.push([td.join(format!("{n}.chunk")), td.join(format!("{n}.primary")), td.join(format!("{n}.secondary"))]);
    }
    let exact = |b: &imm::Blk| Probe { slot: b.slot, hash: hex::encode(b.hash) };
    let fuzzy = |b: &imm::Blk| Probe { slot: b.slot, hash: String::new() };
    let nxt = &chunks[2][0];
    // cheap probes sit at the start of a chunk (few blocks decoded while seeking)
    let probes = vec![
        vec![exact(&chunks[0][0]), fuzzy(&chunks[0][0]), fuzzy(&chunks[0][5]), exact(&chunks[0][5]), exact(&chunks[0][11]),
             Probe { slot: chunks[0][11].slot + 1, hash: String::new() }, fuzzy(nxt)],
        vec![exact(&chunks[0][0]), fuzzy(&chunks[0][3]), fuzzy(&chunks[1][0])],
        vec![exact(&chunks[1][0]), fuzzy(&chunks[1][3]), fuzzy(nxt)],
        vec![exact(nxt), fuzzy(nxt), fuzzy(&chunks[2][3]), exact(&chunks[1][2])],
    ];
    // deep probes make the seek walk (and decode) most of a big chunk; used on 1 case in 8
    let deep_probes = vec![
        vec![],
        vec![exact(&chunks[0][863]), fuzzy(&chunks[0][500])],
        vec![exact(&chunks[1][912]), fuzzy(&chunks[0][860])],
        vec![fuzzy(&chunks[1][910])],
    ];
    let truth_file = mini_dir.path().join("truth.bin");
    let mut tb = vec![];
    for b in chunks.iter().flatten() {
        tb.extend_from_slice(&fnv64(&b.bytes).to_le_bytes());
    }
    std::fs::write(&truth_file, tb).map_err(|e| e.to_string())?;
    Ok(Ctx { files, paths, probes, deep_probes, truth_file, exe: std::env::current_exe().map_err(|e| e.to_string())?,
        exe0: std::env::var_os("PV_C43_OPT0_WORKER").map(PathBuf::from).filter(|p| p.is_file()), _mini_dir: mini_dir })
}

pub fn run(s: &Session) {
    // a panic of the harness itself (outside a case) must be visible, not a silent exit
    if let Err(p) = pvkit::panics::guarded(|| run_inner(s)) {
        s.health(false, &format!("harness panicked outside a case at {}: {}", p.location, p.msg));
    }
}

fn run_inner(s: &Session) {
    s.set_rule("(target chunk, fault, level). Targets: a 12-block consistent prefix of chunk 01285 ('Mini'), and the three \
        test_data chunks. Faults: every truncation length of each index file and of the Mini chunk file (quick: every 31st \
        length plus all entry boundaries +-1 for the big index files), truncated big chunk files, missing / empty files, \
        overwritten primary offsets (zero, decreasing, equal, unaligned, beyond the secondary file, high bit, max, random) at \
        every position of the Mini primary, overwritten secondary block offsets (zero, decreasing, equal, beyond end of chunk, \
        2^40, high bit, max, random) at every Mini entry, random combinations of 1..3 such edits and random byte flips in any \
        target. Every reader is driven to exhaustion: primary::Reader, secondary::read_entries, chunk::read_blocks and, at \
        directory level, read_blocks, get_tip, read_blocks_from_point (exact, fuzzy, origin). Non-trivial = the faulted \
        database differs from the intact one; distinct by (target, fault, level)");
    s.assume("only absence of panics / aborts / non-termination is asserted; an Ok item that is not a genuine block is recorded \
        as an observation class, not a violation (the statement allows 'errors or fewer blocks' and is silent on contents)");
    s.assume("readers run in worker processes with RLIMIT_AS = 4 GiB; a process abort there (allocation failure) is a failure \
        of the case, and so is a reader that has not finished 60 s after it was started (PV_C43_TIMEOUT_S overrides)");
    s.assume("the harness is built with overflow-checks = on (DESIGN §1): arithmetic overflow in the readers is a panic");
    let ctx = match setup() {
        Ok(c) => c,
        Err(m) => {
            s.health(false, &format!("set-up failed: {m}"));
            return;
        }
    };
    let ctx = &ctx;
    let quick = s.quick();
    let ck = |c: &Case, o: &mut Obs| check(s, ctx, c, o);
    let all_targets = [Target::Mini, Target::C01285, Target::C01836, Target::C02019];
    let files = [FileKind::Chunk, FileKind::Primary, FileKind::Secondary];

    // 0. intact databases (harness sanity) + missing / empty files
    let mut fam = vec![];
    for t in all_targets {
        fam.push(Case { target: t, fault: Fault::None, db_level: true, opt0: false });
        for f in files {
            fam.push(Case { target: t, fault: Fault::Missing { file: f }, db_level: true, opt0: false });
            fam.push(Case { target: t, fault: Fault::Truncate { file: f, len: 0 }, db_level: true, opt0: false });
            for g in files {
                if f.idx() < g.idx() {
                    fam.push(Case { target: t, fault: Fault::MissingTwo { a: f, b: g }, db_level: true, opt0: false });
                }
            }
        }
    }
    s.foreach("intact-missing-empty", fam, true, ck);
    s.health(s.class_count("fault:none") == 4, "intact databases not exercised");

    // 1. every truncation of the small files, directory level
    let mut fam = vec![];
    for (t, f) in [(Target::Mini, FileKind::Primary), (Target::Mini, FileKind::Secondary), (Target::C02019, FileKind::Primary), (Target::C02019, FileKind::Secondary)] {
        let n = ctx.files[t.idx()][f.idx()].len();
        for len in 0..n {
            fam.push(Case { target: t, fault: Fault::Truncate { file: f, len: len as u32 }, db_level: true, opt0: false });
        }
    }
    s.foreach("truncate-small-index", fam, true, ck);

    // 2. truncations of the Mini chunk file (block boundaries +-1, and a stride), directory level
    let mut fam = vec![];
    {
        let sec = imm::secondary_entries(&ctx.files[0][2]).unwrap();
        let n = ctx.files[0][0].len();
        let mut lens = std::collections::BTreeSet::new();
        for e in &sec {
            for d in [-1i64, 0, 1, 2, 9] {
                let l = e.block_offset as i64 + d;
                if l >= 0 && (l as usize) < n {
                    lens.insert(l as usize);
                }
            }
        }
        lens.extend((0..n).step_by(s.pick(211, 1)));
        lens.insert(n - 1);
        for len in lens {
            fam.push(Case { target: Target::Mini, fault: Fault::Truncate { file: FileKind::Chunk, len: len as u32 }, db_level: true, opt0: false });
        }
    }
    s.foreach("truncate-mini-chunk", fam, !quick, ck);

    // 3. truncations of the big index files: chunk level everywhere, directory level on a stride
    let mut fam = vec![];
    for t in [Target::C01285, Target::C01836] {
        for f in [FileKind::Primary, FileKind::Secondary] {
            let n = ctx.files[t.idx()][f.idx()].len();
            let unit = if f == FileKind::Primary { 4 } else { ENTRY };
            let mut lens = std::collections::BTreeSet::new();
            if quick {
                lens.extend((0..n).step_by(31));
                lens.extend(0..n.min(130));
                lens.extend(n.saturating_sub(130)..n);
                if f == FileKind::Secondary {
                    for k in (0..n / unit).step_by(4) {
                        lens.extend([(k * unit).saturating_sub(1), k * unit, k * unit + 1, k * unit + 8]);
                    }
                }
            } else {
                lens.extend(0..n);
            }
            for (i, len) in lens.into_iter().filter(|l| *l < n).enumerate() {
                fam.push(Case { target: t, fault: Fault::Truncate { file: f, len: len as u32 }, db_level: i % s.pick(40, 200) == 0, opt0: false });
            }
        }
        // big chunk file cut at / inside blocks
        let sec = imm::secondary_entries(&ctx.files[t.idx()][2]).unwrap();
        for k in (1..sec.len()).step_by(s.pick(97, 7)) {
            for d in [0u64, 1, 100] {
                fam.push(Case { target: t, fault: Fault::Truncate { file: FileKind::Chunk, len: (sec[k].block_offset + d) as u32 }, db_level: k % 2 == 1, opt0: false });
            }
        }
    }
    s.foreach("truncate-big", fam, !quick, ck);

    // 4. systematic offset overwrites on the Mini target: every position x every kind of value
    let mut fam = vec![];
    {
        let n_off = (ctx.files[0][1].len() - 1) / 4;
        let pvals = [PVal::Zero, PVal::PrevMinus(1), PVal::PrevMinus(56), PVal::EqPrev, PVal::Plus(1), PVal::Plus(56), PVal::Plus(112),
            PVal::Plus(100_000), PVal::Max, PVal::HighBit];
        let stride = s.pick(3, 1);
        for i in (0..n_off).filter(|i| i % stride == 0 || *i < 24 || *i + 8 > n_off) {
            // selector that maps back to i
            let sel = sel_for(i, n_off);
            for v in pvals {
                fam.push(Case { target: Target::Mini, fault: Fault::SetPrimary { edits: vec![(sel, v)] }, db_level: true, opt0: false });
            }
        }
        let svals = [SVal::Zero, SVal::PrevMinus(1), SVal::PrevMinus(3000), SVal::EqPrev, SVal::Plus(1), SVal::Plus(3000), SVal::EofPlus(0),
            SVal::EofPlus(1), SVal::EofPlus(4096), SVal::Raw(1 << 31), SVal::Raw(3 << 30), SVal::Raw(1 << 33), SVal::Tera, SVal::HighBit, SVal::Max];
        for i in 0..MINI_BLOCKS {
            let sel = sel_for(i, MINI_BLOCKS);
            for v in svals {
                fam.push(Case { target: Target::Mini, fault: Fault::SetSecondary { edits: vec![(sel, v)] }, db_level: true, opt0: false });
            }
        }
    }
    s.foreach("overwrite-offsets-mini", fam, false, ck);

    // 4b. long runs of empty relative slots (offsets that stop advancing; an all-zero primary index), in the optimised
    // build and again in the unoptimised one, where a skip-the-empties recursion is not turned into a loop
    let mut fam = vec![];
    for opt0 in [false, true] {
        for t in all_targets {
            for sel in [0u16, 1, 300, 0x4000, 0x8000, 0xfff0] {
                for db_level in [false, true] {
                    fam.push(Case { target: t, fault: Fault::FreezePrimaryFrom { sel }, db_level, opt0 });
                }
            }
            for slots in [1u32, 21_600, 60_000, 90_000] {
                fam.push(Case { target: t, fault: Fault::ZeroPrimary { slots }, db_level: slots % 2 == 0, opt0 });
            }
        }
        fam.push(Case { target: Target::C01836, fault: Fault::None, db_level: true, opt0 });
    }
    s.foreach("long-empty-runs", fam, true, ck);
    if !s.replaying() {
        s.health(s.class_count("unoptimised-worker-not-built") == 0, "the unoptimised worker (PV_C43_OPT0_WORKER, built by ./check) is missing: the long-empty-runs family ran in the optimised build only");
    }

    // 5. random combinations, all targets
    s.forall("random-corruption", s.pick(1_200, 20_000), corrupt_case, ck);

    for need in ["fault:truncate-primary", "fault:truncate-secondary", "fault:truncate-chunk", "fault:missing-primary", "fault:empty-secondary",
        "fault:primary-offsets", "fault:secondary-offsets", "level:directory", "chunk::read_blocks:ok-then-err", "chunk::read_blocks:open-err"] {
        s.health(s.class_count(need) > 0, &format!("class never seen: {need}"));
    }
}

/// A selector `sel` with `pick_idx(sel, n) == i`.
fn sel_for(i: usize, n: usize) -> u16 {
    let mut sel = ((i << 16) / n) as u32;
    while pvkit::pick_idx(sel as u16, n) < i {
        sel += 1;
    }
    sel as u16
}
