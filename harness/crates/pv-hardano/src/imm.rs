//! Independent reader of the Haskell-node immutable-DB file formats (the oracle for C42 and the
//! "where are the offsets" map for C43), written from the ouroboros-consensus storage report
//! §8.2.2 and *not* reusing any pallas-hardano code:
//!
//! * `NNNNN.primary`   : 1 version byte, then big-endian u32 offsets into the secondary index, one
//!   per relative slot plus a final one; relative slot `i` is occupied iff `off[i+1] > off[i]`,
//!   its secondary entry then starts at `off[i]`.
//! * `NNNNN.secondary` : 56-byte entries: block offset u64, header offset u16, header size u16,
//!   checksum u32 (CRC32 of the block), header hash [32], block-no-or-EBB u64 — all big-endian.
//! * `NNNNN.chunk`     : the blocks, concatenated; block `i` spans
//!   `[entry[i].block_offset, entry[i+1].block_offset)`, the last one runs to the end of file.
use pvkit::{blake2b, cborx, crc32};
use std::path::{Path, PathBuf};
use std::sync::atomic::{AtomicU64, Ordering};

pub const ENTRY: usize = 56;

#[derive(Clone, Debug)]
pub struct Blk {
    pub slot: u64,
    pub hash: [u8; 32],
    pub bytes: Vec<u8>,
}

#[derive(Clone, Debug)]
pub struct SecEntry {
    pub block_offset: u64,
    pub header_offset: u16,
    pub header_size: u16,
    pub checksum: u32,
    pub header_hash: [u8; 32],
    pub block_or_ebb: u64,
}

pub fn be32(b: &[u8]) -> u32 {
    u32::from_be_bytes([b[0], b[1], b[2], b[3]])
}
pub fn be64(b: &[u8]) -> u64 {
    u64::from_be_bytes([b[0], b[1], b[2], b[3], b[4], b[5], b[6], b[7]])
}

/// All offsets of a primary index file (without the version byte).
pub fn primary_offsets(data: &[u8]) -> Result<(u8, Vec<u32>), String> {
    if data.is_empty() {
        return Err("primary: empty".into());
    }
    if (data.len() - 1) % 4 != 0 {
        return Err(format!("primary: {} bytes is not 1+4k", data.len()));
    }
    Ok((data[0], data[1..].chunks(4).map(be32).collect()))
}

pub fn secondary_entries(data: &[u8]) -> Result<Vec<SecEntry>, String> {
    if data.len() % ENTRY != 0 {
        return Err(format!("secondary: {} bytes is not a multiple of 56", data.len()));
    }
    Ok(data
        .chunks(ENTRY)
        .map(|e| SecEntry {
            block_offset: be64(&e[0..8]),
            header_offset: u16::from_be_bytes([e[8], e[9]]),
            header_size: u16::from_be_bytes([e[10], e[11]]),
            checksum: be32(&e[12..16]),
            header_hash: e[16..48].try_into().unwrap(),
            block_or_ebb: be64(&e[48..56]),
        })
        .collect())
}

/// (slot, header hash) of a post-Byron block `[era, [header, ...]]`, `header = [body, sig]`,
/// `body[1] = slot`; hash = Blake2b-256 of the header's bytes. Own parse with cborx + own Blake2b.
pub fn slot_and_hash(block: &[u8]) -> Result<(u64, [u8; 32]), String> {
    let top = cborx::read(block).map_err(|e| format!("block is not one CBOR item: {e:?}"))?;
    let arr = top.as_array().ok_or("block: not an array")?;
    if arr.len() != 2 {
        return Err("block: not [era, block]".into());
    }
    let era = arr[0].as_u64().ok_or("block: era not uint")?;
    if era < 2 {
        return Err(format!("block: Byron era tag {era} not supported by this oracle"));
    }
    let inner = arr[1].as_array().ok_or("block: body not array")?;
    let header = inner.first().ok_or("block: empty")?;
    let hb = header.as_array().and_then(|h| h.first()).and_then(|b| b.as_array()).ok_or("block: header body")?;
    let slot = hb.get(1).and_then(|n| n.as_u64()).ok_or("block: slot")?;
    let hash = blake2b::b256(header.span(block));
    Ok((slot, hash))
}

/// The blocks of one chunk triple, read through the index files, with every redundancy in the
/// format checked (so that a misreading of the format by this oracle cannot go unnoticed).
pub fn read_chunk(dir: &Path, name: &str) -> Result<Vec<Blk>, String> {
    let rd = |ext: &str| std::fs::read(dir.join(format!("{name}.{ext}"))).map_err(|e| format!("{name}.{ext}: {e}"));
    let (version, offs) = primary_offsets(&rd("primary")?)?;
    if version != 1 {
        return Err(format!("{name}.primary: version {version}"));
    }
    let sec_raw = rd("secondary")?;
    let sec = secondary_entries(&sec_raw)?;
    let chunk = rd("chunk")?;
    // occupied relative slots -> secondary offsets
    let mut occupied = vec![];
    for w in offs.windows(2) {
        if w[1] < w[0] {
            return Err(format!("{name}.primary: offsets decrease"));
        }
        if w[1] > w[0] {
            if w[1] - w[0] != ENTRY as u32 {
                return Err(format!("{name}.primary: step {} is not one entry", w[1] - w[0]));
            }
            occupied.push(w[0]);
        }
    }
    if offs.first() != Some(&0) || *offs.last().unwrap() as usize != sec_raw.len() {
        return Err(format!("{name}.primary: first/last offset do not bracket the secondary file"));
    }
    if occupied.len() != sec.len() || occupied.iter().enumerate().any(|(i, o)| *o as usize != i * ENTRY) {
        return Err(format!("{name}: primary does not enumerate the secondary entries"));
    }
    let mut out = vec![];
    for (i, e) in sec.iter().enumerate() {
        let lo = e.block_offset as usize;
        let hi = if i + 1 < sec.len() { sec[i + 1].block_offset as usize } else { chunk.len() };
        if lo >= hi || hi > chunk.len() {
            return Err(format!("{name}.secondary: entry {i} spans {lo}..{hi}"));
        }
        let bytes = chunk[lo..hi].to_vec();
        let (slot, hash) = slot_and_hash(&bytes).map_err(|m| format!("{name} block {i}: {m}"))?;
        let (ho, hs) = (e.header_offset as usize, e.header_size as usize);
        if ho + hs > bytes.len() || blake2b::b256(&bytes[ho..ho + hs]) != e.header_hash {
            return Err(format!("{name} block {i}: header offset/size do not delimit the hashed header"));
        }
        if hash != e.header_hash {
            return Err(format!("{name} block {i}: header hash differs from the secondary index"));
        }
        if crc32::crc32(&bytes) != e.checksum {
            return Err(format!("{name} block {i}: CRC32 differs from the secondary index"));
        }
        if e.block_or_ebb != slot {
            return Err(format!("{name} block {i}: block-or-EBB field {} != slot {slot}", e.block_or_ebb));
        }
        out.push(Blk { slot, hash, bytes });
    }
    if sec.first().map(|e| e.block_offset) != Some(0) {
        return Err(format!("{name}.secondary: first block does not start at 0"));
    }
    Ok(out)
}

// ---- temporary database directories -------------------------------------------------------

static COUNTER: AtomicU64 = AtomicU64::new(0);

/// A directory under the system temp dir, removed on drop.
pub struct TempDir(pub PathBuf);

impl TempDir {
    pub fn new(tag: &str) -> TempDir {
        let n = COUNTER.fetch_add(1, Ordering::SeqCst);
        let p = std::env::temp_dir().join(format!("pv-hardano-{}-{}-{}", tag, std::process::id(), n));
        let _ = std::fs::remove_dir_all(&p);
        std::fs::create_dir_all(&p).expect("create temp dir");
        TempDir(p)
    }
    pub fn path(&self) -> &Path {
        &self.0
    }
}

impl Drop for TempDir {
    fn drop(&mut self) {
        let _ = std::fs::remove_dir_all(&self.0);
    }
}

pub const EXTS: [&str; 3] = ["chunk", "primary", "secondary"];

/// Symlink the three files of chunk `name` of `<repo>/test_data` into `dir` under `as_name`.
pub fn link_chunk(dir: &Path, name: &str, as_name: &str) {
    let td = pvkit::corpus::test_data();
    for ext in EXTS {
        std::os::unix::fs::symlink(td.join(format!("{name}.{ext}")), dir.join(format!("{as_name}.{ext}")))
            .expect("symlink");
    }
}

/// Write chunk `name` of `<repo>/test_data` into `dir` under `as_name`, cut down to its first `keep` blocks: chunk file up
/// to the end of block `keep-1`, the first `keep` secondary-index entries, and the primary index with every offset
/// beyond them flattened (the later relative slots read as empty). A chunk simply holds as many blocks as were made
/// in its slot range, so this is a well-formed chunk of a quieter chain.
pub fn write_chunk_head(dir: &Path, name: &str, as_name: &str, keep: usize) {
    let td = pvkit::corpus::test_data();
    let rd = |ext: &str| std::fs::read(td.join(format!("{name}.{ext}"))).expect("read chunk file");
    let (chunk, primary, secondary) = (rd("chunk"), rd("primary"), rd("secondary"));
    let at = keep * ENTRY;
    let end = if secondary.len() >= at + 8 { be64(&secondary[at..at + 8]) as usize } else { chunk.len() };
    let mut np = vec![primary[0]];
    for o in primary[1..].chunks_exact(4) {
        np.extend_from_slice(&be32(o).min(at as u32).to_be_bytes());
    }
    let wr = |ext: &str, data: &[u8]| std::fs::write(dir.join(format!("{as_name}.{ext}")), data).expect("write chunk file");
    wr("chunk", &chunk[..end]);
    wr("primary", &np);
    wr("secondary", &secondary[..at.min(secondary.len())]);
}
