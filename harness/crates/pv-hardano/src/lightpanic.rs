//! Cheap panic capture for C43. pvkit's hook symbolises a backtrace to name the pallas function,
//! which costs seconds of CPU the first time in every process — unaffordable in one-shot worker
//! processes. While a thread is inside `guarded`, this hook only records (file, line, message);
//! otherwise it defers to the previously installed hook (pvkit's, in the check process).
use std::cell::{Cell, RefCell};
use std::panic::{catch_unwind, AssertUnwindSafe};
use std::sync::Once;

pub struct Caught {
    /// source file, relative to the repository (or `std:<path>` for the standard library)
    pub file: String,
    pub line: u32,
    pub msg: String,
    /// the message with digit runs replaced by `N`
    pub norm: String,
}

thread_local! {
    static LIGHT: Cell<bool> = const { Cell::new(false) };
    static LAST: RefCell<Option<(String, u32, String)>> = const { RefCell::new(None) };
}
static INSTALL: Once = Once::new();

pub fn install() {
    INSTALL.call_once(|| {
        let prev = std::panic::take_hook();
        std::panic::set_hook(Box::new(move |info| {
            if !LIGHT.with(|l| l.get()) {
                return prev(info);
            }
            let msg = if let Some(s) = info.payload().downcast_ref::<&str>() {
                s.to_string()
            } else if let Some(s) = info.payload().downcast_ref::<String>() {
                s.clone()
            } else {
                "<non-string panic payload>".to_string()
            };
            let (file, line) = info.location().map(|l| (l.file().to_string(), l.line())).unwrap_or_default();
            LAST.with(|l| *l.borrow_mut() = Some((file, line, msg)));
        }));
    });
}

fn rel_file(f: &str) -> String {
    if let Some(i) = f.find("/pallas-") {
        return f[i + 1..].to_string();
    }
    if let Some(rest) = f.strip_prefix("/rustc/") {
        if let Some(j) = rest.find('/') {
            return format!("std:{}", &rest[j + 1..]);
        }
    }
    if let Some(i) = f.find("/library/") {
        return format!("std:{}", &f[i + 1..]);
    }
    f.to_string()
}

pub fn normalise(msg: &str) -> String {
    let mut out = String::new();
    let mut in_digits = false;
    for c in msg.chars() {
        if c.is_ascii_digit() {
            if !in_digits {
                out.push('N');
                in_digits = true;
            }
        } else {
            in_digits = false;
            out.push(if c == '\n' { ' ' } else { c });
        }
        if out.len() > 120 {
            break;
        }
    }
    out
}

pub fn guarded<T>(f: impl FnOnce() -> T) -> Result<T, Caught> {
    install();
    LAST.with(|l| *l.borrow_mut() = None);
    let before = LIGHT.with(|l| l.replace(true));
    let r = catch_unwind(AssertUnwindSafe(f));
    LIGHT.with(|l| l.set(before));
    match r {
        Ok(v) => Ok(v),
        Err(_) => {
            let (file, line, msg) = LAST.with(|l| l.borrow_mut().take()).unwrap_or(("?".into(), 0, "<no info>".into()));
            Ok::<(), ()>(()).ok();
            Err(Caught { file: rel_file(&file), line, norm: normalise(&msg), msg })
        }
    }
}
