mod c42;
mod c43;
mod imm;
mod lightpanic;

use pvkit::session::CheckDef;

fn main() {
    // isolated worker of C43 (see c43::run_in_worker)
    let args: Vec<String> = std::env::args().collect();
    if args.get(1).map(|s| s.as_str()) == Some("--c43-worker") {
        c43::worker_main(&args[2..]);
    }
    pvkit::main(&[
        CheckDef { id: "C42", level: "exploration", run: c42::run },
        CheckDef { id: "C43", level: "fault_enumeration", run: c43::run },
    ]);
}
