//! Hand reproduction of the findings of this group, calling pallas directly (no harness code).
use pallas_codec::minicbor;
use pallas_primitives::alonzo::PlutusData;
use pallas_traverse::wellknown::GenesisValues;
use pallas_utxorpc::{LedgerContext, TxoRef, UtxoMap};

#[derive(Clone)]
struct NoLedger;
impl LedgerContext for NoLedger {
    fn get_utxos(&self, _: &[TxoRef]) -> Option<UtxoMap> { None }
    fn get_slot_timestamp(&self, _: u64) -> Option<u64> { None }
}

fn main() {
    // C32
    let g = GenesisValues::mainnet();
    let (e, s) = g.absolute_slot_to_relative(21600);
    println!("C32 mainnet 21600 -> ({e},{s}) -> {}", g.relative_slot_to_absolute(e, s));
    let t = GenesisValues::testnet();
    println!("C32 testnet wallclock(1598399)={} wallclock(1598400)={}", t.slot_to_wallclock(1598399), t.slot_to_wallclock(1598400));
    // C44: Plutus integer 2^64-1 and -2^64
    for h in ["1bffffffffffffffff", "3bffffffffffffffff", "1b8000000000000000", "3b8000000000000000"] {
        let pd: PlutusData = minicbor::decode(&hex::decode(h).unwrap()).unwrap();
        let a = pallas_utxorpc::v1alpha::Mapper::new(NoLedger).map_plutus_datum(&pd);
        let b = pallas_utxorpc::v1beta::Mapper::new(NoLedger).map_plutus_datum(&pd);
        println!("C44 datum {h}: v1alpha {:?} | v1beta {:?}", a, b);
    }
    // C44: address bytes of alonzo27.block output
    let repo = std::env::var("PALLAS_REPO").unwrap_or("/repo".into());
    let raw = hex::decode(std::fs::read_to_string(format!("{repo}/test_data/alonzo27.block")).unwrap().trim()).unwrap();
    let blk = pallas_traverse::MultiEraBlock::decode(&raw).unwrap();
    for (i, tx) in blk.txs().iter().enumerate() {
        let m = pallas_utxorpc::v1alpha::Mapper::new(NoLedger).map_tx(tx);
        for (k, (o, mo)) in tx.outputs().iter().zip(&m.outputs).enumerate() {
            let rawaddr = o.as_alonzo().map(|x| x.address.to_vec()).unwrap_or_default();
            if rawaddr != mo.address.to_vec() {
                println!("C44 alonzo27 tx {i} output {k}: wire address {} bytes, mapped {} bytes; address() = {:?}", rawaddr.len(), mo.address.len(), o.address().map(|a| a.to_hex()));
            }
        }
    }
}
