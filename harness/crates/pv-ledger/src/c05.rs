//! C05 — identity hashes are taken over the original wire bytes (DESIGN §C05).
//!
//! Oracle: cborx finds the byte span of every hashed item in the (mutated) artefact following
//! `layout.rs`; the expected identifier is pvkit's Blake2b of exactly these bytes with the era rule.
use crate::layout::{self, DatumRef, ScriptRefView, TxView};
use crate::pool::{self, Decoded, FormOp};
use pallas_primitives::conway;
use pallas_traverse::{ComputeHash, MultiEraHeader, MultiEraTx, OriginalHash};
use proptest::prelude::*;
use pvkit::blake2b::b256;
use pvkit::{cborx, hexs, pv_ensure, pv_fail, Fail, Obs, Session};
use serde::{Deserialize, Serialize};

#[derive(Debug, Clone, Serialize, Deserialize)]
pub struct Case {
    pub name: String,
    pub ops: Vec<FormOp>,
    /// "header": for block artefacts, apply the mutations inside the header item only (so that every era's
    /// header — also the rare epoch-boundary one — gets re-encodings of its own fields, not of its transactions)
    #[serde(default)]
    pub focus: Option<String>,
}

fn era_class(tx: &MultiEraTx) -> &'static str {
    match tx {
        MultiEraTx::Byron(_) => "byron",
        MultiEraTx::AlonzoCompatible(..) => "alonzo-compatible",
        MultiEraTx::Babbage(_) => "babbage",
        MultiEraTx::Conway(_) => "conway",
        _ => "other",
    }
}

/// Hashes of one transaction against its cborx view. Sets `diverges` when pallas' own
/// re-encoding of some hashed item hashes differently from the wire bytes.
pub fn check_tx(tx: &MultiEraTx, view: &TxView, src: &[u8], obs: &mut Obs, diverges: &mut bool) -> Result<(), Fail> {
    let ec = era_class(tx);
    let want = layout::tx_id(view, src);
    let got = tx.hash();
    pv_ensure!(got.as_ref() == want, format!("c05-tx-id:{ec}"),
        "tx id {} but Blake2b-256 of the {} wire bytes of the body is {}", got, view.body.e - view.body.s, hexs(&want));
    let recomputed = match tx {
        MultiEraTx::AlonzoCompatible(x, _) => x.transaction_body.compute_hash(),
        MultiEraTx::Babbage(x) => x.transaction_body.compute_hash(),
        MultiEraTx::Byron(x) => x.transaction.compute_hash(),
        MultiEraTx::Conway(x) => x.transaction_body.compute_hash(),
        _ => got,
    };
    if recomputed.as_ref() != want {
        *diverges = true;
        obs.class("diverges:tx-body");
        // the recomputed hash may only differ when the library's re-encoding of the body differs from the wire bytes
        let reenc = match tx {
            MultiEraTx::AlonzoCompatible(x, _) => pallas_codec::minicbor::to_vec(&*x.transaction_body).ok(),
            MultiEraTx::Babbage(x) => pallas_codec::minicbor::to_vec(&*x.transaction_body).ok(),
            MultiEraTx::Byron(x) => pallas_codec::minicbor::to_vec(&*x.transaction).ok(),
            MultiEraTx::Conway(x) => pallas_codec::minicbor::to_vec(&*x.transaction_body).ok(),
            _ => None,
        };
        if let Some(r) = reenc {
            pv_ensure!(r != view.body.span(src), format!("c05-compute-hash-differs-although-reencoding-is-identical:tx:{ec}"),
                "the body re-encodes to exactly its wire bytes, yet compute_hash() = {} and the wire hash is {}", recomputed, hexs(&want));
        }
    }
    if view.byron {
        return Ok(());
    }
    // witness-set datums
    let datums = layout::witness_items(view, 4);
    let pd = tx.plutus_data();
    pv_ensure!(pd.len() == datums.len(), "c05-witness-datum-count",
        "plutus_data() has {} items, the witness set has {}", pd.len(), datums.len());
    for (d, n) in pd.iter().zip(&datums) {
        let want = b256(n.span(src));
        pv_ensure!(d.original_hash().as_ref() == want, "c05-datum-hash:witness",
            "witness datum {}: original_hash {} expected {}", hexs(n.span(src)), d.original_hash(), hexs(&want));
        obs.class("item:witness-datum");
        // the by-hash lookup answers for the wire hash, with a datum that has those wire bytes (two datums may share them)
        let h = pallas_crypto::hash::Hash::<32>::from(want);
        match tx.find_plutus_data(&h) {
            Some(found) => pv_ensure!(found.raw_cbor() == n.span(src), "c05-datum-lookup-by-hash:wrong-datum",
                "find_plutus_data({}) returns a datum with bytes {} instead of {}", hexs(&want), hexs(found.raw_cbor()), hexs(n.span(src))),
            None => pv_fail!("c05-datum-lookup-by-hash:not-found",
                "witness datum {} has the wire hash {}, but find_plutus_data does not find it", hexs(n.span(src)), hexs(&want)),
        }
        if d.compute_hash().as_ref() != want {
            *diverges = true;
            obs.class("diverges:witness-datum");
        }
    }
    // witness-set native scripts
    let natives = layout::witness_items(view, 1);
    let ns = tx.native_scripts();
    pv_ensure!(ns.len() == natives.len(), "c05-witness-native-count",
        "native_scripts() has {} items, the witness set has {}", ns.len(), natives.len());
    for (s, n) in ns.iter().zip(&natives) {
        let want = layout::native_script_hash(n.span(src));
        pv_ensure!(s.original_hash().as_ref() == want, "c05-native-script-hash:witness",
            "native script {}: original_hash {} expected {}", hexs(n.span(src)), s.original_hash(), hexs(&want));
        obs.class("item:witness-native-script");
        if s.compute_hash().as_ref() != want {
            *diverges = true;
            obs.class("diverges:witness-native-script");
        }
    }
    // plutus scripts (hash of version byte ‖ script bytes)
    let v1 = layout::witness_items(view, 3);
    let v2 = layout::witness_items(view, 6);
    let v3 = layout::witness_items(view, 7);
    let got1: Vec<_> = tx.plutus_v1_scripts().iter().map(|s| s.compute_hash()).collect();
    let got2: Vec<_> = tx.plutus_v2_scripts().iter().map(|s| s.compute_hash()).collect();
    let got3: Vec<_> = tx.plutus_v3_scripts().iter().map(|s| s.compute_hash()).collect();
    for (ver, items, got) in [(1u8, &v1, &got1), (2, &v2, &got2), (3, &v3, &got3)] {
        pv_ensure!(items.len() == got.len(), "c05-witness-plutus-count",
            "plutus v{ver}: {} scripts traversed, {} in the witness set", got.len(), items.len());
        for (g, n) in got.iter().zip(items.iter()) {
            let Some(b) = n.as_bytes() else { pv_fail!("layout-error", "plutus script is not bytes") };
            let want = layout::plutus_script_hash(ver, &b);
            pv_ensure!(g.as_ref() == want, format!("c05-plutus-script-hash:v{ver}"),
                "plutus v{ver} script hash {} expected {}", g, hexs(&want));
            obs.class("item:witness-plutus-script");
        }
    }
    // outputs: inline datums and native reference scripts
    let outs = layout::outputs(view);
    let touts = tx.outputs();
    pv_ensure!(outs.len() == touts.len(), "c05-output-count", "outputs(): {} vs {} on the wire", touts.len(), outs.len());
    for (k, (o, n)) in touts.iter().zip(&outs).enumerate() {
        let Some(ov) = layout::output_view(n, false) else { pv_fail!("layout-error", "output {k} not understood") };
        if let DatumRef::Inline(bytes) = &ov.datum {
            let want = b256(bytes);
            match o.datum() {
                Some(conway::DatumOption::Data(d)) => {
                    pv_ensure!(d.0.original_hash().as_ref() == want, "c05-datum-hash:inline",
                        "output {k} inline datum {}: original_hash {} expected {}", hexs(bytes), d.0.original_hash(), hexs(&want));
                    obs.class("item:inline-datum");
                    if d.0.compute_hash().as_ref() != want {
                        *diverges = true;
                        obs.class("diverges:inline-datum");
                    }
                }
                other => pv_fail!("c05-inline-datum-missing", "output {k} has an inline datum on the wire, datum() = {:?}", other),
            }
        }
        if let Some(ScriptRefView::Native(bytes)) = &ov.script {
            let want = layout::native_script_hash(bytes);
            match o.script_ref() {
                Some(conway::ScriptRef::NativeScript(s)) => {
                    pv_ensure!(s.original_hash().as_ref() == want, "c05-native-script-hash:script-ref",
                        "output {k} reference script {}: original_hash {} expected {}", hexs(bytes), s.original_hash(), hexs(&want));
                    obs.class("item:ref-native-script");
                    if s.compute_hash().as_ref() != want {
                        *diverges = true;
                        obs.class("diverges:ref-native-script");
                    }
                }
                other => pv_fail!("c05-script-ref-missing", "output {k} has a native reference script on the wire, script_ref() = {:?}", other),
            }
        }
    }
    Ok(())
}

fn header_class(h: &MultiEraHeader) -> &'static str {
    match h {
        MultiEraHeader::EpochBoundary(_) => "ebb",
        MultiEraHeader::Byron(_) => "byron",
        MultiEraHeader::ShelleyCompatible(_) => "shelley-compatible",
        MultiEraHeader::BabbageCompatible(_) => "babbage-compatible",
    }
}

fn check_header(h: &MultiEraHeader, era_tag: u64, node: &cborx::Node, src: &[u8], obs: &mut Obs, diverges: &mut bool) -> Result<(), Fail> {
    let want = layout::header_hash(era_tag, node, src);
    let got = h.hash();
    pv_ensure!(got.as_ref() == want, format!("c05-header-hash:{}", header_class(h)),
        "header hash {} but Blake2b-256 over the wire bytes (era rule for tag {era_tag}) is {}", got, hexs(&want));
    pv_ensure!(h.cbor() == node.span(src), format!("c05-header-raw:{}", header_class(h)),
        "header cbor() is not the wire span of the header");
    // the same header detached from the input buffer (owned copy of value and bytes): still the wire hash
    let detached: MultiEraHeader<'static> = match h {
        MultiEraHeader::EpochBoundary(x) => MultiEraHeader::EpochBoundary(std::borrow::Cow::Owned((**x).clone().to_owned())),
        MultiEraHeader::Byron(x) => MultiEraHeader::Byron(std::borrow::Cow::Owned((**x).clone().to_owned())),
        MultiEraHeader::ShelleyCompatible(x) => MultiEraHeader::ShelleyCompatible(std::borrow::Cow::Owned((**x).clone().to_owned())),
        MultiEraHeader::BabbageCompatible(x) => MultiEraHeader::BabbageCompatible(std::borrow::Cow::Owned((**x).clone().to_owned())),
    };
    let got2 = detached.hash();
    pv_ensure!(got2.as_ref() == want, format!("c05-header-hash:{}:detached-copy", header_class(h)),
        "hash of the header after to_owned() is {} but Blake2b-256 over the wire bytes (era rule for tag {era_tag}) is {}", got2, hexs(&want));
    pv_ensure!(detached.cbor() == node.span(src), format!("c05-header-raw:{}:detached-copy", header_class(h)),
        "cbor() of the header after to_owned() is not the wire span of the header");
    let recomputed = match h {
        MultiEraHeader::EpochBoundary(x) => x.compute_hash(),
        MultiEraHeader::Byron(x) => x.compute_hash(),
        MultiEraHeader::ShelleyCompatible(x) => x.compute_hash(),
        MultiEraHeader::BabbageCompatible(x) => x.compute_hash(),
    };
    if recomputed.as_ref() != want {
        *diverges = true;
        obs.class("diverges:header");
        let reenc = match h {
            MultiEraHeader::EpochBoundary(x) => pallas_codec::minicbor::to_vec(&***x).ok(),
            MultiEraHeader::Byron(x) => pallas_codec::minicbor::to_vec(&***x).ok(),
            MultiEraHeader::ShelleyCompatible(x) => pallas_codec::minicbor::to_vec(&***x).ok(),
            MultiEraHeader::BabbageCompatible(x) => pallas_codec::minicbor::to_vec(&***x).ok(),
        };
        if let Some(r) = reenc {
            pv_ensure!(r != node.span(src), format!("c05-compute-hash-differs-although-reencoding-is-identical:header:{}", header_class(h)),
                "the header re-encodes to exactly its wire bytes, yet compute_hash() = {} and the wire hash is {}", recomputed, hexs(&want));
        }
    }
    Ok(())
}

pub const ALL_FAMILIES: [&str; 12] = [
    "widen-head", "widen-len", "def-indef", "reorder-map", "chunk-string", "set-tag",
    "embedded:widen-head", "embedded:widen-len", "embedded:def-indef", "embedded:reorder-map",
    "embedded:chunk-string", "embedded:set-tag",
];

fn check(c: &Case, obs: &mut Obs) -> Result<(), Fail> {
    let Some(entry) = pool::lookup(&c.name) else {
        obs.discard();
        return Ok(());
    };
    let focused = c.focus.as_deref() == Some("header") && entry.kind == "block";
    let mutated_pair = if focused {
        // [era_tag, [header, ...]]: mutate the header subtree only, splice it back
        let Ok(mut tree) = cborx::read(&entry.bytes) else { pv_fail!("harness:cborx-cannot-read-artefact", "{} is not one CBOR item", c.name) };
        let applied = match tree.as_array_mut().and_then(|w| w.get_mut(1)).and_then(|b| b.as_array_mut()).and_then(|b| b.get_mut(0)) {
            Some(header) => pool::apply_ops(header, &c.ops, &pool::WEIGHTED),
            None => vec![],
        };
        obs.class("focus:header");
        Some((cborx::write(&tree), applied))
    } else {
        pool::mutate_bytes(&entry.bytes, &c.ops, &pool::WEIGHTED)
    };
    let Some((bytes, applied)) = mutated_pair else {
        pv_fail!("harness:cborx-cannot-read-artefact", "{} is not one CBOR item", c.name)
    };
    let mutated = bytes != entry.bytes;
    let single = {
        let mut f = applied.clone();
        f.dedup();
        if f.len() == 1 { Some(f[0]) } else { None }
    };
    let decoded = match pool::decode(entry, &bytes) {
        Ok(d) => d,
        Err(e) => {
            if !mutated {
                // conway8.block needs the `relaxed` feature; everything else decodes
                obs.class(format!("undecodable-original:{}", c.name));
                return Ok(());
            }
            obs.class("mutant-rejected");
            if let Some(f) = single {
                obs.class(format!("single-family-rejected:{f}"));
            }
            let _ = e;
            return Ok(());
        }
    };
    if mutated {
        obs.class("mutant-accepted");
        if let Some(f) = single {
            obs.class(format!("single-family-accepted:{f}"));
        }
    } else {
        obs.class("unmutated");
    }
    let Ok(tree) = cborx::read(&bytes) else { pv_fail!("harness:cborx-reread", "mutated bytes do not re-read") };
    let mut diverges = false;
    match &decoded {
        Decoded::Block(b) => {
            let view = match layout::block_view(&tree) {
                Ok(v) => v,
                Err(e) => pv_fail!("layout-error", "{}: {e}", c.name),
            };
            obs.class(format!("block:{}", layout::ERA_NAMES[view.era_tag as usize]));
            let h = b.header();
            check_header(&h, view.era_tag, view.header, &bytes, obs, &mut diverges)?;
            let want = layout::header_hash(view.era_tag, view.header, &bytes);
            pv_ensure!(b.hash().as_ref() == want, "c05-block-hash", "block hash {} expected {}", b.hash(), hexs(&want));
            let txs = b.txs();
            pv_ensure!(txs.len() == view.txs.len(), "c05-block-tx-count",
                "txs() yields {} transactions, the block has {}", txs.len(), view.txs.len());
            for (tx, tv) in txs.iter().zip(&view.txs) {
                check_tx(tx, tv, &bytes, obs, &mut diverges)?;
            }
        }
        Decoded::Tx(tx) => {
            let view = match layout::tx_view(&tree, matches!(tx, MultiEraTx::Byron(_))) {
                Ok(v) => v,
                Err(e) => pv_fail!("layout-error", "{}: {e}", c.name),
            };
            obs.class(format!("tx:{}", era_class(tx)));
            check_tx(tx, &view, &bytes, obs, &mut diverges)?;
        }
        Decoded::Header(h, wt) => {
            obs.class(format!("header:{}", header_class(h)));
            check_header(h, *wt, &tree, &bytes, obs, &mut diverges)?;
        }
    }
    if diverges {
        obs.class(if mutated { "diverging:mutant" } else { "diverging:original" });
    }
    if mutated && diverges {
        obs.nontrivial_key(pvkit::fnv64(&bytes));
    }
    Ok(())
}

pub fn run(s: &Session) {
    s.set_rule("(artefact of test_data [thorough: + the 1777 immutable-DB blocks], 1..6 form mutations: non-minimal \
        integer/tag heads, non-minimal length heads, definite<->indefinite arrays and maps, map entry rotation, \
        string chunking, tag 258 added/removed; applied to the outer item or inside a #6.24 embedded item). A mutant \
        is judged only if pallas still decodes it. Non-trivial = mutant accepted AND for at least one hashed item \
        (header, tx body, witness datum, inline datum, native script) the hash of pallas' own re-encoding of the \
        decoded value differs from the hash of the wire bytes; distinct by mutated bytes");
    s.assume("cborx's span of an item is the item's wire bytes; Blake2b reference of pvkit; layout.rs states the CDDL");
    let thorough = !s.quick();
    let p = pool::pool(thorough);
    let names = p.names(&["block", "tx", "header"]);
    s.note("artefacts", serde_json::json!(names.len()));
    // every artefact unmutated (complete corpus pass)
    let plain: Vec<Case> = names.iter().map(|n| Case { name: n.clone(), ops: vec![], focus: None }).collect();
    s.foreach("corpus-unmutated", plain, false, check);
    // mutants: test_data artefacts get the bulk of the budget, chunk blocks a smaller share
    let td: Vec<String> = pool::pool(false).names(&["block", "tx", "header"]);
    let n_td = td.len() as u64;
    let strat_names = td.clone();
    s.forall("test-data-mutants", s.pick(150, 1500) * n_td, move || {
        let names = strat_names.clone();
        (any::<u16>(), pool::form_ops(6)).prop_map(move |(sel, ops)| Case { name: names[pvkit::pick_idx(sel, names.len())].clone(), ops, focus: None })
    }, check);
    // header-focused mutants of every block artefact (all eras, epoch-boundary blocks included)
    let blocks: Vec<String> = pool::pool(false).names(&["block"]);
    let n_b = blocks.len() as u64;
    s.forall("header-focused-mutants", s.pick(120, 1200) * n_b, move || {
        let names = blocks.clone();
        (any::<u16>(), pool::form_ops(4)).prop_map(move |(sel, ops)| Case { name: names[pvkit::pick_idx(sel, names.len())].clone(), ops, focus: Some("header".into()) })
    }, check);
    if thorough {
        let chunk: Vec<String> = names.iter().filter(|n| n.contains(".chunk#")).cloned().collect();
        let n = chunk.len() as u64;
        s.forall("chunk-block-mutants", 30 * n, move || {
            let names = chunk.clone();
            (any::<u16>(), pool::form_ops(6)).prop_map(move |(sel, ops)| Case { name: names[pvkit::pick_idx(sel, names.len())].clone(), ops, focus: None })
        }, check);
    }
    let acc = s.class_count("mutant-accepted");
    let rej = s.class_count("mutant-rejected");
    let mut rates = serde_json::Map::new();
    for f in ALL_FAMILIES {
        let a = s.class_count(&format!("single-family-accepted:{f}"));
        let r = s.class_count(&format!("single-family-rejected:{f}"));
        rates.insert(f.to_string(), serde_json::json!({"accepted": a, "rejected": r}));
    }
    s.note("mutant_accept", serde_json::json!({"accepted": acc, "rejected": rej}));
    s.note("accept_by_family_single_family_cases", serde_json::Value::Object(rates));
    s.health(acc * 10 >= acc + rej, "fewer than 10% of the mutants are accepted by the decoders");
    s.health(s.class_count("diverging:mutant") >= 200, "fewer than 200 accepted mutants on which a re-encoding hash would diverge");
    for c in ["diverges:tx-body", "diverges:header", "diverges:witness-datum", "diverges:witness-native-script", "diverges:inline-datum"] {
        s.health(s.class_count(c) > 0, &format!("no case with {c}"));
    }
    for c in ["block:byron-ebb", "block:byron", "block:shelley", "block:allegra", "block:mary", "block:alonzo", "block:babbage",
        "block:conway", "tx:byron", "tx:alonzo-compatible", "tx:babbage", "tx:conway", "header:byron", "header:shelley-compatible",
        "item:witness-datum", "item:witness-native-script", "item:inline-datum", "item:witness-plutus-script"] {
        s.health(s.class_count(c) > 0, &format!("class {c} never evaluated"));
    }
    s.health(s.class_count("layout-error") == 0, "layout errors");
}
