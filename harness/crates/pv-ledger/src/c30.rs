//! C30 — block traversal pairs each transaction with its own parts (DESIGN §C30).
//!
//! Oracle: `layout::block_view` over the cborx tree of the very bytes handed to pallas.
use crate::layout::{self, BlockView};
use crate::pool::{self, FormOp};
use pallas_codec::utils::{KeepRaw, Nullable};
use pallas_traverse::{Era, MultiEraBlock, MultiEraTx};
use proptest::prelude::*;
use pvkit::cborx::{self, Node};
use pvkit::{hexs, pv_ensure, pv_fail, Fail, Obs, Session};
use serde::{Deserialize, Serialize};
use std::sync::OnceLock;

#[derive(Debug, Clone, Serialize, Deserialize, PartialEq, Eq, Hash)]
pub struct PartRef {
    /// corpus block the part comes from
    pub src: String,
    /// transaction index in that block (for aux parts: the key in its aux map)
    pub i: u16,
}

#[derive(Debug, Clone, Serialize, Deserialize)]
pub struct Synth {
    /// wrapper era tag 1..=7
    pub tag: u8,
    /// block whose header (and, for Byron, whose other body parts) is used
    pub frame: String,
    pub txs: Vec<PartRef>,
    /// (key, aux part) in map order; keys unique
    pub aux: Vec<(u8, PartRef)>,
    pub invalid: Vec<u8>,
    pub forms: Vec<FormOp>,
    /// auxiliary data entries of post-Shelley blocks re-shaped (all three shapes are legal from Alonzo on, the first two
    /// from Allegra on): 0 = as found, 1 = `[metadata, []]`, 2 = the bare metadata map (entries without a metadata map
    /// stay as found)
    #[serde(default)]
    pub aux_shape: u8,
}

/// The metadata map inside an auxiliary-data item of any shape (bare map, `[metadata, scripts]`, tag 259 with key 0).
pub fn metadata_of(aux: &Node) -> Option<&Node> {
    if aux.tag() == Some(259) {
        return aux.untagged().map_get(0);
    }
    if let Some(a) = aux.as_array() {
        return a.first();
    }
    aux.as_map().map(|_| aux)
}

#[derive(Debug, Clone, Serialize, Deserialize)]
pub enum Case {
    Corpus { name: String, forms: Vec<FormOp> },
    Synth(Synth),
}

fn era_of_tag(tag: u64) -> Option<Era> {
    Some(match tag {
        0 | 1 => Era::Byron,
        2 => Era::Shelley,
        3 => Era::Allegra,
        4 => Era::Mary,
        5 => Era::Alonzo,
        6 => Era::Babbage,
        7 => Era::Conway,
        _ => return None,
    })
}

fn nullable_raw<'a>(n: &'a Nullable<KeepRaw<'_, pallas_primitives::alonzo::AuxiliaryData>>) -> Option<&'a [u8]> {
    match n {
        Nullable::Some(x) => Some(x.raw_cbor()),
        _ => None,
    }
}

/// (witness raw, aux raw) as pallas holds them for a traversed transaction
fn raw_parts<'a>(tx: &'a MultiEraTx) -> Option<(&'a [u8], Option<&'a [u8]>)> {
    Some(match tx {
        MultiEraTx::AlonzoCompatible(x, _) => (x.transaction_witness_set.raw_cbor(), nullable_raw(&x.auxiliary_data)),
        MultiEraTx::Babbage(x) => (x.transaction_witness_set.raw_cbor(), nullable_raw(&x.auxiliary_data)),
        MultiEraTx::Conway(x) => (x.transaction_witness_set.raw_cbor(), nullable_raw(&x.auxiliary_data)),
        MultiEraTx::Byron(x) => (x.witness.raw_cbor(), None),
        _ => return None,
    })
}

pub fn check_block(b: &MultiEraBlock, view: &BlockView, src: &[u8], obs: &mut Obs) -> Result<(), Fail> {
    let want_era = era_of_tag(view.era_tag).unwrap();
    pv_ensure!(b.era() == want_era, "c30-block-era", "wrapper tag {} but era() = {:?}", view.era_tag, b.era());
    let is_ebb = matches!(b, MultiEraBlock::EpochBoundary(_));
    pv_ensure!(is_ebb == (view.era_tag == 0), "c30-ebb-variant", "wrapper tag {} decoded as EBB = {is_ebb}", view.era_tag);
    let txs = b.txs();
    let n = view.txs.len();
    pv_ensure!(b.tx_count() == n, "c30-tx-count", "tx_count() = {}, the block carries {n} bodies", b.tx_count());
    pv_ensure!(txs.len() == n, "c30-txs-len", "txs() yields {} transactions, the block carries {n} bodies", txs.len());
    pv_ensure!(b.is_empty() == (n == 0), "c30-is-empty", "is_empty() = {} with {n} bodies", b.is_empty());
    pv_ensure!(b.has_aux_data() == !view.aux_keys.is_empty(), "c30-has-aux-data",
        "has_aux_data() = {} with {} aux entries", b.has_aux_data(), view.aux_keys.len());
    for (i, (tx, tv)) in txs.iter().zip(&view.txs).enumerate() {
        let want = layout::tx_id(tv, src);
        pv_ensure!(tx.hash().as_ref() == want, "c30-body-pairing",
            "tx {i}: hash {} is not Blake2b-256 of body {i} ({})", tx.hash(), hexs(&want));
        pv_ensure!(tx.era() == want_era, "c30-tx-era", "tx {i}: era {:?} in a {:?} block", tx.era(), want_era);
        let Some((wraw, araw)) = raw_parts(tx) else { pv_fail!("harness:unknown-tx-variant", "tx {i}") };
        let Some(wv) = tv.wits else { pv_fail!("harness:witness-missing", "no witness set {i} in the block") };
        pv_ensure!(wraw == wv.span(src), "c30-witness-pairing",
            "tx {i}: witness set {} is not witness set {i} of the block", hexs(&wraw[..wraw.len().min(24)]));
        let want_aux = tv.aux.map(|a| a.span(src));
        pv_ensure!(araw == want_aux, "c30-aux-pairing",
            "tx {i}: auxiliary data {:?}, block entry for key {i}: {:?}",
            araw.map(|x| hexs(&x[..x.len().min(24)])), want_aux.map(|x| hexs(&x[..x.len().min(24)])));
        pv_ensure!(tx.is_valid() == tv.valid, "c30-validity-flag",
            "tx {i}: is_valid() = {} but invalid list = {:?}", tx.is_valid(), view.invalid);
        // the metadata view shows this transaction's own metadata, whatever shape its auxiliary data has
        if let Some(md) = tv.aux.and_then(metadata_of).and_then(|m| m.as_map()) {
            // (as sets: the decoded map is ordered by label, the wire need not be)
            let mut want_labels: Vec<u64> = md.iter().filter_map(|(k, _)| k.as_u64()).collect();
            if want_labels.len() == md.len() && !want_labels.is_empty() {
                want_labels.sort();
                want_labels.dedup();
                let got_labels: Option<Vec<u64>> = tx.metadata().as_alonzo().map(|m| {
                    let mut v: Vec<u64> = m.iter().map(|(k, _)| *k).collect();
                    v.sort();
                    v
                });
                let shape = if tv.aux.map(|a| a.tag() == Some(259)).unwrap_or(false) { "tag259" } else if tv.aux.map(|a| a.as_array().is_some()).unwrap_or(false) { "array" } else { "map" };
                obs.class(format!("aux-shape:{}:{shape}", layout::ERA_NAMES[view.era_tag as usize]));
                pv_ensure!(got_labels.as_ref() == Some(&want_labels), format!("c30-metadata-not-the-transactions-own:{shape}"),
                    "tx {i}: auxiliary data ({shape} shape) carries metadata labels {:?} but metadata() shows {:?}", want_labels, got_labels);
            }
        }
        if want_aux.is_none() {
            pv_ensure!(matches!(tx.metadata(), pallas_traverse::MultiEraMeta::Empty), "c30-aux-pairing",
                "tx {i}: no auxiliary data in the block but metadata() is not empty");
        }
    }
    let nontrivial = n >= 2 && (view.invalid.iter().any(|i| (*i as usize) < n) || view.aux_keys.iter().any(|k| *k != 0 && (*k as usize) < n));
    obs.class(format!("block:{}", layout::ERA_NAMES[view.era_tag as usize]));
    obs.class(format!("txs:{}", match n { 0 => "0", 1 => "1", 2..=7 => "2-7", _ => "8+" }));
    if view.invalid.iter().any(|i| (*i as usize) < n) {
        obs.class("has-invalid-tx");
    }
    if view.aux_keys.iter().any(|k| *k != 0 && (*k as usize) < n) {
        obs.class("has-aux-beyond-0");
    }
    if nontrivial {
        obs.nontrivial_key(pvkit::fnv64(src));
    }
    Ok(())
}

// ---------------------------------------------------------------------------------------------
// parts of real blocks for the synthetic family

pub struct Parts {
    /// per era tag 0..=7: (block, tx index) available
    pub txs: Vec<Vec<PartRef>>,
    /// per era tag: (block, aux key)
    pub aux: Vec<Vec<PartRef>>,
    /// per era tag: blocks
    pub frames: Vec<Vec<String>>,
}

static PARTS: OnceLock<Parts> = OnceLock::new();

pub fn parts() -> &'static Parts {
    PARTS.get_or_init(|| {
        let mut p = Parts { txs: vec![vec![]; 8], aux: vec![vec![]; 8], frames: vec![vec![]; 8] };
        for e in &pool::pool(false).entries {
            if e.kind != "block" {
                continue;
            }
            let Ok(t) = cborx::read(&e.bytes) else { continue };
            let Ok(v) = layout::block_view(&t) else { continue };
            // only blocks pallas decodes are used as donors
            if pvkit::panics::guarded(|| MultiEraBlock::decode(&e.bytes).is_ok()).unwrap_or(false) {
                let tag = v.era_tag as usize;
                p.frames[tag].push(e.name.clone());
                for i in 0..v.txs.len().min(60) {
                    p.txs[tag].push(PartRef { src: e.name.clone(), i: i as u16 });
                }
                for k in v.aux_keys.iter().take(60) {
                    p.aux[tag].push(PartRef { src: e.name.clone(), i: *k as u16 });
                }
            }
        }
        p
    })
}

/// Era tags whose parts may be placed in a block of wrapper tag `tag` (Shelley..Alonzo bodies are
/// successive supersets; Babbage and Conway only take their own).
fn donors(tag: u8) -> Vec<u8> {
    match tag {
        1 => vec![1],
        2..=5 => (2..=tag).collect(),
        t => vec![t],
    }
}

fn block_inner<'a>(root: &'a Node) -> Option<&'a Vec<Node>> {
    root.as_array()?.get(1)?.as_array()
}

/// Assemble the synthetic block in plain form (None when a referenced part does not exist).
pub fn assemble(sy: &Synth) -> Option<Vec<u8>> {
    let frame = pool::lookup(&sy.frame)?;
    let ft = cborx::read(&frame.bytes).ok()?;
    let fb = block_inner(&ft)?;
    let mut trees: std::collections::BTreeMap<String, Node> = Default::default();
    let mut tree_of = |name: &str| -> Option<Node> {
        if !trees.contains_key(name) {
            let e = pool::lookup(name)?;
            trees.insert(name.to_string(), cborx::read(&e.bytes).ok()?);
        }
        trees.get(name).cloned()
    };
    if sy.tag == 1 {
        let mut payload = vec![];
        for p in &sy.txs {
            let t = tree_of(&p.src)?;
            let b = block_inner(&t)?;
            let entry = b.get(1)?.as_array()?.first()?.as_array()?.get(p.i as usize)?.clone();
            payload.push(entry);
        }
        let mut body = fb.get(1)?.clone();
        *body.as_array_mut()?.get_mut(0)? = cborx::array_indef(payload);
        let blk = cborx::array(vec![fb.first()?.clone(), body, fb.get(2)?.clone()]);
        let root = cborx::array(vec![cborx::uint(1), blk]);
        return Some(cborx::write(&root));
    }
    let mut bodies = vec![];
    let mut wits = vec![];
    for p in &sy.txs {
        let t = tree_of(&p.src)?;
        let b = block_inner(&t)?;
        bodies.push(b.get(1)?.as_array()?.get(p.i as usize)?.clone());
        wits.push(b.get(2)?.as_array()?.get(p.i as usize)?.clone());
    }
    let mut aux = vec![];
    for (k, p) in &sy.aux {
        let t = tree_of(&p.src)?;
        let b = block_inner(&t)?;
        let mut v = b.get(3)?.map_get(p.i as u64)?.clone();
        if sy.tag >= 3 && sy.aux_shape % 3 != 0 {
            if let Some(md) = metadata_of(&v).filter(|m| m.as_map().is_some()).cloned() {
                v = if sy.aux_shape % 3 == 1 { cborx::array(vec![md, cborx::array(vec![])]) } else { md };
            }
        }
        aux.push((cborx::uint(*k as u64), v));
    }
    let mut items = vec![fb.first()?.clone(), cborx::array(bodies), cborx::array(wits), cborx::map(aux)];
    if sy.tag >= 5 {
        items.push(cborx::array(sy.invalid.iter().map(|i| cborx::uint(*i as u64)).collect()));
    }
    let root = cborx::array(vec![cborx::uint(sy.tag as u64), cborx::array(items)]);
    Some(cborx::write(&root))
}

fn check(c: &Case, obs: &mut Obs) -> Result<(), Fail> {
    let (bytes, synthetic, mutated) = match c {
        Case::Corpus { name, forms } => {
            let Some(e) = pool::lookup(name) else {
                obs.discard();
                return Ok(());
            };
            let Some((b, _)) = pool::mutate_bytes(&e.bytes, forms, &pool::WEIGHTED) else {
                pv_fail!("harness:cborx-cannot-read-artefact", "{name}")
            };
            let m = b != e.bytes;
            (b, false, m)
        }
        Case::Synth(sy) => {
            // domain: unique aux keys, invalid list only from Alonzo on
            let mut keys: Vec<u8> = sy.aux.iter().map(|a| a.0).collect();
            keys.sort();
            keys.dedup();
            if keys.len() != sy.aux.len() || (sy.tag < 5 && !sy.invalid.is_empty()) || !(1..=7).contains(&sy.tag) {
                obs.discard();
                return Ok(());
            }
            let Some(plain) = assemble(sy) else {
                obs.discard();
                return Ok(());
            };
            let Some((b, _)) = pool::mutate_bytes(&plain, &sy.forms, &pool::WEIGHTED) else {
                pv_fail!("harness:cborx-cannot-read-artefact", "assembled block")
            };
            let m = b != plain;
            (b, true, m)
        }
    };
    let block = match MultiEraBlock::decode(&bytes) {
        Ok(b) => b,
        Err(e) => {
            if mutated {
                obs.class("mutant-rejected");
            } else if synthetic {
                // an assembled block in plain form must decode: its parts come from decodable blocks
                pv_fail!("c30-synthetic-block-rejected", "assembled block does not decode: {}", e.to_string().chars().take(200).collect::<String>());
            } else {
                obs.class("undecodable-original");
            }
            return Ok(());
        }
    };
    obs.class(if synthetic { "synthetic" } else if mutated { "corpus-mutant" } else { "corpus" });
    let Ok(tree) = cborx::read(&bytes) else { pv_fail!("harness:cborx-reread", "bytes do not re-read") };
    let view = match layout::block_view(&tree) {
        Ok(v) => v,
        Err(e) => pv_fail!("layout-error", "{e}"),
    };
    if synthetic {
        if view.aux_keys.windows(2).any(|w| w[0] > w[1]) {
            obs.class("aux-keys-out-of-order");
        }
        if view.aux_keys.iter().any(|k| *k as usize >= view.txs.len()) {
            obs.class("aux-key-dangling");
        }
        let mut inv = view.invalid.clone();
        inv.sort();
        if inv.windows(2).any(|w| w[0] == w[1]) {
            obs.class("invalid-duplicates");
        }
    }
    check_block(&block, &view, &bytes, obs)
}

pub fn synth_strategy() -> impl Strategy<Value = Case> {
    let p = parts();
    (
        prop_oneof![1 => Just(1u8), 1 => Just(2u8), 1 => Just(3u8), 1 => Just(4u8), 3 => Just(5u8), 3 => Just(6u8), 3 => Just(7u8)],
        any::<u16>(),
        proptest::collection::vec((any::<u16>(), any::<u8>()), 0..=8),
        proptest::collection::vec((0u8..10, any::<u16>(), any::<u16>()), 0..=6),
        proptest::collection::vec(0u8..10, 0..=4),
        prop_oneof![3 => Just(vec![]), 1 => pool::form_ops(3)],
    )
        .prop_map(move |(tag, fsel, txsel, auxsel, invalid, forms)| {
            let ds = donors(tag);
            let frames = &p.frames[tag as usize];
            let frame = frames[pvkit::pick_idx(fsel, frames.len())].clone();
            let mut txs = vec![];
            for (sel, d) in &txsel {
                let donor = ds[(*d as usize) % ds.len()] as usize;
                let list = if p.txs[donor].is_empty() { &p.txs[tag as usize] } else { &p.txs[donor] };
                if list.is_empty() {
                    continue;
                }
                txs.push(list[pvkit::pick_idx(*sel, list.len())].clone());
            }
            let n = txs.len() as u8;
            let mut aux: Vec<(u16, u8, PartRef)> = vec![];
            if tag != 1 {
                for (k, sel, ord) in &auxsel {
                    // keys mostly inside 0..n, sometimes dangling
                    let key = if n == 0 { *k } else if *k < 8 { *k % n } else { n + (*k - 8) };
                    if aux.iter().any(|a| a.1 == key) {
                        continue;
                    }
                    let ds2: Vec<&PartRef> = ds.iter().flat_map(|d| p.aux[*d as usize].iter()).collect();
                    if ds2.is_empty() {
                        continue;
                    }
                    aux.push((*ord, key, ds2[pvkit::pick_idx(*sel, ds2.len())].clone()));
                }
            }
            aux.sort_by_key(|a| (a.0, a.1));
            let aux = aux.into_iter().map(|a| (a.1, a.2)).collect();
            let invalid = if tag >= 5 {
                invalid.iter().map(|i| if n == 0 { *i } else if *i < 8 { *i % n } else { n + (*i - 8) }).collect()
            } else {
                vec![]
            };
            let aux_shape = (fsel >> 8) as u8 % 3;
            Case::Synth(Synth { tag, frame, txs, aux, invalid, forms, aux_shape })
        })
}

pub fn run(s: &Session) {
    s.set_rule("Corpus: every block of test_data (thorough: + the 1777 immutable-DB blocks), plain and under 1..3 form \
        mutations. Synthetic: wrapper tag 1..7, header (and Byron frame) of a real block of that era, 0..8 \
        transactions (body + witness set taken together from real blocks of an era the tag's decoder family accepts), \
        aux map with unique keys in random order (keys inside 0..n and dangling), invalid list (Alonzo on) with \
        duplicates and dangling indices, optionally 1..3 form mutations. Non-trivial = block with >= 2 transactions \
        and (an invalid index < n or an aux entry at a key in 1..n); distinct by block bytes");
    s.assume("cborx span = wire bytes; layout.rs states the CDDL; duplicate aux-map keys are outside the domain (not valid CBOR maps)");
    let thorough = !s.quick();
    let p = pool::pool(thorough);
    let blocks = p.names(&["block"]);
    s.note("corpus_blocks", serde_json::json!(blocks.len()));
    let plain: Vec<Case> = blocks.iter().map(|n| Case::Corpus { name: n.clone(), forms: vec![] }).collect();
    s.foreach("corpus-blocks", plain, true, check);
    let td = pool::pool(false).names(&["block"]);
    let n_td = td.len() as u64;
    s.forall("corpus-block-mutants", s.pick(30, 300) * n_td, move || {
        let names = td.clone();
        (any::<u16>(), pool::form_ops(3)).prop_map(move |(sel, forms)| Case::Corpus { name: names[pvkit::pick_idx(sel, names.len())].clone(), forms })
    }, check);
    s.forall("synthetic-blocks", s.pick(30_000, 600_000), synth_strategy, check);
    s.health(s.class_count("synthetic") >= s.pick(15_000, 300_000), "too few synthetic blocks decoded");
    for c in ["has-invalid-tx", "has-aux-beyond-0", "aux-keys-out-of-order", "aux-key-dangling", "invalid-duplicates", "txs:0", "txs:1", "txs:2-7",
        "block:byron-ebb", "block:byron", "block:shelley", "block:allegra", "block:mary", "block:alonzo", "block:babbage", "block:conway"] {
        s.health(s.class_count(c) > 0, &format!("class {c} never generated"));
    }
}
