//! C31 — UTxO effects of a transaction follow the phase-2 validity flag (DESIGN §C31).
//!
//! Oracle: inputs / collateral / outputs / collateral return read by cborx from the body bytes that
//! are handed to pallas, and the rule of the statement.
use crate::layout::{self, TxView};
use crate::outcmp;
use crate::pool;
use pallas_traverse::{Era, MultiEraTx};
use proptest::prelude::*;
use pvkit::cborx::{self, Kind, Node};
use pvkit::{hexs, pv_ensure, pv_fail, Fail, Obs, Session};
use serde::{Deserialize, Serialize};
use std::collections::BTreeSet;
use std::sync::OnceLock;

#[derive(Debug, Clone, Copy, Serialize, Deserialize, PartialEq, Eq)]
pub enum CollRet {
    Keep,
    Remove,
    /// collateral return := copy of output k with a coin value no output has
    Add(u16),
}

#[derive(Debug, Clone, Serialize, Deserialize)]
pub struct Case {
    /// artefact: a `.tx` file (idx = None) or a block (idx = transaction index)
    pub src: String,
    pub idx: Option<u16>,
    /// None = flag as found
    pub flag: Option<bool>,
    /// (copy element `from`, insert at position `at`) applied to the inputs
    pub dup_inputs: Vec<(u16, u16)>,
    pub dup_collateral: Vec<(u16, u16)>,
    /// post-Byron only: (copy input `from`, give the copy this output index) — inputs that share a transaction id
    /// and differ in the index, with indices of different magnitudes
    #[serde(default)]
    pub sibling_inputs: Vec<(u16, u32)>,
    /// when the body has no collateral: collateral := copy of the inputs
    pub collateral_from_inputs: bool,
    pub collret: CollRet,
}

const COLLRET_COIN: u64 = 4_242_424_242_424;

fn dup_in(set: &mut Node, dups: &[(u16, u16)]) {
    let inner = match &mut set.k {
        Kind::Tag(_, _, i) => i.as_mut(),
        _ => set,
    };
    if let Kind::Array(v, len) = &mut inner.k {
        for (from, at) in dups {
            if v.is_empty() {
                break;
            }
            let e = v[pvkit::pick_idx(*from, v.len())].clone();
            let pos = pvkit::pick_idx(*at, v.len() + 1);
            v.insert(pos, e);
        }
        if let cborx::Len::Def(w) = len {
            if !w.fits(v.len() as u64) {
                *w = cborx::W::min_for(v.len() as u64);
            }
        }
    }
}

fn sibling_in(set: &mut Node, sibs: &[(u16, u32)]) {
    let inner = match &mut set.k {
        Kind::Tag(_, _, i) => i.as_mut(),
        _ => set,
    };
    if let Kind::Array(v, len) = &mut inner.k {
        for (from, idx) in sibs {
            if v.is_empty() {
                break;
            }
            let mut e = v[pvkit::pick_idx(*from, v.len())].clone();
            if let Some(pair) = e.as_array_mut() {
                if pair.len() == 2 {
                    pair[1] = cborx::uint(*idx as u64);
                    v.push(e);
                }
            }
        }
        if let cborx::Len::Def(w) = len {
            if !w.fits(v.len() as u64) {
                *w = cborx::W::min_for(v.len() as u64);
            }
        }
    }
}

/// Era tag (wrapper numbering) and the standalone transaction bytes for a case; None = outside the domain.
pub fn build(c: &Case) -> Option<(u64, Vec<u8>)> {
    let e = pool::lookup(&c.src)?;
    let t = cborx::read(&e.bytes).ok()?;
    let (tag, mut body, wits, found_flag, aux): (u64, Node, Node, bool, Option<Node>) = match (e.kind.as_str(), c.idx) {
        ("block", Some(i)) => {
            let v = layout::block_view(&t).ok()?;
            let tv = v.txs.get(i as usize)?;
            (v.era_tag, tv.body.clone(), tv.wits?.clone(), tv.valid, tv.aux.cloned())
        }
        ("tx", None) => {
            let era = e.era?;
            let tag = match era {
                Era::Byron => 1,
                Era::Shelley => 2,
                Era::Allegra => 3,
                Era::Mary => 4,
                Era::Alonzo => 5,
                Era::Babbage => 6,
                _ => 7,
            };
            let tv = layout::tx_view(&t, tag == 1).ok()?;
            (tag, tv.body.clone(), tv.wits?.clone(), tv.valid, tv.aux.cloned())
        }
        _ => return None,
    };
    if tag == 1 {
        // Byron: [tx, witnesses]; only the inputs can be duplicated
        if c.flag == Some(false) || c.collret != CollRet::Keep || !c.dup_collateral.is_empty() || c.collateral_from_inputs {
            return None;
        }
        if let Some(ins) = body.as_array_mut().and_then(|a| a.get_mut(0)) {
            dup_in(ins, &c.dup_inputs);
        }
        return Some((1, cborx::write(&cborx::array(vec![body, wits]))));
    }
    // the validity flag exists from Alonzo on, collateral return from Babbage on
    if tag < 5 && (c.flag == Some(false) || c.collateral_from_inputs || !c.dup_collateral.is_empty()) {
        return None;
    }
    if tag < 6 && c.collret != CollRet::Keep {
        return None;
    }
    if let Some(ins) = body.map_get_mut(0) {
        sibling_in(ins, &c.sibling_inputs);
        dup_in(ins, &c.dup_inputs);
    }
    if c.collateral_from_inputs && body.map_get(13).is_none() {
        let ins = body.map_get(0)?.clone();
        body.map_set(13, ins);
    }
    if let Some(col) = body.map_get_mut(13) {
        dup_in(col, &c.dup_collateral);
    }
    match c.collret {
        CollRet::Keep => {}
        CollRet::Remove => {
            body.map_remove(16);
            if let Kind::Map(items, cborx::Len::Def(w)) = &mut body.k {
                *w = cborx::W::min_for(items.len() as u64);
            }
        }
        CollRet::Add(k) => {
            let outs = body.map_get(1)?.as_array()?;
            if outs.is_empty() {
                return None;
            }
            let mut o = outs[pvkit::pick_idx(k, outs.len())].clone();
            // replace the coin
            let value: &mut Node = match &mut o.k {
                Kind::Array(a, _) => a.get_mut(1)?,
                Kind::Map(..) => o.map_get_mut(1)?,
                _ => return None,
            };
            match &mut value.k {
                Kind::UInt(..) => *value = cborx::uint(COLLRET_COIN),
                Kind::Array(a, _) => *a.get_mut(0)? = cborx::uint(COLLRET_COIN),
                _ => return None,
            }
            body.map_set(16, o);
        }
    }
    let flag = c.flag.unwrap_or(found_flag);
    let tx = cborx::array(vec![body, wits, cborx::boolean(flag), aux.unwrap_or_else(cborx::null)]);
    Some((tag, cborx::write(&tx)))
}

fn era_of(tag: u64) -> Era {
    match tag {
        1 => Era::Byron,
        2 => Era::Shelley,
        3 => Era::Allegra,
        4 => Era::Mary,
        5 => Era::Alonzo,
        6 => Era::Babbage,
        _ => Era::Conway,
    }
}

fn first_occurrences(v: &[(Vec<u8>, u64)]) -> Vec<(Vec<u8>, u64)> {
    let mut seen = BTreeSet::new();
    v.iter().filter(|x| seen.insert((*x).clone())).cloned().collect()
}

pub fn check_tx(tx: &MultiEraTx, view: &TxView, obs: &mut Obs) -> Result<(), Fail> {
    let inputs = layout::inputs_at(view, 0);
    let collateral = layout::inputs_at(view, 13);
    let outs = layout::outputs(view);
    let n = outs.len();
    let collret = layout::collateral_return(view);
    let valid = view.valid;
    pv_ensure!(tx.is_valid() == valid, "c31-validity-flag", "is_valid() = {} but the flag on the wire is {valid}", tx.is_valid());
    let mut out_views = vec![];
    for (k, o) in outs.iter().enumerate() {
        let Some(ov) = layout::output_view(o, view.byron) else { pv_fail!("layout-error", "output {k} not understood") };
        out_views.push(ov);
    }
    let collret_view = match collret {
        Some(o) => match layout::output_view(o, false) {
            Some(v) => Some(v),
            None => pv_fail!("layout-error", "collateral return not understood"),
        },
        None => None,
    };

    // --- consumes
    let source = if valid { &inputs } else { &collateral };
    let want: Vec<(Vec<u8>, u64)> = first_occurrences(source);
    let got: Vec<(Vec<u8>, u64)> = tx.consumes().iter().map(|i| (i.hash().to_vec(), i.index())).collect();
    let got_set: BTreeSet<_> = got.iter().cloned().collect();
    pv_ensure!(got_set.len() == got.len(), "c31-consumes-repeats",
        "consumes() lists an input twice: {} entries, {} distinct (valid={valid})", got.len(), got_set.len());
    let want_set: BTreeSet<_> = want.iter().cloned().collect();
    pv_ensure!(got_set == want_set, if valid { "c31-consumes-valid" } else { "c31-consumes-invalid" },
        "valid={valid}: consumes() = {:?}, expected the {} = {:?}", short_refs(&got),
        if valid { "inputs" } else { "collateral inputs" }, short_refs(&want));

    // --- produces
    let produced = tx.produces();
    if valid {
        pv_ensure!(produced.len() == n, "c31-produces-valid", "valid tx with {n} outputs produces {} entries", produced.len());
        let idxs: BTreeSet<usize> = produced.iter().map(|p| p.0).collect();
        pv_ensure!(idxs == (0..n).collect::<BTreeSet<_>>(), "c31-produces-valid", "valid tx: produced indices {:?}, expected 0..{n}", idxs);
        for (i, o) in &produced {
            if let Some(m) = outcmp::mismatch(o, &out_views[*i]) {
                pv_fail!("c31-produces-valid", "valid tx: produced output at index {i} is not output {i} of the body: {m}");
            }
        }
    } else {
        match &collret_view {
            None => pv_ensure!(produced.is_empty(), "c31-produces-invalid",
                "invalid tx without collateral return produces {} outputs", produced.len()),
            Some(cv) => {
                pv_ensure!(produced.len() == 1, "c31-produces-invalid", "invalid tx with collateral return produces {} outputs", produced.len());
                pv_ensure!(produced[0].0 == n, "c31-collateral-return-index",
                    "invalid tx with {n} outputs: collateral return produced at index {}, expected {n}", produced[0].0);
                if let Some(m) = outcmp::mismatch(&produced[0].1, cv) {
                    pv_fail!("c31-produces-invalid", "invalid tx: the produced output is not the collateral return: {m}");
                }
            }
        }
    }

    // --- produces_at agrees with produces for i in 0..n+2
    for i in 0..n + 2 {
        let at = tx.produces_at(i);
        let listed = produced.iter().find(|p| p.0 == i).map(|p| &p.1);
        match (at.as_ref(), listed) {
            (None, None) => {}
            (Some(a), Some(l)) => {
                // both must be the same wire output
                let wire = if valid { out_views.get(i) } else { collret_view.as_ref() };
                let Some(wire) = wire else { pv_fail!("c31-produces-at", "produces_at({i}) returns an output that does not exist") };
                if let Some(m) = outcmp::mismatch(a, wire) {
                    pv_fail!("c31-produces-at", "produces_at({i}) (valid={valid}) is not the output produces() lists at {i}: {m}");
                }
                let _ = l;
            }
            (a, l) => pv_fail!("c31-produces-at", "valid={valid}, {n} outputs: produces_at({i}) is {} but produces() {} index {i}",
                if a.is_some() { "Some" } else { "None" }, if l.is_some() { "lists" } else { "does not list" }),
        }
    }

    // --- inputs_sorted_set: strictly increasing by (tx id, index), same set as the inputs
    let sorted: Vec<(Vec<u8>, u64)> = tx.inputs_sorted_set().iter().map(|i| (i.hash().to_vec(), i.index())).collect();
    pv_ensure!(sorted.windows(2).all(|w| w[0] < w[1]), "c31-sorted-set-order",
        "inputs_sorted_set() is not strictly increasing by (tx id, index): {:?}", short_refs(&sorted));
    let in_set: BTreeSet<_> = inputs.iter().cloned().collect();
    pv_ensure!(sorted.iter().cloned().collect::<BTreeSet<_>>() == in_set, "c31-sorted-set-content",
        "inputs_sorted_set() is not the set of inputs");

    // classification
    let dup_consumed = want.len() != source.len();
    let dup_inputs = in_set.len() != inputs.len();
    obs.class(if valid { "valid" } else { "invalid" });
    if dup_inputs {
        obs.class("duplicate-inputs");
    }
    if !valid {
        obs.class(if collret.is_some() { "invalid:with-collateral-return" } else { "invalid:no-collateral-return" });
        obs.class(if collateral.is_empty() { "invalid:no-collateral" } else { "invalid:with-collateral" });
        if dup_consumed {
            obs.class("invalid:duplicate-collateral");
        }
    }
    if (!valid && !collateral.is_empty()) || dup_consumed || dup_inputs {
        obs.nontrivial();
    }
    Ok(())
}

fn short_refs(v: &[(Vec<u8>, u64)]) -> Vec<String> {
    v.iter().take(6).map(|(h, i)| format!("{}#{}", &hexs(h)[..8.min(h.len() * 2)], i)).collect()
}

fn check(c: &Case, obs: &mut Obs) -> Result<(), Fail> {
    let Some((tag, bytes)) = build(c) else {
        obs.discard();
        return Ok(());
    };
    let tx = match MultiEraTx::decode_for_era(era_of(tag), &bytes) {
        Ok(t) => t,
        Err(e) => {
            let plain = c.flag.is_none() && c.dup_inputs.is_empty() && c.sibling_inputs.is_empty() && c.dup_collateral.is_empty() && !c.collateral_from_inputs && c.collret == CollRet::Keep;
            obs.class(if plain { "rejected:plain" } else { "rejected:variant" });
            let _ = e;
            return Ok(());
        }
    };
    let Ok(tree) = cborx::read(&bytes) else { pv_fail!("harness:cborx-reread", "bytes do not re-read") };
    let view = match layout::tx_view(&tree, tag == 1) {
        Ok(v) => v,
        Err(e) => pv_fail!("layout-error", "{e}"),
    };
    obs.class(format!("era:{}", layout::ERA_NAMES[tag as usize]));
    check_tx(&tx, &view, obs)
}

static SOURCES: OnceLock<Vec<(String, Option<u16>, u64)>> = OnceLock::new();
static SOURCES_FULL: OnceLock<Vec<(String, Option<u16>, u64)>> = OnceLock::new();

/// (artefact, tx index, era tag) of every transaction of the corpus
pub fn sources(full: bool) -> &'static Vec<(String, Option<u16>, u64)> {
    let cell = if full { &SOURCES_FULL } else { &SOURCES };
    cell.get_or_init(|| {
        let mut v = vec![];
        for e in &pool::pool(full).entries {
            match e.kind.as_str() {
                "tx" => {
                    let tag = match e.era {
                        Some(Era::Byron) => 1,
                        Some(Era::Shelley) => 2,
                        Some(Era::Allegra) => 3,
                        Some(Era::Mary) => 4,
                        Some(Era::Alonzo) => 5,
                        Some(Era::Babbage) => 6,
                        Some(_) => 7,
                        None => continue,
                    };
                    v.push((e.name.clone(), None, tag));
                }
                "block" => {
                    // blocks pallas does not decode (conway8.block needs the `relaxed` feature) are no source
                    if !pvkit::panics::guarded(|| pallas_traverse::MultiEraBlock::decode(&e.bytes).is_ok()).unwrap_or(false) {
                        continue;
                    }
                    let Ok(t) = cborx::read(&e.bytes) else { continue };
                    let Ok(bv) = layout::block_view(&t) else { continue };
                    for i in 0..bv.txs.len() {
                        v.push((e.name.clone(), Some(i as u16), bv.era_tag));
                    }
                }
                _ => {}
            }
        }
        v
    })
}

fn variant_strategy(full: bool) -> impl Strategy<Value = Case> {
    let src = sources(full);
    (
        any::<u16>(),
        prop_oneof![Just(None), Just(Some(true)), Just(Some(false)), Just(Some(false))],
        prop_oneof![2 => Just(vec![]), 2 => proptest::collection::vec((any::<u16>(), any::<u16>()), 1..=3)],
        prop_oneof![2 => Just(vec![]), 1 => proptest::collection::vec((any::<u16>(), any::<u16>()), 1..=3)],
        any::<bool>(),
        prop_oneof![2 => Just(CollRet::Keep), 1 => Just(CollRet::Remove), 2 => any::<u16>().prop_map(CollRet::Add)],
        prop_oneof![
            2 => Just(vec![]),
            2 => proptest::collection::vec(
                (any::<u16>(), prop_oneof![
                    3 => proptest::sample::select(vec![0u32, 1, 2, 9, 10, 11, 19, 20, 99, 100, 101, 255, 256, 999, 1000, 65535, 65536, u32::MAX]),
                    1 => 0u32..300,
                ]),
                1..=5
            ),
        ],
    )
        .prop_map(move |(sel, flag, dup_inputs, dup_collateral, cfi, collret, sibling_inputs)| {
            let (name, idx, tag) = &src[pvkit::pick_idx(sel, src.len())];
            // keep the variant inside the era's domain so that few cases are discarded
            let tag = *tag;
            Case {
                src: name.clone(),
                idx: *idx,
                flag: if tag >= 5 { flag } else { flag.filter(|f| *f) },
                dup_inputs,
                sibling_inputs: if tag >= 2 { sibling_inputs } else { vec![] },
                dup_collateral: if tag >= 5 { dup_collateral } else { vec![] },
                collateral_from_inputs: tag >= 5 && cfi,
                collret: if tag >= 6 { collret } else { CollRet::Keep },
            }
        })
}

pub fn run(s: &Session) {
    s.set_rule("Every transaction of the corpus (standalone .tx files and every transaction of every block; thorough: \
        + the immutable-DB blocks) rebuilt as a standalone transaction by cborx: as found, with the validity flag set \
        to true and to false (Alonzo on), with 1..3 inputs / collateral inputs duplicated at random positions, with \
        collateral := inputs when absent, with the collateral return removed or added (Babbage on; a copy of an output \
        with a coin value no output has). Non-trivial = flag false with non-empty collateral, or duplicates among the \
        inputs / consumed inputs; distinct by case");
    s.assume("Order of consumes()/produces() is not asserted (the statement speaks of sets and indices); \
        Byron inputs of the unknown variant and phase-2-invalid transactions before Alonzo are outside the domain");
    let full = !s.quick();
    let src = sources(full);
    s.note("corpus_transactions", serde_json::json!(src.len()));
    // every corpus transaction: as found, flag true, flag false
    let mut plain = vec![];
    for (name, idx, tag) in src.iter() {
        let base = Case { src: name.clone(), idx: *idx, flag: None, dup_inputs: vec![], sibling_inputs: vec![], dup_collateral: vec![], collateral_from_inputs: false, collret: CollRet::Keep };
        plain.push(base.clone());
        if *tag >= 5 {
            plain.push(Case { flag: Some(true), ..base.clone() });
            plain.push(Case { flag: Some(false), ..base.clone() });
            plain.push(Case { flag: Some(false), collateral_from_inputs: true, ..base.clone() });
        }
        if *tag >= 6 {
            plain.push(Case { flag: Some(false), collateral_from_inputs: true, collret: CollRet::Add(0), ..base.clone() });
            plain.push(Case { flag: Some(false), collateral_from_inputs: true, collret: CollRet::Remove, ..base.clone() });
        }
    }
    s.foreach("corpus-both-flags", plain, true, check);
    s.forall("variants", s.pick(150_000, 3_000_000), move || variant_strategy(full), check);
    // the same effects for transactions reached through a block, where the flag comes from the block's list of invalid
    // indices (any order, repeats, dangling indices): assembled blocks of the Alonzo family and later
    s.forall("through-blocks", s.pick(15_000, 300_000), crate::c30::synth_strategy, |c, obs| {
        let crate::c30::Case::Synth(sy) = c else {
            obs.discard();
            return Ok(());
        };
        if sy.tag < 5 || !sy.forms.is_empty() || sy.txs.is_empty() {
            obs.discard();
            return Ok(());
        }
        let Some(bytes) = crate::c30::assemble(sy) else {
            obs.discard();
            return Ok(());
        };
        let Ok(block) = pallas_traverse::MultiEraBlock::decode(&bytes) else {
            obs.discard();
            return Ok(());
        };
        let Ok(tree) = cborx::read(&bytes) else { pv_fail!("harness:cborx-reread", "assembled block does not re-read") };
        let view = match layout::block_view(&tree) {
            Ok(v) => v,
            Err(e) => pv_fail!("layout-error", "assembled block: {e}"),
        };
        let txs = block.txs();
        pv_ensure!(txs.len() == view.txs.len(), "c31-block-tx-count", "txs() yields {} transactions, the block has {}", txs.len(), view.txs.len());
        let mut some_invalid = false;
        for (tx, tv) in txs.iter().zip(&view.txs) {
            some_invalid |= !tv.valid;
            check_tx(tx, tv, obs)?;
        }
        let sorted = view.invalid.windows(2).all(|w| w[0] < w[1]);
        obs.class(format!("through-block:invalid-list:{}", if view.invalid.is_empty() { "empty" } else if sorted { "ascending" } else { "unordered-or-repeating" }));
        obs.nontrivial_if(some_invalid);
        Ok(())
    });
    for c in ["valid", "invalid", "duplicate-inputs", "invalid:with-collateral-return", "invalid:no-collateral-return",
        "invalid:with-collateral", "invalid:no-collateral", "invalid:duplicate-collateral",
        "era:byron", "era:shelley", "era:allegra", "era:mary", "era:alonzo", "era:babbage", "era:conway"] {
        s.health(s.class_count(c) > 0, &format!("class {c} never generated"));
    }
    s.health(s.class_count("rejected:plain") == 0, "corpus transactions rebuilt without changes are rejected by pallas");
    let rej = s.class_count("rejected:variant");
    s.note("variants_rejected_by_decoder", serde_json::json!(rej));
}
