//! C32 — slot / epoch / wall-clock conversions are mutually consistent (DESIGN §C32).
//!
//! Oracle: a table of the four networks written from the public genesis files (Byron `k`, slot
//! duration, Shelley `epochLength`/`slotLength`, the hard-fork slot/epoch), and the arithmetic of
//! the statement itself. Nothing is read from `pallas_traverse::wellknown`.
use pallas_traverse::wellknown::GenesisValues;
use proptest::prelude::*;
use pvkit::{pv_ensure, Fail, Obs, Session};
use serde::{Deserialize, Serialize};

/// One network, in *slots* (the unit the statement speaks about).
#[derive(Debug, Clone, Copy)]
pub struct NetSpec {
    pub name: &'static str,
    /// Byron: 10·k slots per epoch (k = 2160 on mainnet/testnet/preprod, 432 on preview)
    pub byron_slots_per_epoch: u64,
    pub byron_slot_s: u64,
    /// first slot and first epoch of the Shelley-onwards era
    pub shelley_first_slot: u64,
    pub shelley_first_epoch: u64,
    pub shelley_slots_per_epoch: u64,
    pub shelley_slot_s: u64,
}

pub const NETS: [NetSpec; 4] = [
    // mainnet-byron-genesis.json: k=2160, slotDuration=20000 ms; mainnet-shelley-genesis.json:
    // epochLength=432000, slotLength=1; hard fork at epoch 208 = slot 208*21600
    NetSpec { name: "mainnet", byron_slots_per_epoch: 21600, byron_slot_s: 20, shelley_first_slot: 4_492_800,
        shelley_first_epoch: 208, shelley_slots_per_epoch: 432_000, shelley_slot_s: 1 },
    // legacy testnet: same protocol constants, hard fork at epoch 74 = slot 74*21600
    NetSpec { name: "testnet", byron_slots_per_epoch: 21600, byron_slot_s: 20, shelley_first_slot: 1_598_400,
        shelley_first_epoch: 74, shelley_slots_per_epoch: 432_000, shelley_slot_s: 1 },
    // preview: no Byron slots at all, epochLength=86400
    NetSpec { name: "preview", byron_slots_per_epoch: 4320, byron_slot_s: 20, shelley_first_slot: 0,
        shelley_first_epoch: 0, shelley_slots_per_epoch: 86_400, shelley_slot_s: 1 },
    // preprod: hard fork at epoch 4 = slot 4*21600
    NetSpec { name: "preprod", byron_slots_per_epoch: 21600, byron_slot_s: 20, shelley_first_slot: 86_400,
        shelley_first_epoch: 4, shelley_slots_per_epoch: 432_000, shelley_slot_s: 1 },
];

impl NetSpec {
    pub fn genesis(&self) -> GenesisValues {
        match self.name {
            "mainnet" => GenesisValues::mainnet(),
            "testnet" => GenesisValues::testnet(),
            "preview" => GenesisValues::preview(),
            _ => GenesisValues::preprod(),
        }
    }
    pub fn is_byron(&self, slot: u64) -> bool {
        slot < self.shelley_first_slot
    }
    pub fn era(&self, slot: u64) -> &'static str {
        if self.is_byron(slot) { "byron" } else { "shelley" }
    }
    pub fn epoch_size(&self, slot: u64) -> u64 {
        if self.is_byron(slot) { self.byron_slots_per_epoch } else { self.shelley_slots_per_epoch }
    }
    pub fn slot_len(&self, slot: u64) -> u64 {
        if self.is_byron(slot) { self.byron_slot_s } else { self.shelley_slot_s }
    }
    /// (epoch, slot in epoch)
    pub fn relative(&self, slot: u64) -> (u64, u64) {
        if self.is_byron(slot) {
            (slot / self.byron_slots_per_epoch, slot % self.byron_slots_per_epoch)
        } else {
            let d = slot - self.shelley_first_slot;
            (self.shelley_first_epoch + d / self.shelley_slots_per_epoch, d % self.shelley_slots_per_epoch)
        }
    }
    pub fn absolute(&self, epoch: u64, sub: u64) -> u64 {
        if epoch < self.shelley_first_epoch {
            epoch * self.byron_slots_per_epoch + sub
        } else {
            self.shelley_first_slot + (epoch - self.shelley_first_epoch) * self.shelley_slots_per_epoch + sub
        }
    }
    pub fn epoch_size_of_epoch(&self, epoch: u64) -> u64 {
        if epoch < self.shelley_first_epoch { self.byron_slots_per_epoch } else { self.shelley_slots_per_epoch }
    }
    /// seconds between the starts of slots a <= b
    pub fn elapsed(&self, a: u64, b: u64) -> u64 {
        let f = self.shelley_first_slot;
        let byron = b.min(f).saturating_sub(a.min(f));
        let shelley = b.max(f) - a.max(f);
        byron * self.byron_slot_s + shelley * self.shelley_slot_s
    }
}

pub const MAX_SLOT: u64 = 1 << 40;

#[derive(Debug, Clone, Serialize, Deserialize)]
pub struct SlotCase {
    pub net: u8,
    pub slot: u64,
}

#[derive(Debug, Clone, Serialize, Deserialize)]
pub struct RelCase {
    pub net: u8,
    pub epoch: u64,
    pub sub: u64,
}

#[derive(Debug, Clone, Serialize, Deserialize)]
pub struct PairCase {
    pub net: u8,
    pub a: u64,
    pub b: u64,
}

fn net_of(i: u8) -> &'static NetSpec {
    &NETS[(i as usize) % NETS.len()]
}

/// absolute -> (epoch, slot-in-epoch): epoch number, bound, round-trip.
fn check_to_relative(c: &SlotCase, obs: &mut Obs) -> Result<(), Fail> {
    let net = net_of(c.net);
    if c.slot >= MAX_SLOT {
        obs.discard();
        return Ok(());
    }
    let g = net.genesis();
    let x = c.slot;
    let era = net.era(x);
    let (em, sm) = net.relative(x);
    obs.class(format!("to-relative:{}:{}", net.name, era));
    if em >= 1 {
        obs.nontrivial_key(pvkit::fnv64(format!("{}:{}", net.name, x).as_bytes()));
    }
    let (e, s) = g.absolute_slot_to_relative(x);
    // the epoch number is checked for every slot of every era with its own signature
    pv_ensure!(e == em, format!("c32-epoch-number:{era}"),
        "{} slot {x}: absolute_slot_to_relative gives epoch {e}, {em} whole epochs have elapsed", net.name);
    let size = net.epoch_size(x);
    let back = g.relative_slot_to_absolute(e, s);
    if net.is_byron(x) {
        if em == 0 {
            // first Byron epoch: slot-in-epoch == slot
            pv_ensure!(s < size && s == sm && back == x, "c32-byron-epoch0-slot-in-epoch",
                "{} byron slot {x}: got ({e},{s}), back {back}; expected ({em},{sm})", net.name);
        } else {
            // One root cause on this tree (remainder taken modulo the epoch length in seconds):
            // this signature is produced only for Byron-era slots beyond the first epoch whose
            // slot-in-epoch breaks the bound or the round-trip.
            pv_ensure!(s < size && back == x, "c32-byron-slot-in-epoch",
                "{} byron slot {x}: absolute_slot_to_relative = ({e},{s}) but a Byron epoch has {size} slots \
                 (expected ({em},{sm})); relative_slot_to_absolute({e},{s}) = {back}", net.name);
            pv_ensure!(s == sm, "c32-byron-slot-in-epoch-value",
                "{} byron slot {x}: slot-in-epoch {s}, expected {sm}", net.name);
        }
    } else {
        pv_ensure!(s < size, "c32-shelley-slot-in-epoch-bound",
            "{} slot {x}: slot-in-epoch {s} >= epoch size {size}", net.name);
        pv_ensure!(back == x, "c32-shelley-roundtrip",
            "{} slot {x}: ({e},{s}) maps back to {back}", net.name);
        pv_ensure!(s == sm, "c32-shelley-slot-in-epoch-value",
            "{} slot {x}: slot-in-epoch {s}, expected {sm}", net.name);
    }
    Ok(())
}

/// (epoch, slot-in-epoch) -> absolute -> back.
fn check_to_absolute(c: &RelCase, obs: &mut Obs) -> Result<(), Fail> {
    let net = net_of(c.net);
    let size = net.epoch_size_of_epoch(c.epoch);
    if c.sub >= size || c.epoch > MAX_SLOT / size {
        obs.discard();
        return Ok(());
    }
    let g = net.genesis();
    let xm = net.absolute(c.epoch, c.sub);
    let era = net.era(xm);
    obs.class(format!("to-absolute:{}:{}", net.name, era));
    if c.epoch >= 1 {
        obs.nontrivial_key(pvkit::fnv64(format!("{}:{}:{}", net.name, c.epoch, c.sub).as_bytes()));
    }
    let x = g.relative_slot_to_absolute(c.epoch, c.sub);
    pv_ensure!(x == xm, format!("c32-relative-to-absolute:{era}"),
        "{} (epoch {}, slot {}): relative_slot_to_absolute = {x}, expected {xm}", net.name, c.epoch, c.sub);
    let (e, s) = g.absolute_slot_to_relative(x);
    pv_ensure!(e == c.epoch, format!("c32-epoch-number:{era}"),
        "{} (epoch {}, slot {}) -> {x} -> epoch {e}", net.name, c.epoch, c.sub);
    if era == "byron" && c.epoch >= 1 {
        pv_ensure!(s == c.sub, "c32-byron-slot-in-epoch",
            "{} (epoch {}, slot {}) -> absolute {x} -> ({e},{s})", net.name, c.epoch, c.sub);
    } else {
        pv_ensure!(s == c.sub, format!("c32-inverse-roundtrip:{era}"),
            "{} (epoch {}, slot {}) -> absolute {x} -> ({e},{s})", net.name, c.epoch, c.sub);
    }
    Ok(())
}

/// One step of the wall clock.
fn check_step(c: &SlotCase, obs: &mut Obs) -> Result<(), Fail> {
    let net = net_of(c.net);
    if c.slot >= MAX_SLOT {
        obs.discard();
        return Ok(());
    }
    let g = net.genesis();
    let x = c.slot;
    let w0 = g.slot_to_wallclock(x);
    let w1 = g.slot_to_wallclock(x + 1);
    let want = net.slot_len(x);
    let boundary = net.is_byron(x) && !net.is_byron(x + 1);
    obs.class(if boundary { "step:era-boundary".to_string() } else { format!("step:{}:{}", net.name, net.era(x)) });
    obs.nontrivial_key(pvkit::fnv64(format!("{}:{}", net.name, x).as_bytes()));
    let sig = if boundary {
        // the clock across the hard fork depends on both known points of one network's table
        format!("c32-wallclock-era-boundary:{}", net.name)
    } else {
        format!("c32-wallclock-step:{}", net.era(x))
    };
    pv_ensure!(w1 > w0 && w1 - w0 == want, sig,
        "{}: slot_to_wallclock({x}) = {w0}, slot_to_wallclock({}) = {w1}; slot {x} is a {} slot and lasts {want} s",
        net.name, x + 1, net.era(x));
    Ok(())
}

/// Elapsed time between two arbitrary slots.
fn check_pair(c: &PairCase, obs: &mut Obs) -> Result<(), Fail> {
    let net = net_of(c.net);
    if c.a >= MAX_SLOT || c.b >= MAX_SLOT {
        obs.discard();
        return Ok(());
    }
    let (a, b) = if c.a <= c.b { (c.a, c.b) } else { (c.b, c.a) };
    let g = net.genesis();
    let wa = g.slot_to_wallclock(a);
    let wb = g.slot_to_wallclock(b);
    let want = net.elapsed(a, b);
    let crosses = net.is_byron(a) && !net.is_byron(b);
    obs.class(if crosses { "pair:crosses-boundary".to_string() } else { format!("pair:{}", net.era(a)) });
    if a != b {
        obs.nontrivial();
    }
    let sig = if crosses {
        format!("c32-wallclock-era-boundary:{}", net.name)
    } else {
        format!("c32-wallclock-linear:{}", net.era(a))
    };
    pv_ensure!(wb >= wa && wb - wa == want && (a == b || wb > wa), sig,
        "{}: slot_to_wallclock({a}) = {wa}, slot_to_wallclock({b}) = {wb}, but {want} s elapse between these slots",
        net.name);
    Ok(())
}

/// Slots worth enumerating for one network.
fn interesting_slots(net: &NetSpec, s: &Session) -> Vec<u64> {
    let mut v: Vec<u64> = (0..5000).collect();
    let f = net.shelley_first_slot;
    let span = 2000u64;
    v.extend(f.saturating_sub(span)..=f + span);
    // first N epoch boundaries of each era, +-2
    let n = s.pick(200u64, 2000);
    for k in 0..=n {
        let b = k * net.byron_slots_per_epoch;
        if b <= f {
            v.extend(b.saturating_sub(2)..=b + 2);
        }
        let sh = f + k * net.shelley_slots_per_epoch;
        v.extend(sh.saturating_sub(2)..=sh + 2);
    }
    // multiples of the Byron epoch length *in seconds* (where a seconds/slots mix-up is invisible)
    for k in 0..=20u64 {
        let b = k * net.byron_slots_per_epoch * net.byron_slot_s;
        v.extend(b.saturating_sub(1)..=b + 1);
    }
    v.push(MAX_SLOT - 2);
    v.push(MAX_SLOT - 1);
    v.sort();
    v.dedup();
    v.retain(|x| *x < MAX_SLOT);
    v
}

fn slot_strategy() -> impl Strategy<Value = SlotCase> {
    (0u8..4, any::<u64>(), 0u8..8, 0u64..400, -3i64..=3).prop_map(|(net, r, mode, k, d)| {
        let n = net_of(net);
        let f = n.shelley_first_slot;
        let slot = match mode {
            // uniform over the whole range
            0 | 1 | 2 => r % MAX_SLOT,
            // Byron era (empty on preview: falls through to the early Shelley range)
            3 | 4 => r % (f.max(1) + if f == 0 { 10_000_000 } else { 0 }),
            // the first 400 Shelley epochs
            5 => f + r % (400 * n.shelley_slots_per_epoch),
            // near an epoch boundary of either era
            6 => {
                let b = if r & 1 == 0 && k * n.byron_slots_per_epoch <= f {
                    k * n.byron_slots_per_epoch
                } else {
                    f + k * n.shelley_slots_per_epoch
                };
                b.saturating_add_signed(d)
            }
            // near the hard fork
            _ => (f + r % 50_000).saturating_sub(25_000),
        };
        SlotCase { net, slot: slot.min(MAX_SLOT - 1) }
    })
}

fn rel_strategy() -> impl Strategy<Value = RelCase> {
    (0u8..4, any::<u64>(), any::<u64>(), 0u8..4).prop_map(|(net, re, rs, mode)| {
        let n = net_of(net);
        let max_epoch = MAX_SLOT / n.shelley_slots_per_epoch;
        let epoch = match mode {
            0 => re % max_epoch,
            1 => re % (n.shelley_first_epoch + 1),
            2 => n.shelley_first_epoch + re % 500,
            _ => re % 1000,
        };
        let size = n.epoch_size_of_epoch(epoch);
        let sub = match rs % 5 {
            0 => 0,
            1 => size - 1,
            _ => (rs >> 3) % size,
        };
        RelCase { net, epoch, sub }
    })
}

fn pair_strategy() -> impl Strategy<Value = PairCase> {
    (slot_strategy(), any::<u64>(), 0u8..3).prop_map(|(a, r, mode)| {
        let n = net_of(a.net);
        let b = match mode {
            0 => r % MAX_SLOT,
            1 => r % (2 * n.shelley_first_slot + 1000),
            _ => a.slot.saturating_add(r % 100_000).min(MAX_SLOT - 1),
        };
        PairCase { net: a.net, a: a.slot, b }
    })
}

pub fn run(s: &Session) {
    s.set_rule("(network in {mainnet,testnet,preview,preprod}, absolute slot in [0,2^40)). Enumerated per network: \
        slots 0..5000, hard-fork slot +-2000, the first 200 (thorough 2000) epoch boundaries of each era +-2, \
        multiples of the Byron epoch length in seconds +-1, 2^40-1; generated: uniform in [0,2^40), uniform in \
        the Byron era, in the first 400 Shelley epochs, near epoch boundaries and near the hard fork; the inverse \
        direction from (epoch, slot-in-epoch < epoch size); wall clock as single steps x -> x+1 and as elapsed \
        time between two arbitrary slots. Non-trivial: to-relative / to-absolute cases with epoch >= 1 (the \
        conversion is not the identity), every distinct wall-clock step, every pair of different slots; distinct \
        by (network, slot)");
    s.assume("Network constants (slots per epoch, slot lengths, hard-fork slot and epoch) are those of the public \
        genesis files of the four networks, written down in c32.rs::NETS; absolute wall-clock values are not \
        asserted, only differences (the statement speaks about increase per slot)");

    let mut enumerated = vec![];
    for (i, net) in NETS.iter().enumerate() {
        for x in interesting_slots(net, s) {
            enumerated.push(SlotCase { net: i as u8, slot: x });
        }
    }
    s.note("enumerated_slots", serde_json::json!(enumerated.len()));
    s.foreach("to-relative-enumerated", enumerated.clone(), false, check_to_relative);
    s.foreach("wallclock-step-enumerated", enumerated, false, check_step);

    // inverse direction, enumerated: every epoch up to the hard fork + 300, sub in {0,1,size-1}
    let mut rel = vec![];
    for (i, net) in NETS.iter().enumerate() {
        for e in 0..net.shelley_first_epoch + 300 {
            let size = net.epoch_size_of_epoch(e);
            for sub in [0, 1, size / 2, size - 1] {
                rel.push(RelCase { net: i as u8, epoch: e, sub });
            }
        }
    }
    s.foreach("to-absolute-enumerated", rel, false, check_to_absolute);

    s.forall("to-relative-random", s.pick(4_000_000, 16_000_000), slot_strategy, check_to_relative);
    s.forall("to-absolute-random", s.pick(1_000_000, 4_000_000), rel_strategy, check_to_absolute);
    s.forall("wallclock-step-random", s.pick(2_000_000, 8_000_000), slot_strategy, check_step);
    s.forall("wallclock-pair-random", s.pick(1_000_000, 4_000_000), pair_strategy, check_pair);

    for net in ["mainnet", "testnet", "preprod"] {
        s.health(s.class_count(&format!("to-relative:{net}:byron")) > 1000, &format!("few Byron-era slots for {net}"));
    }
    for net in ["mainnet", "testnet", "preview", "preprod"] {
        s.health(s.class_count(&format!("to-relative:{net}:shelley")) > 1000, &format!("few Shelley-era slots for {net}"));
        s.health(s.class_count(&format!("to-absolute:{net}:shelley")) > 1000, &format!("few inverse cases for {net}"));
    }
    s.health(s.class_count("step:era-boundary") >= 3, "the hard-fork step was not evaluated for the three networks that have one");
    s.health(s.class_count("pair:crosses-boundary") > 100, "no slot pairs across the hard fork");
}
