//! C44 — the UTxO-RPC mapping (v1alpha and v1beta) preserves ledger content (DESIGN §C44).
//!
//! Oracle: the values cborx reads from the bytes handed to pallas (hash = Blake2b of the body span,
//! inputs, outputs, fee, validity, datums) and an own model of Plutus data read from the CBOR item.
use crate::layout::{self, DatumRef, TxView};
use crate::pool::{self, Decoded};
use num_bigint::{BigInt as Big, Sign};
use pallas_codec::minicbor;
use pallas_primitives::alonzo::PlutusData;
use pallas_traverse::{Era, MultiEraTx};
use pallas_utxorpc::{LedgerContext, TxoRef, UtxoMap};
use proptest::prelude::*;
use pvkit::blake2b::b256;
use pvkit::cborx::{self, Kind, Node};
use pvkit::{hexs, pv_ensure, pv_fail, Fail, Obs, Session};
use serde::{Deserialize, Serialize};
use std::collections::BTreeSet;

#[derive(Clone)]
pub struct NoLedger;
impl LedgerContext for NoLedger {
    fn get_utxos(&self, _refs: &[TxoRef]) -> Option<UtxoMap> {
        None
    }
    fn get_slot_timestamp(&self, _slot: u64) -> Option<u64> {
        None
    }
}

// ---------------------------------------------------------------------------------------------
// own model of Plutus data, read from the CBOR item

#[derive(Debug, Clone, PartialEq)]
pub enum Pd {
    Constr { tag: u64, any: u64, fields: Vec<Pd> },
    Map(Vec<(Pd, Pd)>),
    Array(Vec<Pd>),
    /// value, and whether the wire form was a CBOR integer (major type 0/1) rather than a bignum
    Int(Big, bool),
    Bytes(Vec<u8>),
}

pub fn pd_model(n: &Node) -> Option<Pd> {
    Some(match &n.k {
        Kind::UInt(v, _) => Pd::Int(Big::from(*v), true),
        Kind::NInt(v, _) => Pd::Int(-Big::from(1) - Big::from(*v), true),
        Kind::Bytes(s) => Pd::Bytes(s.data()),
        Kind::Array(v, _) => Pd::Array(v.iter().map(pd_model).collect::<Option<_>>()?),
        Kind::Map(v, _) => Pd::Map(v.iter().map(|(a, b)| Some((pd_model(a)?, pd_model(b)?))).collect::<Option<_>>()?),
        Kind::Tag(2, _, i) => Pd::Int(Big::from_bytes_be(Sign::Plus, &i.as_bytes()?), false),
        Kind::Tag(3, _, i) => Pd::Int(-Big::from(1) - Big::from_bytes_be(Sign::Plus, &i.as_bytes()?), false),
        Kind::Tag(t @ (121..=127 | 1280..=1400), _, i) => {
            Pd::Constr { tag: *t, any: 0, fields: i.as_array()?.iter().map(pd_model).collect::<Option<_>>()? }
        }
        Kind::Tag(102, _, i) => {
            let a = i.as_array()?;
            if a.len() != 2 {
                return None;
            }
            Pd::Constr { tag: 102, any: a[0].as_u64()?, fields: a[1].as_array()?.iter().map(pd_model).collect::<Option<_>>()? }
        }
        _ => return None,
    })
}

// neutral form of the mapped output (both schema versions are lowered into it)
#[derive(Debug, Clone, PartialEq)]
pub enum MInt {
    Int(i64),
    BigU(Vec<u8>),
    BigN(Vec<u8>),
}

impl MInt {
    pub fn value(&self) -> Big {
        match self {
            MInt::Int(i) => Big::from(*i),
            MInt::BigU(b) => Big::from_bytes_be(Sign::Plus, b),
            MInt::BigN(b) => -Big::from(1) - Big::from_bytes_be(Sign::Plus, b),
        }
    }
}

#[derive(Debug, Clone, PartialEq)]
pub enum MPd {
    Constr { tag: u64, any: u64, fields: Vec<MPd> },
    Map(Vec<(MPd, MPd)>),
    Array(Vec<MPd>),
    Int(MInt),
    Bytes(Vec<u8>),
    /// a message with no variant set
    Empty,
}

#[derive(Debug, Clone)]
pub struct MOut {
    pub address: Vec<u8>,
    pub coin: Option<MInt>,
    pub assets: Vec<(Vec<u8>, Vec<u8>, Option<MInt>)>,
    pub datum_hash: Vec<u8>,
    pub datum_payload: Option<MPd>,
    pub datum_cbor: Vec<u8>,
    pub has_datum_msg: bool,
    /// v1beta only
    pub output_cbor: Option<Vec<u8>>,
}

#[derive(Debug, Clone)]
pub struct MTx {
    pub hash: Vec<u8>,
    pub inputs: Vec<(Vec<u8>, u64)>,
    pub outputs: Vec<MOut>,
    pub fee: Option<MInt>,
    pub successful: bool,
    pub witness_datums: Vec<MPd>,
}

#[derive(Debug, Clone)]
pub struct MBlock {
    pub hash: Vec<u8>,
    pub txs: Vec<MTx>,
}

pub fn bytes_of<T: AsRef<[u8]>>(b: &T) -> Vec<u8> {
    b.as_ref().to_vec()
}
pub fn opt_bytes_of<T: AsRef<[u8]>>(b: &Option<T>) -> Vec<u8> {
    b.as_ref().map(|x| x.as_ref().to_vec()).unwrap_or_default()
}

macro_rules! lowering {
    ($modname:ident, $ver:ident, $opt_bytes:ident, { $($extra:item)* }) => {
        pub mod $modname {
            #[allow(unused_imports)]
            use super::{bytes_of, opt_bytes_of, MBlock, MInt, MOut, MPd, MTx, NoLedger};
            use pallas_utxorpc::$ver::spec::cardano as u5c;
            pub type Mapper = pallas_utxorpc::$ver::Mapper<NoLedger>;

            pub fn mint(b: &Option<u5c::BigInt>) -> Option<MInt> {
                match b.as_ref()?.big_int.as_ref()? {
                    u5c::big_int::BigInt::Int(i) => Some(MInt::Int(*i)),
                    u5c::big_int::BigInt::BigUInt(b) => Some(MInt::BigU(b.to_vec())),
                    u5c::big_int::BigInt::BigNInt(b) => Some(MInt::BigN(b.to_vec())),
                }
            }
            pub fn mpd(p: &u5c::PlutusData) -> MPd {
                match &p.plutus_data {
                    None => MPd::Empty,
                    Some(u5c::plutus_data::PlutusData::Constr(c)) => {
                        MPd::Constr { tag: c.tag as u64, any: c.any_constructor, fields: c.fields.iter().map(mpd).collect() }
                    }
                    Some(u5c::plutus_data::PlutusData::Map(m)) => MPd::Map(
                        m.pairs
                            .iter()
                            .map(|p| (p.key.as_ref().map(mpd).unwrap_or(MPd::Empty), p.value.as_ref().map(mpd).unwrap_or(MPd::Empty)))
                            .collect(),
                    ),
                    Some(u5c::plutus_data::PlutusData::Array(a)) => MPd::Array(a.items.iter().map(mpd).collect()),
                    Some(u5c::plutus_data::PlutusData::BigInt(b)) => match mint(&Some(b.clone())) {
                        Some(i) => MPd::Int(i),
                        None => MPd::Empty,
                    },
                    Some(u5c::plutus_data::PlutusData::BoundedBytes(b)) => MPd::Bytes(b.to_vec()),
                }
            }
            pub fn mout(o: &u5c::TxOutput) -> MOut {
                let d = o.datum.as_ref();
                MOut {
                    address: o.address.to_vec(),
                    coin: mint(&o.coin),
                    assets: o
                        .assets
                        .iter()
                        .flat_map(|ma| ma.assets.iter().map(|a| (ma.policy_id.to_vec(), a.name.to_vec(), asset_q(a))))
                        .collect(),
                    datum_hash: d.map(|d| d.hash.to_vec()).unwrap_or_default(),
                    datum_payload: d.and_then(|d| d.payload.as_ref()).map(mpd),
                    datum_cbor: d.map(|d| $opt_bytes(&d.original_cbor)).unwrap_or_default(),
                    has_datum_msg: d.is_some(),
                    output_cbor: output_cbor(o),
                }
            }
            pub fn mtx(t: &u5c::Tx) -> MTx {
                MTx {
                    hash: t.hash.to_vec(),
                    inputs: t.inputs.iter().map(|i| (i.tx_hash.to_vec(), i.output_index as u64)).collect(),
                    outputs: t.outputs.iter().map(mout).collect(),
                    fee: mint(&t.fee),
                    successful: t.successful,
                    witness_datums: t.witnesses.as_ref().map(|w| w.plutus_datums.iter().map(mpd).collect()).unwrap_or_default(),
                }
            }
            pub fn mblock(b: &u5c::Block) -> MBlock {
                MBlock {
                    hash: b.header.as_ref().map(|h| h.hash.to_vec()).unwrap_or_default(),
                    txs: b.body.as_ref().map(|b| b.tx.iter().map(mtx).collect()).unwrap_or_default(),
                }
            }
            $($extra)*
        }
    };
}

lowering!(alpha, v1alpha, bytes_of, {
    fn asset_q(a: &u5c::Asset) -> Option<MInt> {
        match &a.quantity {
            Some(u5c::asset::Quantity::OutputCoin(b)) => mint(&Some(b.clone())),
            Some(u5c::asset::Quantity::MintCoin(_)) => None,
            None => None,
        }
    }
    fn output_cbor(_o: &u5c::TxOutput) -> Option<Vec<u8>> {
        None
    }
});
lowering!(beta, v1beta, opt_bytes_of, {
    fn asset_q(a: &u5c::Asset) -> Option<MInt> {
        mint(&a.quantity)
    }
    fn output_cbor(o: &u5c::TxOutput) -> Option<Vec<u8>> {
        o.original_cbor.as_ref().map(|b| b.to_vec())
    }
});

// ---------------------------------------------------------------------------------------------
// comparison

/// Keeps checking past a failure whose signature is a recorded known finding (so that one known
/// root cause does not hide the rest of the artefact); the first such failure is returned at the
/// end so that the runner still counts it.
pub struct Absorb<'a> {
    pub s: &'a Session,
    pub first: Option<Fail>,
}

impl<'a> Absorb<'a> {
    pub fn new(s: &'a Session) -> Self {
        Absorb { s, first: None }
    }
    pub fn run(&mut self, r: Result<(), Fail>) -> Result<(), Fail> {
        match r {
            Err(f) if self.s.is_known(&f.sig).is_some() => {
                if self.first.is_none() {
                    self.first = Some(f);
                }
                Ok(())
            }
            r => r,
        }
    }
    pub fn finish(self) -> Result<(), Fail> {
        match self.first {
            Some(f) => Err(f),
            None => Ok(()),
        }
    }
}

fn cmp_int(want: &Big, wire_int: bool, got: &MInt, path: &str) -> Result<(), Fail> {
    let v = got.value();
    if &v != want {
        // the one root cause expected on this tree: `i128 as i64` on a CBOR integer outside the i64 range
        let wrapped = {
            let (_, le) = want.to_bytes_le();
            let mut b = [0u8; 8];
            for (i, x) in le.iter().take(8).enumerate() {
                b[i] = *x;
            }
            let m = u64::from_le_bytes(b);
            if want.sign() == Sign::Minus { (m as i64).wrapping_neg() } else { m as i64 }
        };
        let outside = want > &Big::from(i64::MAX) || want < &Big::from(i64::MIN);
        if wire_int && outside && *got == MInt::Int(wrapped) {
            pv_fail!("c44-plutus-int-truncated", "{path}: the integer {want} (a CBOR integer outside the i64 range) is mapped to Int({wrapped})");
        }
        pv_fail!("c44-plutus-int-value", "{path}: integer {want} is mapped to {:?} = {v}", got);
    }
    if wire_int && want >= &Big::from(i64::MIN) && want <= &Big::from(i64::MAX) {
        pv_ensure!(matches!(got, MInt::Int(_)), "c44-plutus-int-representation",
            "{path}: {want} fits i64 and is a CBOR integer on the wire but is mapped to {:?}", got);
    }
    Ok(())
}

pub fn cmp_pd(want: &Pd, got: &MPd, path: &str, obs: &mut Obs, ab: &mut Absorb) -> Result<(), Fail> {
    match (want, got) {
        (Pd::Int(v, wire_int), MPd::Int(g)) => {
            let outside = v > &Big::from(i64::MAX) || v < &Big::from(i64::MIN);
            obs.class(match (wire_int, outside) {
                (true, false) => "int:cbor-int-in-i64",
                (true, true) => "int:cbor-int-outside-i64",
                (false, false) => "int:bignum-in-i64",
                (false, true) => "int:bignum-outside-i64",
            });
            ab.run(cmp_int(v, *wire_int, g, path))
        }
        (Pd::Bytes(a), MPd::Bytes(b)) => {
            pv_ensure!(a == b, "c44-plutus-bytes", "{path}: bytes {} mapped to {}", hexs(a), hexs(b));
            Ok(())
        }
        (Pd::Array(a), MPd::Array(b)) => {
            pv_ensure!(a.len() == b.len(), "c44-plutus-structure", "{path}: array of {} mapped to {} items", a.len(), b.len());
            for (i, (x, y)) in a.iter().zip(b).enumerate() {
                cmp_pd(x, y, &format!("{path}[{i}]"), obs, ab)?;
            }
            Ok(())
        }
        (Pd::Map(a), MPd::Map(b)) => {
            pv_ensure!(a.len() == b.len(), "c44-plutus-structure", "{path}: map of {} mapped to {} pairs", a.len(), b.len());
            for (i, ((k, v), (gk, gv))) in a.iter().zip(b).enumerate() {
                cmp_pd(k, gk, &format!("{path}{{k{i}}}"), obs, ab)?;
                cmp_pd(v, gv, &format!("{path}{{v{i}}}"), obs, ab)?;
            }
            Ok(())
        }
        (Pd::Constr { tag, any, fields }, MPd::Constr { tag: gt, any: ga, fields: gf }) => {
            pv_ensure!(tag == gt && any == ga, "c44-plutus-constr", "{path}: constr tag {tag}/{any} mapped to {gt}/{ga}");
            pv_ensure!(fields.len() == gf.len(), "c44-plutus-structure", "{path}: constr with {} fields mapped to {}", fields.len(), gf.len());
            for (i, (x, y)) in fields.iter().zip(gf).enumerate() {
                cmp_pd(x, y, &format!("{path}.{i}"), obs, ab)?;
            }
            Ok(())
        }
        (w, g) => pv_fail!("c44-plutus-structure", "{path}: {} mapped to {}", kind(w), mkind(g)),
    }
}

fn kind(p: &Pd) -> &'static str {
    match p {
        Pd::Constr { .. } => "constr",
        Pd::Map(_) => "map",
        Pd::Array(_) => "array",
        Pd::Int(..) => "int",
        Pd::Bytes(_) => "bytes",
    }
}
fn mkind(p: &MPd) -> &'static str {
    match p {
        MPd::Constr { .. } => "constr",
        MPd::Map(_) => "map",
        MPd::Array(_) => "array",
        MPd::Int(..) => "int",
        MPd::Bytes(_) => "bytes",
        MPd::Empty => "nothing",
    }
}

fn cmp_u64(want: u64, got: &Option<MInt>, sig: &str, what: &str) -> Result<(), Fail> {
    let Some(g) = got else { pv_fail!(sig, "{what}: {want} on the wire, absent in the mapping") };
    pv_ensure!(g.value() == Big::from(want), sig, "{what}: {want} on the wire, mapped to {:?}", g);
    if want <= i64::MAX as u64 {
        pv_ensure!(matches!(g, MInt::Int(_)), sig, "{what}: {want} fits i64 but is mapped to {:?}", g);
    }
    Ok(())
}

/// One mapped transaction against its wire view. `ver` names the schema version in signatures.
pub fn check_mapped_tx(ver: &str, m: &MTx, view: &TxView, src: &[u8], obs: &mut Obs, ab: &mut Absorb) -> Result<(), Fail> {
    let want_hash = layout::tx_id(view, src);
    pv_ensure!(m.hash == want_hash, format!("c44-tx-hash:{ver}"), "hash {} expected {}", hexs(&m.hash), hexs(&want_hash));
    pv_ensure!(m.successful == view.valid, format!("c44-validity:{ver}"), "successful = {} but wire validity = {}", m.successful, view.valid);
    let want_in: BTreeSet<(Vec<u8>, u64)> = layout::inputs_at(view, 0).into_iter().collect();
    let got_in: BTreeSet<(Vec<u8>, u64)> = m.inputs.iter().cloned().collect();
    pv_ensure!(want_in == got_in, format!("c44-inputs:{ver}"), "inputs differ: {} on the wire (distinct), {} mapped", want_in.len(), got_in.len());
    if !view.byron {
        match layout::fee(view) {
            Some(f) => cmp_u64(f, &m.fee, &format!("c44-fee:{ver}"), "fee")?,
            None => pv_fail!("layout-error", "no fee in a post-Byron body"),
        }
    }
    let outs = layout::outputs(view);
    pv_ensure!(outs.len() == m.outputs.len(), format!("c44-output-count:{ver}"), "{} outputs on the wire, {} mapped", outs.len(), m.outputs.len());
    let wire_datums: Vec<&Node> = layout::witness_items(view, 4);
    for (k, (n, mo)) in outs.iter().zip(&m.outputs).enumerate() {
        let Some(ov) = layout::output_view(n, view.byron) else { pv_fail!("layout-error", "output {k} not understood") };
        let want_addr: Vec<u8> = if view.byron {
            // the Byron address is the whole `[#6.24(bytes), crc]` item
            match n.as_array().and_then(|a| a.first()) {
                Some(a) => a.span(src).to_vec(),
                None => pv_fail!("layout-error", "byron output {k}"),
            }
        } else {
            ov.address.clone()
        };
        if mo.address != want_addr {
            // root cause on this tree: the mapper emits Address::from_bytes(wire).to_vec() instead of the wire bytes
            let reencoded = pallas_addresses::Address::from_bytes(&want_addr).map(|a| a.to_vec()).ok();
            let sig = if !view.byron && reencoded.as_deref() == Some(&mo.address[..]) {
                "c44-output-address-reserialised".to_string()
            } else {
                format!("c44-output-address:{ver}")
            };
            ab.run(Err(Fail { sig, msg: format!("output {k}: address {} ({} bytes) on the wire, mapped to {} ({} bytes)",
                hexs(&want_addr), want_addr.len(), hexs(&mo.address), mo.address.len()) }))?;
        }
        cmp_u64(ov.coin, &mo.coin, &format!("c44-output-coin:{ver}"), &format!("output {k} coin"))?;
        let mut want_assets: Vec<(Vec<u8>, Vec<u8>, Big)> = ov.assets.iter().map(|(p, n, q)| (p.clone(), n.clone(), Big::from(*q))).collect();
        want_assets.sort();
        let mut got_assets = vec![];
        for (p, n, q) in &mo.assets {
            let Some(q) = q else { pv_fail!(format!("c44-output-assets:{ver}"), "output {k}: asset without an output quantity") };
            got_assets.push((p.clone(), n.clone(), q.value()));
        }
        got_assets.sort();
        pv_ensure!(want_assets == got_assets, format!("c44-output-assets:{ver}"),
            "output {k}: {} assets on the wire, {} mapped (or different content)", want_assets.len(), got_assets.len());
        if !ov.assets.is_empty() {
            obs.class("output-with-assets");
        }
        match &ov.datum {
            DatumRef::None => {
                pv_ensure!(mo.datum_hash.is_empty() && mo.datum_payload.is_none(), format!("c44-datum-absent:{ver}"),
                    "output {k} has no datum on the wire but the mapping carries hash {} / payload {}", hexs(&mo.datum_hash), mo.datum_payload.is_some());
            }
            DatumRef::Hash(h) => {
                obs.class("datum:hash");
                pv_ensure!(&mo.datum_hash == h, format!("c44-datum-hash:{ver}"), "output {k}: datum hash {} mapped to {}", hexs(h), hexs(&mo.datum_hash));
                if let Some(p) = &mo.datum_payload {
                    // must be the witness datum with that hash
                    let Some(w) = wire_datums.iter().find(|d| &b256(d.span(src))[..] == &h[..]) else {
                        pv_fail!(format!("c44-datum-payload:{ver}"), "output {k}: payload given for datum hash {} but no witness datum has this hash", hexs(h))
                    };
                    let Some(model) = pd_model(w) else { pv_fail!("layout-error", "witness datum not understood") };
                    cmp_pd(&model, p, &format!("output[{k}].datum"), obs, ab)?;
                    obs.class("datum:hash-resolved");
                }
            }
            DatumRef::Inline(bytes) => {
                obs.class("datum:inline");
                let want = b256(bytes);
                pv_ensure!(mo.datum_hash == want, format!("c44-datum-hash:{ver}"), "output {k}: inline datum hash {} mapped to {}", hexs(&want), hexs(&mo.datum_hash));
                pv_ensure!(&mo.datum_cbor == bytes, format!("c44-datum-cbor:{ver}"), "output {k}: inline datum bytes {} mapped to {}", hexs(bytes), hexs(&mo.datum_cbor));
                let Ok(t) = cborx::read(bytes) else { pv_fail!("layout-error", "inline datum is not one CBOR item") };
                let Some(model) = pd_model(&t) else { pv_fail!("layout-error", "inline datum not understood") };
                let Some(p) = &mo.datum_payload else { pv_fail!(format!("c44-datum-payload:{ver}"), "output {k}: inline datum without payload") };
                cmp_pd(&model, p, &format!("output[{k}].datum"), obs, ab)?;
            }
        }
        if let Some(oc) = &mo.output_cbor {
            if &oc[..] != n.span(src) {
                obs.class("observation:v1beta-output-original-cbor-is-a-re-encoding");
            }
        }
    }
    if !view.byron {
        pv_ensure!(wire_datums.len() == m.witness_datums.len(), format!("c44-witness-datums:{ver}"),
            "{} witness datums on the wire, {} mapped", wire_datums.len(), m.witness_datums.len());
        for (j, (w, g)) in wire_datums.iter().zip(&m.witness_datums).enumerate() {
            let Some(model) = pd_model(w) else { pv_fail!("layout-error", "witness datum not understood") };
            cmp_pd(&model, g, &format!("witness.datum[{j}]"), obs, ab)?;
            obs.class("datum:witness");
        }
    }
    Ok(())
}

// ---------------------------------------------------------------------------------------------
// generated Plutus data

#[derive(Debug, Clone, Serialize, Deserialize)]
pub enum Gpd {
    /// CBOR integer: value = mag, or -1-mag when neg; `widen` > 0 picks a non-minimal head width
    Int { neg: bool, mag: u64, widen: u8 },
    BigU(Vec<u8>),
    BigN(Vec<u8>),
    Bytes(Vec<u8>),
    Array(Vec<Gpd>, bool),
    Map(Vec<(Gpd, Gpd)>),
    /// constructor index: 0..=6 -> tag 121.., 7..=127 -> tag 1280.., above -> tag 102 [index, fields]
    Constr(u64, Vec<Gpd>),
}

pub fn gpd_node(g: &Gpd) -> Node {
    match g {
        Gpd::Int { neg, mag, widen } => {
            let opts = cborx::W::options(*mag);
            let w = opts[(*widen as usize) % opts.len()];
            cborx::node(if *neg { Kind::NInt(*mag, w) } else { Kind::UInt(*mag, w) })
        }
        Gpd::BigU(b) => cborx::tag(2, cborx::bytes(b)),
        Gpd::BigN(b) => cborx::tag(3, cborx::bytes(b)),
        Gpd::Bytes(b) => {
            if b.len() <= 64 {
                cborx::bytes(b)
            } else {
                cborx::node(Kind::Bytes(cborx::Str::Indef(b.chunks(64).map(|c| (cborx::W::min_for(c.len() as u64), c.to_vec())).collect())))
            }
        }
        Gpd::Array(v, indef) => {
            let items = v.iter().map(gpd_node).collect();
            if *indef { cborx::array_indef(items) } else { cborx::array(items) }
        }
        Gpd::Map(v) => cborx::map(v.iter().map(|(a, b)| (gpd_node(a), gpd_node(b))).collect()),
        Gpd::Constr(ix, f) => {
            let fields = cborx::array(f.iter().map(gpd_node).collect());
            match ix {
                0..=6 => cborx::tag(121 + ix, fields),
                7..=127 => cborx::tag(1280 + ix - 7, fields),
                _ => cborx::tag(102, cborx::array(vec![cborx::uint(*ix), fields])),
            }
        }
    }
}

fn gint() -> impl Strategy<Value = Gpd> {
    let edge = prop_oneof![
        Just(0u64), Just(1), Just(23), Just(24), Just(255), Just(256), Just(65535), Just(65536), Just(u32::MAX as u64),
        Just(u32::MAX as u64 + 1), Just(i64::MAX as u64 - 1), Just(i64::MAX as u64), Just(i64::MAX as u64 + 1),
        Just(i64::MAX as u64 + 2), Just(u64::MAX - 1), Just(u64::MAX),
    ];
    (any::<bool>(), prop_oneof![3 => edge, 2 => any::<u64>(), 2 => 0u64..1000, 2 => i64::MAX as u64 - 5..=u64::MAX],
        prop_oneof![3 => Just(0u8), 1 => 1u8..5])
        .prop_map(|(neg, mag, widen)| Gpd::Int { neg, mag, widen })
}

fn gleaf() -> impl Strategy<Value = Gpd> {
    prop_oneof![
        6 => gint(),
        2 => proptest::collection::vec(any::<u8>(), 0..=12).prop_map(Gpd::BigU),
        2 => proptest::collection::vec(any::<u8>(), 0..=12).prop_map(Gpd::BigN),
        1 => (any::<u64>()).prop_map(|v| Gpd::BigU(v.to_be_bytes().to_vec())),
        1 => (any::<u64>()).prop_map(|v| Gpd::BigN(v.to_be_bytes().to_vec())),
        2 => proptest::collection::vec(any::<u8>(), 0..=80).prop_map(Gpd::Bytes),
    ]
}

pub fn gpd() -> impl Strategy<Value = Gpd> {
    gleaf().prop_recursive(4, 24, 5, |inner| {
        prop_oneof![
            2 => (proptest::collection::vec(inner.clone(), 0..5), any::<bool>()).prop_map(|(v, i)| Gpd::Array(v, i)),
            2 => proptest::collection::vec((inner.clone(), inner.clone()), 0..4).prop_map(Gpd::Map),
            3 => (prop_oneof![0u64..7, 7u64..128, 128u64..1000, any::<u64>()], proptest::collection::vec(inner, 0..5)).prop_map(|(ix, f)| Gpd::Constr(ix, f)),
        ]
    })
}

// ---------------------------------------------------------------------------------------------
// cases

#[derive(Debug, Clone, Serialize, Deserialize)]
pub enum Case {
    /// a corpus artefact through both mappers
    Corpus { name: String },
    /// a generated datum through `map_plutus_datum`
    Datum { datum: Gpd },
    /// a generated datum as inline datum of output `out` of corpus transaction (src, idx) and appended to its witness
    /// datums; the validity flag of the rebuilt transaction is `valid`
    /// `value`: replace the output's value by (coin, [(policy byte, asset name byte, quantity)]) — quantities over the whole u64 range
    InOutput { src: String, idx: Option<u16>, out: u16, valid: bool, datum: Gpd, #[serde(default)] value: Option<(u64, Vec<(u8, u8, u64)>)>,
        /// write the output in the legacy `[address, value]` layout with this kind of address bytes (0 as they were, 1 pointer
        /// address with an over-long variable-length integer, 2 surplus trailing bytes, 3 bytes that are no address)
        #[serde(default)] legacy_addr: Option<u8> },
}

fn both_txs(tx: &MultiEraTx, view: &TxView, src: &[u8], obs: &mut Obs, ab: &mut Absorb) -> Result<(), Fail> {
    let a = alpha::Mapper::new(NoLedger).map_tx(tx);
    check_mapped_tx("v1alpha", &alpha::mtx(&a), view, src, obs, ab)?;
    let b = beta::Mapper::new(NoLedger).map_tx(tx);
    check_mapped_tx("v1beta", &beta::mtx(&b), view, src, obs, ab)
}

fn check(s: &Session, c: &Case, obs: &mut Obs) -> Result<(), Fail> {
    let mut ab = Absorb::new(s);
    let ab = &mut ab;
    let r = check_inner(c, obs, ab);
    r?;
    std::mem::replace(ab, Absorb::new(s)).finish()
}

fn check_inner(c: &Case, obs: &mut Obs, ab: &mut Absorb) -> Result<(), Fail> {
    match c {
        Case::Corpus { name } => {
            let Some(e) = pool::lookup(name) else {
                obs.discard();
                return Ok(());
            };
            let bytes = &e.bytes;
            let Ok(dec) = pool::decode(e, bytes) else {
                obs.class("undecodable-original");
                return Ok(());
            };
            let Ok(tree) = cborx::read(bytes) else { pv_fail!("harness:cborx-cannot-read-artefact", "{name}") };
            match &dec {
                Decoded::Block(b) => {
                    let view = match layout::block_view(&tree) {
                        Ok(v) => v,
                        Err(e) => pv_fail!("layout-error", "{e}"),
                    };
                    obs.class(format!("block:{}", layout::ERA_NAMES[view.era_tag as usize]));
                    let want_hash = layout::header_hash(view.era_tag, view.header, bytes);
                    for ver in ["v1alpha", "v1beta"] {
                        let mb = if ver == "v1alpha" {
                            alpha::mblock(&alpha::Mapper::new(NoLedger).map_block(b))
                        } else {
                            beta::mblock(&beta::Mapper::new(NoLedger).map_block(b))
                        };
                        pv_ensure!(mb.hash == want_hash, format!("c44-block-hash:{ver}"), "block hash {} expected {}", hexs(&mb.hash), hexs(&want_hash));
                        pv_ensure!(mb.txs.len() == view.txs.len(), format!("c44-block-tx-count:{ver}"), "{} txs mapped, {} in the block", mb.txs.len(), view.txs.len());
                        for (m, tv) in mb.txs.iter().zip(&view.txs) {
                            check_mapped_tx(ver, m, tv, bytes, obs, ab)?;
                        }
                    }
                    if !view.txs.is_empty() {
                        obs.nontrivial();
                    }
                }
                Decoded::Tx(tx) => {
                    let view = match layout::tx_view(&tree, matches!(tx, MultiEraTx::Byron(_))) {
                        Ok(v) => v,
                        Err(e) => pv_fail!("layout-error", "{e}"),
                    };
                    obs.class("tx");
                    both_txs(tx, &view, bytes, obs, ab)?;
                    obs.nontrivial();
                }
                Decoded::Header(..) => obs.discard(),
            }
            Ok(())
        }
        Case::Datum { datum } => {
            let node = gpd_node(datum);
            let bytes = cborx::write(&node);
            let Ok(tree) = cborx::read(&bytes) else { pv_fail!("harness:cborx-reread", "generated datum") };
            let Some(model) = pd_model(&tree) else { pv_fail!("harness:model", "generated datum not understood by the model") };
            let pd: PlutusData = match minicbor::decode(&bytes) {
                Ok(p) => p,
                Err(_) => {
                    obs.class("datum-rejected-by-decoder");
                    return Ok(());
                }
            };
            obs.class("datum-decoded");
            obs.nontrivial();
            let a = alpha::Mapper::new(NoLedger).map_plutus_datum(&pd);
            cmp_pd(&model, &alpha::mpd(&a), "datum", obs, ab)?;
            let b = beta::Mapper::new(NoLedger).map_plutus_datum(&pd);
            cmp_pd(&model, &beta::mpd(&b), "datum", obs, ab)
        }
        Case::InOutput { src, idx, out, valid, datum, value: value_edit, legacy_addr } => {
            // rebuild the transaction with the datum inline in one output and among the witness datums
            let base = crate::c31::Case {
                src: src.clone(), idx: *idx, flag: Some(*valid), dup_inputs: vec![], sibling_inputs: vec![], dup_collateral: vec![],
                collateral_from_inputs: false, collret: crate::c31::CollRet::Keep,
            };
            let Some((tag, plain)) = crate::c31::build(&base) else {
                obs.discard();
                return Ok(());
            };
            if tag < 6 {
                obs.discard();
                return Ok(());
            }
            let Ok(mut t) = cborx::read(&plain) else { pv_fail!("harness:cborx-reread", "rebuilt tx") };
            let dnode = gpd_node(datum);
            let dbytes = cborx::write(&dnode);
            {
                let Some(parts) = t.as_array_mut() else { pv_fail!("layout-error", "tx") };
                let (body, rest) = parts.split_at_mut(1);
                let body = &mut body[0];
                let Some(outs) = body.map_get_mut(1).and_then(|o| o.as_array_mut()) else { pv_fail!("layout-error", "outputs") };
                if outs.is_empty() {
                    obs.discard();
                    return Ok(());
                }
                let k = pvkit::pick_idx(*out, outs.len());
                let o = &mut outs[k];
                let (addr, value) = match &o.k {
                    Kind::Array(a, _) if a.len() >= 2 => (a[0].clone(), a[1].clone()),
                    Kind::Map(..) => match (o.map_get(0), o.map_get(1)) {
                        (Some(a), Some(v)) => (a.clone(), v.clone()),
                        _ => pv_fail!("layout-error", "output map"),
                    },
                    _ => pv_fail!("layout-error", "output"),
                };
                let value = match value_edit {
                    None => value,
                    Some((coin, assets)) if assets.is_empty() => cborx::uint(*coin),
                    Some((coin, assets)) => {
                        obs.class("in-output:value-replaced");
                        if assets.iter().any(|a| a.2 > i64::MAX as u64) {
                            obs.class("in-output:asset-quantity-above-i64");
                        }
                        let mut pols: std::collections::BTreeMap<u8, std::collections::BTreeMap<u8, u64>> = Default::default();
                        for (p, n, q) in assets {
                            pols.entry(*p).or_default().insert(*n, (*q).max(1));
                        }
                        cborx::array(vec![
                            cborx::uint(*coin),
                            cborx::map(pols.iter().map(|(p, names)| {
                                (cborx::bytes(&[*p; 28]), cborx::map(names.iter().map(|(n, q)| (cborx::bytes(&[b'a' + (*n % 26)]), cborx::uint(*q))).collect()))
                            }).collect()),
                        ])
                    }
                };
                if let Some(kind) = legacy_addr {
                    let orig = addr.as_bytes().unwrap_or_default();
                    let odd: Vec<u8> = match kind % 4 {
                        0 => orig,
                        1 => {
                            // pointer address (type 4) whose first variable-length integer carries a leading zero group
                            let mut a = vec![0x41];
                            a.extend([0x42u8; 28]);
                            a.extend([0x80, 0x05, 0x02, 0x03]);
                            a
                        }
                        2 => {
                            let mut a = orig;
                            a.extend([0xde, 0xad]);
                            a
                        }
                        _ => vec![0xff, 0x00, 0x01],
                    };
                    obs.class(format!("in-output:legacy-layout:address-kind-{}", kind % 4));
                    *o = cborx::array(vec![cborx::bytes(&odd), value]);
                } else {
                    *o = cborx::map(vec![
                        (cborx::uint(0), addr),
                        (cborx::uint(1), value),
                        (cborx::uint(2), cborx::array(vec![cborx::uint(1), cborx::tag(24, cborx::bytes(&dbytes))])),
                    ]);
                }
                // witness datums: append
                let wits = &mut rest[0];
                match wits.map_get_mut(4) {
                    Some(set) => {
                        let inner = match &mut set.k {
                            Kind::Tag(_, _, i) => i.as_mut(),
                            _ => set,
                        };
                        if let Kind::Array(v, len) = &mut inner.k {
                            v.push(dnode.clone());
                            if let cborx::Len::Def(w) = len {
                                *w = cborx::W::min_for(v.len() as u64);
                            }
                        }
                    }
                    None => wits.map_set(4, cborx::array(vec![dnode.clone()])),
                }
            }
            let bytes = cborx::write(&t);
            let era = if tag == 6 { Era::Babbage } else { Era::Conway };
            let tx = match MultiEraTx::decode_for_era(era, &bytes) {
                Ok(t) => t,
                Err(_) => {
                    obs.class("in-output-rejected-by-decoder");
                    return Ok(());
                }
            };
            let Ok(tree) = cborx::read(&bytes) else { pv_fail!("harness:cborx-reread", "tx with datum") };
            let view = match layout::tx_view(&tree, false) {
                Ok(v) => v,
                Err(e) => pv_fail!("layout-error", "{e}"),
            };
            obs.class("in-output-decoded");
            obs.class(if *valid { "in-output:valid" } else { "in-output:invalid" });
            obs.nontrivial();
            both_txs(&tx, &view, &bytes, obs, ab)
        }
    }
}

pub fn run(s: &Session) {
    s.set_rule("Corpus: every block and standalone transaction of test_data (thorough: + the immutable-DB blocks) through \
        v1alpha::Mapper and v1beta::Mapper with a context that resolves nothing. Generated: Plutus data trees (depth <= 4) \
        with CBOR integers over [-2^64, 2^64-1] (edges of every head width and of the i64 range), tag-2/3 bignums of 0..12 \
        bytes, byte strings up to 80 bytes (chunked above 64), definite/indefinite arrays, maps, constructors 121..127, \
        1280..1400 and 102; each through map_plutus_datum and as inline datum + witness datum of a Babbage/Conway corpus \
        transaction (validity flag true or false) through map_tx. Non-trivial: corpus blocks with transactions and transactions; generated datums pallas \
        decodes; distinct by case");
    s.assume("Weaker readings taken: inputs compared as sets (the mapper emits the sorted set); a small value that arrives as \
        a tag-2/3 bignum may stay big-integer bytes (only its value is compared); collateral, certificates, mint, scripts and \
        metadata are not part of the statement and are not compared; an output's datum payload for a datum *hash* is compared \
        only when the mapper supplies one");
    let thorough = !s.quick();
    let p = pool::pool(thorough);
    let names = p.names(&["block", "tx"]);
    s.foreach("corpus", names.iter().map(|n| Case::Corpus { name: n.clone() }).collect(), true, |c, o| check(s, c, o));
    s.forall("generated-datums", s.pick(300_000, 6_000_000), || gpd().prop_map(|datum| Case::Datum { datum }), |c, o| check(s, c, o));
    let src: Vec<(String, Option<u16>)> = crate::c31::sources(false).iter().filter(|x| x.2 >= 6).map(|x| (x.0.clone(), x.1)).collect();
    s.forall("datum-in-output", s.pick(60_000, 1_200_000), move || {
        let src = src.clone();
        let q = || prop_oneof![Just(1u64), Just(i32::MAX as u64), Just(u32::MAX as u64), Just(1u64 << 32), Just(i64::MAX as u64), Just(1u64 << 63), Just((1u64 << 63) + 1), Just(u64::MAX), any::<u64>()];
        let value = proptest::option::weighted(0.5, (q(), proptest::collection::vec((0u8..3, 0u8..4, q()), 0..4)));
        (any::<u16>(), any::<u16>(), prop_oneof![2 => Just(true), 1 => Just(false)], gpd(), value, proptest::option::weighted(0.3, 0u8..4)).prop_map(move |(sel, out, valid, datum, value, legacy_addr)| {
            let (name, idx) = &src[pvkit::pick_idx(sel, src.len())];
            Case::InOutput { src: name.clone(), idx: *idx, out, valid, datum, value, legacy_addr }
        })
    }, |c, o| check(s, c, o));
    for c in ["int:cbor-int-in-i64", "int:cbor-int-outside-i64", "int:bignum-in-i64", "int:bignum-outside-i64", "datum:inline",
        "datum:hash", "datum:witness", "output-with-assets", "datum-decoded", "in-output-decoded", "in-output:valid", "in-output:invalid", "in-output:asset-quantity-above-i64", "tx",
        "block:byron", "block:shelley", "block:mary", "block:alonzo", "block:babbage", "block:conway"] {
        s.health(s.class_count(c) > 0, &format!("class {c} never evaluated"));
    }
    s.health(s.class_count("datum-rejected-by-decoder") * 10 <= s.class_count("datum-decoded"), "more than 10% of the generated datums are rejected by pallas");
}
