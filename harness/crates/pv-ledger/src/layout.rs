//! Block / transaction layout, written down from the ledger CDDL files (byron.cddl, shelley.cddl …
//! conway.cddl) over the cborx tree — not from pallas' decoders.
//!
//! ```text
//! wrapped block     = [era_tag, block]         era_tag: 0 Byron EBB, 1 Byron main, 2 Shelley, 3 Allegra,
//!                                                       4 Mary, 5 Alonzo, 6 Babbage, 7 Conway
//! post-Byron block  = [header, [* body], [* witness_set], {* index => aux_data}, ? [* invalid index]]
//!                      (the invalid list exists from Alonzo on)
//!   header hash     = Blake2b-256(header item bytes);  tx id = Blake2b-256(body item bytes)
//! Byron main block  = [header, body = [tx_payload = [* [tx, [* witness]]], ssc, dlg, upd], extra]
//!   header hash     = Blake2b-256(82 01 ‖ header);     tx id = Blake2b-256(tx item bytes)
//! Byron EBB         = [header, [* stakeholder], extra]; header hash = Blake2b-256(82 00 ‖ header)
//! tx body (map)     : 0 inputs (set of [tx id, ix]), 1 outputs, 2 fee, 3 ttl, 7 aux hash, 8 validity start,
//!                     9 mint, 13 collateral (set of input), 16 collateral return (output),
//!                     17 total collateral, 18 reference inputs
//! witness set (map) : 0 vkey, 1 native scripts, 2 bootstrap, 3 plutus v1, 4 plutus data, 5 redeemers,
//!                     6 plutus v2, 7 plutus v3           (sets may carry tag 258 in Conway)
//! output            = [address, value, ? datum_hash]                                     (legacy)
//!                   / {0: address, 1: value, ? 2: [0, hash32] / [1, #6.24(bytes .cbor data)],
//!                      ? 3: #6.24(bytes .cbor [0, native] / [1|2|3, plutus bytes])}       (Babbage on)
//! value             = coin / [coin, {* policy => {* asset name => quantity}}]
//! standalone tx     = [body, witness_set, is_valid, aux / null] (Alonzo on) / [body, witness_set, aux / null]
//! Byron tx          = [[* input], [* output], attributes]; input = [0, #6.24(bytes .cbor [tx id, ix])]
//!                     output = [address = [#6.24(bytes), crc], coin]
//! ```
use pvkit::blake2b::{b224, b256};
use pvkit::cborx::{Kind, Node};

pub const ERA_NAMES: [&str; 8] = ["byron-ebb", "byron", "shelley", "allegra", "mary", "alonzo", "babbage", "conway"];

pub struct TxView<'a> {
    /// the hashed item: transaction body (post-Byron) or the Byron `tx`
    pub body: &'a Node,
    pub wits: Option<&'a Node>,
    pub aux: Option<&'a Node>,
    pub valid: bool,
    pub byron: bool,
}

pub struct BlockView<'a> {
    pub era_tag: u64,
    pub header: &'a Node,
    pub txs: Vec<TxView<'a>>,
    pub invalid: Vec<u64>,
    pub aux_keys: Vec<u64>,
}

fn arr<'a>(n: &'a Node, what: &str) -> Result<&'a Vec<Node>, String> {
    n.as_array().ok_or_else(|| format!("{what}: not an array"))
}

pub fn block_view(root: &Node) -> Result<BlockView<'_>, String> {
    let w = arr(root, "wrapper")?;
    if w.len() != 2 {
        return Err("wrapper: not 2 elements".into());
    }
    let era_tag = w[0].as_u64().ok_or("era tag not uint")?;
    let blk = arr(&w[1], "block")?;
    match era_tag {
        0 => {
            if blk.len() != 3 {
                return Err("ebb: not 3 elements".into());
            }
            Ok(BlockView { era_tag, header: &blk[0], txs: vec![], invalid: vec![], aux_keys: vec![] })
        }
        1 => {
            if blk.len() != 3 {
                return Err("byron block: not 3 elements".into());
            }
            let body = arr(&blk[1], "byron body")?;
            let payload = arr(body.first().ok_or("byron body empty")?, "tx_payload")?;
            let mut txs = vec![];
            for p in payload {
                let p = arr(p, "tx_payload entry")?;
                if p.len() != 2 {
                    return Err("tx_payload entry: not 2 elements".into());
                }
                txs.push(TxView { body: &p[0], wits: Some(&p[1]), aux: None, valid: true, byron: true });
            }
            Ok(BlockView { era_tag, header: &blk[0], txs, invalid: vec![], aux_keys: vec![] })
        }
        2..=7 => {
            if blk.len() < 4 || blk.len() > 5 {
                return Err(format!("block: {} elements", blk.len()));
            }
            let bodies = arr(&blk[1], "bodies")?;
            let wits = arr(&blk[2], "witness sets")?;
            let aux = blk[3].as_map().ok_or("aux: not a map")?;
            let invalid: Vec<u64> = match blk.get(4) {
                Some(n) => arr(n, "invalid")?.iter().map(|x| x.as_u64().ok_or("invalid idx")).collect::<Result<_, _>>()?,
                None => vec![],
            };
            let mut aux_keys = vec![];
            for (k, _) in aux {
                aux_keys.push(k.as_u64().ok_or("aux key not uint")?);
            }
            let mut txs = vec![];
            for (i, b) in bodies.iter().enumerate() {
                let a = aux.iter().find(|(k, _)| k.as_u64() == Some(i as u64)).map(|(_, v)| v);
                txs.push(TxView {
                    body: b,
                    wits: wits.get(i),
                    aux: a,
                    valid: !invalid.contains(&(i as u64)),
                    byron: false,
                });
            }
            Ok(BlockView { era_tag, header: &blk[0], txs, invalid, aux_keys })
        }
        t => Err(format!("unknown era tag {t}")),
    }
}

/// Standalone transaction file.
pub fn tx_view(root: &Node, byron: bool) -> Result<TxView<'_>, String> {
    let a = arr(root, "tx")?;
    if byron {
        if a.len() != 2 {
            return Err("byron tx payload: not 2 elements".into());
        }
        return Ok(TxView { body: &a[0], wits: Some(&a[1]), aux: None, valid: true, byron: true });
    }
    match a.len() {
        4 => {
            let valid = match a[2].k {
                Kind::Simple(21, _) => true,
                Kind::Simple(20, _) => false,
                _ => return Err("validity flag is not a bool".into()),
            };
            let aux = if a[3].is_null() { None } else { Some(&a[3]) };
            Ok(TxView { body: &a[0], wits: Some(&a[1]), aux, valid, byron: false })
        }
        3 => {
            let aux = if a[2].is_null() { None } else { Some(&a[2]) };
            Ok(TxView { body: &a[0], wits: Some(&a[1]), aux, valid: true, byron: false })
        }
        n => Err(format!("tx: {n} elements")),
    }
}

pub fn header_hash(era_tag: u64, header: &Node, src: &[u8]) -> [u8; 32] {
    let h = header.span(src);
    match era_tag {
        0 | 1 => {
            let mut v = vec![0x82, era_tag as u8];
            v.extend_from_slice(h);
            b256(&v)
        }
        _ => b256(h),
    }
}

pub fn tx_id(tx: &TxView, src: &[u8]) -> [u8; 32] {
    b256(tx.body.span(src))
}

/// elements of a (possibly tag-258-wrapped) array
pub fn set_items(n: &Node) -> Option<&Vec<Node>> {
    n.untagged().as_array()
}

/// (tx id, index) of an input item
pub fn input_ref(n: &Node, byron: bool) -> Option<(Vec<u8>, u64)> {
    let a = n.as_array()?;
    if byron {
        // [0, #6.24(bytes .cbor [txid, ix])]
        if a.len() != 2 || a[0].as_u64()? != 0 {
            return None;
        }
        let inner = a[1].untagged().as_bytes()?;
        let t = pvkit::cborx::read(&inner).ok()?;
        let p = t.as_array()?;
        Some((p.first()?.as_bytes()?, p.get(1)?.as_u64()?))
    } else {
        if a.len() != 2 {
            return None;
        }
        Some((a[0].as_bytes()?, a[1].as_u64()?))
    }
}

pub fn inputs_at(tx: &TxView, key: u64) -> Vec<(Vec<u8>, u64)> {
    if tx.byron {
        if key != 0 {
            return vec![];
        }
        return tx
            .body
            .as_array()
            .and_then(|a| a.first())
            .and_then(|i| i.as_array())
            .map(|v| v.iter().filter_map(|n| input_ref(n, true)).collect())
            .unwrap_or_default();
    }
    tx.body
        .map_get(key)
        .and_then(set_items)
        .map(|v| v.iter().filter_map(|n| input_ref(n, false)).collect())
        .unwrap_or_default()
}

pub fn outputs<'a>(tx: &TxView<'a>) -> Vec<&'a Node> {
    if tx.byron {
        return tx.body.as_array().and_then(|a| a.get(1)).and_then(|o| o.as_array()).map(|v| v.iter().collect()).unwrap_or_default();
    }
    tx.body.map_get(1).and_then(|o| o.as_array()).map(|v| v.iter().collect()).unwrap_or_default()
}

pub fn collateral_return<'a>(tx: &TxView<'a>) -> Option<&'a Node> {
    if tx.byron {
        return None;
    }
    tx.body.map_get(16)
}

pub fn fee(tx: &TxView) -> Option<u64> {
    if tx.byron {
        return None;
    }
    tx.body.map_get(2).and_then(|n| n.as_u64())
}

#[derive(Debug, Clone, PartialEq, Eq)]
pub enum DatumRef {
    None,
    Hash(Vec<u8>),
    /// the bytes of the datum item (content of the tag-24 byte string)
    Inline(Vec<u8>),
}

#[derive(Debug, Clone, PartialEq, Eq)]
pub enum ScriptRefView {
    Native(Vec<u8>),
    Plutus(u8, Vec<u8>),
}

#[derive(Debug, Clone)]
pub struct OutputView {
    /// address bytes (Byron: the payload inside #6.24)
    pub address: Vec<u8>,
    /// Byron only: the checksum next to the payload
    pub byron_crc: Option<u64>,
    pub coin: u64,
    /// (policy, asset name, quantity) in wire order
    pub assets: Vec<(Vec<u8>, Vec<u8>, u64)>,
    pub datum: DatumRef,
    pub script: Option<ScriptRefView>,
}

fn value_view(v: &Node) -> Option<(u64, Vec<(Vec<u8>, Vec<u8>, u64)>)> {
    if let Some(c) = v.as_u64() {
        return Some((c, vec![]));
    }
    let a = v.as_array()?;
    let coin = a.first()?.as_u64()?;
    let mut assets = vec![];
    for (p, names) in a.get(1)?.as_map()? {
        for (n, q) in names.as_map()? {
            assets.push((p.as_bytes()?, n.as_bytes()?, q.as_u64()?));
        }
    }
    Some((coin, assets))
}

pub fn output_view(o: &Node, byron: bool) -> Option<OutputView> {
    if byron {
        // [[#6.24(bytes), crc], coin]; the address bytes on chain are the whole address item
        let a = o.as_array()?;
        let addr = a.first()?.as_array()?;
        return Some(OutputView {
            address: addr.first()?.untagged().as_bytes()?,
            byron_crc: Some(addr.get(1)?.as_u64()?),
            coin: a.get(1)?.as_u64()?,
            assets: vec![],
            datum: DatumRef::None,
            script: None,
        });
    }
    match &o.k {
        Kind::Array(a, _) => {
            let (coin, assets) = value_view(a.get(1)?)?;
            let datum = match a.get(2) {
                Some(h) => DatumRef::Hash(h.as_bytes()?),
                None => DatumRef::None,
            };
            Some(OutputView { address: a.first()?.as_bytes()?, byron_crc: None, coin, assets, datum, script: None })
        }
        Kind::Map(..) => {
            let (coin, assets) = value_view(o.map_get(1)?)?;
            let datum = match o.map_get(2) {
                None => DatumRef::None,
                Some(d) => {
                    let d = d.as_array()?;
                    match d.first()?.as_u64()? {
                        0 => DatumRef::Hash(d.get(1)?.as_bytes()?),
                        1 => DatumRef::Inline(d.get(1)?.untagged().as_bytes()?),
                        _ => return None,
                    }
                }
            };
            let script = match o.map_get(3) {
                None => None,
                Some(s) => {
                    let content = s.untagged().as_bytes()?;
                    let t = pvkit::cborx::read(&content).ok()?;
                    let a = t.as_array()?;
                    match a.first()?.as_u64()? {
                        0 => Some(ScriptRefView::Native(a.get(1)?.span(&content).to_vec())),
                        v @ 1..=3 => Some(ScriptRefView::Plutus(v as u8, a.get(1)?.as_bytes()?)),
                        _ => return None,
                    }
                }
            };
            Some(OutputView { address: o.map_get(0)?.as_bytes()?, byron_crc: None, coin, assets, datum, script })
        }
        _ => None,
    }
}

pub fn native_script_hash(item_bytes: &[u8]) -> [u8; 28] {
    let mut v = vec![0u8];
    v.extend_from_slice(item_bytes);
    b224(&v)
}

pub fn plutus_script_hash(version: u8, script_bytes: &[u8]) -> [u8; 28] {
    let mut v = vec![version];
    v.extend_from_slice(script_bytes);
    b224(&v)
}

/// items under a witness-set key (set, possibly tagged)
pub fn witness_items<'a>(tx: &TxView<'a>, key: u64) -> Vec<&'a Node> {
    if tx.byron {
        return vec![];
    }
    tx.wits.and_then(|w| w.map_get(key)).and_then(set_items).map(|v| v.iter().collect()).unwrap_or_default()
}
