mod c05;
mod c30;
mod c31;
mod c32;
mod c44;
mod layout;
mod outcmp;
mod pool;

use pvkit::session::CheckDef;

fn main() {
    pvkit::main(&[
        CheckDef { id: "C32", level: "exploration", run: c32::run },
        CheckDef { id: "C05", level: "exploration", run: c05::run },
        CheckDef { id: "C30", level: "exploration", run: c30::run },
        CheckDef { id: "C31", level: "exploration", run: c31::run },
        CheckDef { id: "C44", level: "exploration", run: c44::run },
    ]);
}
