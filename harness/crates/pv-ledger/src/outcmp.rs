//! Content of a traversed output against its cborx view (shared by C31 and C44).
use crate::layout::{DatumRef, OutputView};
use pallas_primitives::{babbage, conway};
use pallas_traverse::MultiEraOutput;
use std::ops::Deref;

/// raw address bytes as pallas holds them (no address parsing involved)
pub fn address_bytes(o: &MultiEraOutput) -> Vec<u8> {
    match o {
        MultiEraOutput::AlonzoCompatible(x, _) => x.address.to_vec(),
        MultiEraOutput::Babbage(x) => match x.deref().deref() {
            babbage::TransactionOutput::Legacy(x) => x.address.to_vec(),
            babbage::TransactionOutput::PostAlonzo(x) => x.address.to_vec(),
        },
        MultiEraOutput::Conway(x) => match x.deref().deref() {
            conway::TransactionOutput::Legacy(x) => x.address.to_vec(),
            conway::TransactionOutput::PostAlonzo(x) => x.address.to_vec(),
        },
        MultiEraOutput::Byron(x) => x.address.payload.0.to_vec(),
        _ => vec![],
    }
}

pub fn assets_sorted(o: &MultiEraOutput) -> Vec<(Vec<u8>, Vec<u8>, u64)> {
    let mut v = vec![];
    for pa in o.value().assets() {
        for a in pa.assets() {
            v.push((a.policy().to_vec(), a.name().to_vec(), a.output_coin().unwrap_or(u64::MAX)));
        }
    }
    v.sort();
    v
}

/// None when the traversed output has the content of the wire output.
pub fn mismatch(o: &MultiEraOutput, ov: &OutputView) -> Option<String> {
    let addr = address_bytes(o);
    if addr != ov.address {
        return Some(format!("address {} vs wire {}", hex::encode(&addr), hex::encode(&ov.address)));
    }
    if let (MultiEraOutput::Byron(x), Some(crc)) = (o, ov.byron_crc) {
        if x.address.crc as u64 != crc {
            return Some(format!("byron crc {} vs wire {crc}", x.address.crc));
        }
    }
    if o.value().coin() != ov.coin {
        return Some(format!("coin {} vs wire {}", o.value().coin(), ov.coin));
    }
    let mut want = ov.assets.clone();
    want.sort();
    let got = assets_sorted(o);
    if got != want {
        return Some(format!("assets: {} entries vs wire {} (or different content)", got.len(), want.len()));
    }
    let datum_ok = match (o.datum(), &ov.datum) {
        (None, DatumRef::None) => true,
        (Some(conway::DatumOption::Hash(h)), DatumRef::Hash(w)) => h.as_ref() == &w[..],
        (Some(conway::DatumOption::Data(d)), DatumRef::Inline(w)) => d.0.raw_cbor() == &w[..],
        _ => false,
    };
    if !datum_ok {
        return Some(format!("datum {:?} vs wire {:?}", o.datum(), ov.datum));
    }
    None
}
