//! Corpus pool shared by C05/C30/C31/C44: artefacts by name, how to hand each one to pallas, and the
//! form mutator with descent into embedded CBOR (`#6.24(bytes .cbor x)`).
use pallas_traverse::{Era, MultiEraBlock, MultiEraHeader, MultiEraTx};
use proptest::prelude::*;
use pvkit::cborx::{self, Kind, Node, Str, W};
use pvkit::mutate::{self, MutOp};
use serde::{Deserialize, Serialize};
use std::collections::HashMap;
use std::sync::OnceLock;

#[derive(Clone, Debug)]
pub struct Entry {
    pub name: String,
    /// "block" | "tx" | "header"
    pub kind: String,
    pub bytes: Vec<u8>,
    /// era used to pick the decoder of a standalone tx / header
    pub era: Option<Era>,
}

pub struct Pool {
    pub entries: Vec<Entry>,
    index: HashMap<String, usize>,
}

impl Pool {
    pub fn get(&self, name: &str) -> Option<&Entry> {
        self.index.get(name).map(|i| &self.entries[*i])
    }
    pub fn names(&self, kinds: &[&str]) -> Vec<String> {
        self.entries.iter().filter(|e| kinds.contains(&e.kind.as_str())).map(|e| e.name.clone()).collect()
    }
}

fn era_from_name(name: &str) -> Option<Era> {
    for (p, e) in [
        ("byron", Era::Byron),
        ("shelley", Era::Shelley),
        ("allegra", Era::Allegra),
        ("mary", Era::Mary),
        ("alonzo", Era::Alonzo),
        ("babbage", Era::Babbage),
        ("conway", Era::Conway),
    ] {
        if name.starts_with(p) {
            return Some(e);
        }
    }
    None
}

static QUICK: OnceLock<Pool> = OnceLock::new();
static FULL: OnceLock<Pool> = OnceLock::new();

fn build(with_chunks: bool) -> Pool {
    let mut arts = pvkit::corpus::artefacts();
    if with_chunks {
        arts.extend(pvkit::corpus::all_chunk_blocks());
    }
    let mut entries = vec![];
    for a in arts {
        let era = match a.kind.as_str() {
            "tx" => era_from_name(&a.name).or_else(|| {
                // files without an era in the name: the newest era whose decoder takes the file
                [Era::Conway, Era::Babbage, Era::Alonzo]
                    .into_iter()
                    .find(|e| pvkit::panics::guarded(|| MultiEraTx::decode_for_era(*e, &a.bytes).is_ok()).unwrap_or(false))
            }),
            "header" => era_from_name(&a.name),
            _ => None,
        };
        entries.push(Entry { name: a.name, kind: a.kind, bytes: a.bytes, era });
    }
    let index = entries.iter().enumerate().map(|(i, e)| (e.name.clone(), i)).collect();
    Pool { entries, index }
}

/// test_data artefacts (quick) or test_data + the 1777 immutable-DB blocks (thorough).
pub fn pool(with_chunks: bool) -> &'static Pool {
    if with_chunks {
        FULL.get_or_init(|| build(true))
    } else {
        QUICK.get_or_init(|| build(false))
    }
}

/// Look an artefact up in whichever pool has it (replayed cases may name chunk blocks).
pub fn lookup(name: &str) -> Option<&'static Entry> {
    if let Some(e) = pool(false).get(name) {
        return Some(e);
    }
    if name.contains(".chunk#") {
        return pool(true).get(name);
    }
    None
}

pub enum Decoded<'b> {
    Block(MultiEraBlock<'b>),
    Tx(MultiEraTx<'b>),
    Header(MultiEraHeader<'b>, u64),
}

/// Era tag (as in the block wrapper) for a standalone header file.
pub fn header_wrapper_tag(e: &Entry) -> u64 {
    match e.era {
        Some(Era::Byron) => 1,
        Some(Era::Shelley) => 2,
        Some(Era::Allegra) => 3,
        Some(Era::Mary) => 4,
        Some(Era::Alonzo) => 5,
        Some(Era::Babbage) => 6,
        _ => 7,
    }
}

pub fn decode<'b>(e: &Entry, bytes: &'b [u8]) -> Result<Decoded<'b>, String> {
    match e.kind.as_str() {
        "block" => MultiEraBlock::decode(bytes).map(Decoded::Block).map_err(|x| short(&x.to_string())),
        "tx" => {
            let era = e.era.ok_or("no era for tx")?;
            MultiEraTx::decode_for_era(era, bytes).map(Decoded::Tx).map_err(|x| short(&x.to_string()))
        }
        "header" => {
            // node-to-node header variants: 0 = Byron (subtag 0 = EBB, 1 = main), 1..4 = Shelley..Alonzo, 5.. = Babbage/Conway
            let wt = header_wrapper_tag(e);
            let (tag, sub) = if wt == 1 { (0u8, Some(1u8)) } else { ((wt - 1) as u8, None) };
            MultiEraHeader::decode(tag, sub, bytes).map(|h| Decoded::Header(h, wt)).map_err(|x| short(&x.to_string()))
        }
        k => Err(format!("unknown kind {k}")),
    }
}

fn short(s: &str) -> String {
    s.chars().take(120).collect()
}

// ---------------------------------------------------------------------------------------------
// form mutation with descent into embedded CBOR

#[derive(Clone, Debug, Serialize, Deserialize, PartialEq, Eq, Hash)]
pub struct FormOp {
    /// Some(sel): apply inside the sel-th `#6.24(bytes)` item whose content is itself CBOR
    pub embedded: Option<u16>,
    pub op: MutOp,
}

/// families weighted toward the ones the decoders accept
pub const WEIGHTED: [&str; 12] = [
    "widen-head", "widen-head", "widen-head", "widen-len", "widen-len", "widen-len", "def-indef", "def-indef",
    "reorder-map", "reorder-map", "chunk-string", "set-tag",
];

pub fn form_op() -> impl Strategy<Value = FormOp> {
    (prop_oneof![4 => Just(None), 1 => any::<u16>().prop_map(Some)], mutate::mutop())
        .prop_map(|(embedded, op)| FormOp { embedded, op })
}

pub fn form_ops(max: usize) -> impl Strategy<Value = Vec<FormOp>> {
    // biased toward few operations: one rejected operation rejects the whole artefact
    prop_oneof![
        3 => proptest::collection::vec(form_op(), 1..=1),
        3 => proptest::collection::vec(form_op(), 2..=3),
        2 => proptest::collection::vec(form_op(), 1..=max),
    ]
}

fn embedded_nodes<'a>(n: &'a mut Node, out: &mut Vec<&'a mut Node>) {
    let is_emb = match &n.k {
        Kind::Tag(24, _, inner) => match &inner.k {
            Kind::Bytes(s) => cborx::read(&s.data()).is_ok(),
            _ => false,
        },
        _ => false,
    };
    if is_emb {
        out.push(n);
        return;
    }
    match &mut n.k {
        Kind::Array(v, _) => v.iter_mut().for_each(|c| embedded_nodes(c, out)),
        Kind::Map(v, _) => v.iter_mut().for_each(|(a, b)| {
            embedded_nodes(a, out);
            embedded_nodes(b, out)
        }),
        Kind::Tag(_, _, i) => embedded_nodes(i, out),
        _ => {}
    }
}

/// Apply the operations; returns the families that changed something (in order).
pub fn apply_ops(root: &mut Node, ops: &[FormOp], families: &[&'static str]) -> Vec<&'static str> {
    let mut applied = vec![];
    for o in ops {
        match o.embedded {
            None => {
                if let Some(f) = mutate::apply_form(root, &o.op, families) {
                    applied.push(f);
                }
            }
            Some(sel) => {
                let mut nodes = vec![];
                embedded_nodes(root, &mut nodes);
                if nodes.is_empty() {
                    if let Some(f) = mutate::apply_form(root, &o.op, families) {
                        applied.push(f);
                    }
                    continue;
                }
                let i = pvkit::pick_idx(sel, nodes.len());
                let target = nodes.swap_remove(i);
                if let Kind::Tag(_, _, inner) = &mut target.k {
                    if let Kind::Bytes(s) = &mut inner.k {
                        if let Ok(mut t) = cborx::read(&s.data()) {
                            if let Some(f) = mutate::apply_form(&mut t, &o.op, families) {
                                let nb = cborx::write(&t);
                                *s = Str::Def(W::min_for(nb.len() as u64), nb);
                                applied.push(match f {
                                    "widen-head" => "embedded:widen-head",
                                    "widen-len" => "embedded:widen-len",
                                    "def-indef" => "embedded:def-indef",
                                    "reorder-map" => "embedded:reorder-map",
                                    "chunk-string" => "embedded:chunk-string",
                                    _ => "embedded:set-tag",
                                });
                            }
                        }
                    }
                }
            }
        }
    }
    applied
}

/// Mutated bytes of an artefact + the families applied.
pub fn mutate_bytes(orig: &[u8], ops: &[FormOp], families: &[&'static str]) -> Option<(Vec<u8>, Vec<&'static str>)> {
    let mut t = cborx::read(orig).ok()?;
    let applied = apply_ops(&mut t, ops, families);
    Some((cborx::write(&t), applied))
}
