import sys
p='/tmp/wt-pv-math/pallas-math/src/math_dashu.rs'
M={
 'M1':("TEN.pow(34 - 24)","TEN.pow(34 - 22)"),
 'M2':("    if *rop < *ZERO && temp != *ZERO {\n        a -= IBig::ONE;\n    }\n","    let _ = &temp;\n"),
 'M3':("        q + IBig::ONE\n    } else {\n        q\n    }","        q.clone()\n    } else {\n        q\n    }"),
 'M4':("if n > 1 && n % 2 == 1 {","if n > 1 && n % 2 == 0 {"),
 'M5':("let (_, rem) = (exponent / &*PRECISION).div_rem(&IBig::from(2));","let (_, rem) = (exponent / &*PRECISION + IBig::ONE).div_rem(&IBig::from(2));"),
 'M6':("    temp += &temp_q;\n    *rop = temp;","    temp += &temp_q;\n    if temp_r != IBig::ZERO && ((x.sign() == Sign::Negative) != (y.sign() == Sign::Negative)) { temp -= IBig::ONE; }\n    *rop = temp;"),
 'M7':("error_term = &error * IBig::from(bound_x);","error_term = &error * IBig::from(bound_x.min(1));"),
 'M8':("        if compare > &upper {\n            estimate = ExpOrdering::GT;","        if compare > &upper {\n            estimate = ExpOrdering::LT;"),
 'M9':("            estimate = ExpOrdering::GT;\n            n += 1;\n            break;","            estimate = ExpOrdering::GT;\n            break;"),
 'M10':("        if self.data.sign() == Sign::Negative && remainder != *ZERO {\n            result.data -= &self.precision_multiplier;\n        }\n        result.data -= remainder;\n        result\n    }\n\n    fn ceil","        result.data -= remainder;\n        result\n    }\n\n    fn ceil"),
 'M11':("        let is_negative = self.data < *ZERO;\n        let (mut temp_q, mut temp_r) = (&self.data).div_rem(&self.precision_multiplier);","        let (mut temp_q, mut temp_r) = (&self.data).div_rem(&self.precision_multiplier);\n        let is_negative = temp_q < *ZERO;"),
 'M12':("    while &x_ > x || &x__ < x {","    while &x_ >= x || &x__ <= x {"),
 'M13':("        if x < &x_ {\n            u = mid;","        if x <= &x_ {\n            u = mid;"),
 'M14':("        if (&next_x).abs() < epsilon.abs() {\n            break;\n        }\n\n        divisor","        if (&next_x).abs() <= epsilon.abs() {\n            break;\n        }\n\n        divisor"),
 'M15':("    if exponent == &*ONE {\n        // any base to the power of one is the base\n        *rop = base.clone();\n        return;\n    }\n",""),
 'M16':("impl SubAssign for Decimal {\n    fn sub_assign(&mut self, rhs: Self) {\n        self.data -= &rhs.data;","impl SubAssign for Decimal {\n    fn sub_assign(&mut self, rhs: Self) {\n        self.data += &rhs.data;"),
 'M17':("            if self.data.sign() == Sign::Negative {\n                result.data -= &self.precision_multiplier + remainder;","            if self.data.sign() == Sign::Negative {\n                result.data -= remainder;"),
}
s=open(p).read()
old,new=M[sys.argv[1]]
assert s.count(old)==1, (sys.argv[1], s.count(old))
open(p,'w').write(s.replace(old,new))
