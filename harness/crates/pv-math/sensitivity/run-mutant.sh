#!/bin/bash
# usage: pvmath-mut.sh <label> <check ids...>   (mutation already applied to /tmp/wt-pv-math)
label=$1; shift
cd /verif/harness
CARGO_NET_OFFLINE=true CARGO_TARGET_DIR=/tmp/wt-pv-math/th cargo build --release --offline -p pv-math --config 'paths=["/tmp/wt-pv-math/pallas-math"]' 2>&1 | grep -E "^error|Compiling pallas-math" -A6 | head -20
for id in "$@"; do
  rm -rf /tmp/wt-pv-math/out
  out=$(PALLAS_REPO=/tmp/wt-pv-math PV_OUT_DIR=/tmp/wt-pv-math/out PV_KNOWN_EXTRA=${KNOWN:-/verif/harness/crates/pv-math/known_local.json} /tmp/wt-pv-math/th/release/pv-math $id --tier quick --seed ${SEED:-1} 2>&1); code=$?
  echo "== [$label] $id exit=$code"
  echo "$out" | grep -E "VIOLATION|^\[C1[567]:" | cut -c1-400 | head -6
  echo "$out" | grep -E "^\[C1[567]\] " | tail -2
  python3 - <<PY
import json
try:
    e=json.load(open("/tmp/wt-pv-math/out/evidence/$id.json"))
    print("   subs:", {k:v["evaluations"] for k,v in e["coverage"]["sub_checks"].items()}, "violations:", [(v["sub"],v["signature"]) for v in e["coverage"]["violation_details"]])
except Exception as ex: print("   no evidence", ex)
PY
done
