//! C15 — exp / ln / pow equal the Cardano non-integral reference digit for digit and lie within
//! the reference's error bound of the true value (DESIGN §C15).
use num_bigint::BigInt;
use num_traits::{Signed, ToPrimitive, Zero};
use pallas_math::math::{FixedDecimal, FixedPrecision};
use proptest::prelude::*;
use pvkit::{pv_ensure, Fail, Obs, Session};
use serde::{Deserialize, Serialize};

use crate::fx::{clamp_abs, dec34, fmt_fixed, fx_int, fx_mag, pow10, undec, Fx, MaxF64, P34};
use crate::refalgo;
use crate::truth::{self, BF};

static NO_PORT: std::sync::LazyLock<bool> = std::sync::LazyLock::new(|| std::env::var("PV_MATH_NO_PORT").is_ok());
static MAX_EXP: MaxF64 = MaxF64::new();
static MAX_LN: MaxF64 = MaxF64::new();
static MAX_POW: MaxF64 = MaxF64::new();

/// 10^-30 in ulps: lower end of the magnitudes the property quantifies over.
fn min_mag() -> BigInt {
    pow10(4)
}
fn max_mag() -> BigInt {
    pow10(40) // 10^6
}

// ---------------------------------------------------------------------------------------------
// tolerance model (stated in REPORT.md and written into the evidence)
//
//   exp:  |impl − e^x| ≤ e^x · 1.25e-24 · ⌈|x|⌉ + 4e-34
//         (Taylor cut-off 1e-24 on a value in [1,e] → relative ≤ 1.045e-24, amplified by the
//          ⌈|x|⌉-th power; the floor/trunc roundings are ≤ 1e-32 relative in total)
//   ln:   |impl − ln x| ≤ 1.05e-24 + 1.25e-24·(|ln x|+1) + [x<1]·3.5e-34/x + 4e-34
//         (continued fraction stops when successive convergents differ < 1e-24 and they bracket
//          the limit; the scaling factor exp'(n) carries the exp error and, for n<0, one ulp of
//          truncation on a number as small as e^n ≥ x/e)
//   pow:  with dz = |y|·tol_ln(b) + 1e-34 (error of the argument y ⊗ ln' b):
//         |impl − b^y| ≤ b^y · (1.01·dz + 1.25e-24·(|y ln b|+2)) + 4e-34     (only when dz ≤ 1e-3)
// ---------------------------------------------------------------------------------------------
fn tol_exp(t_abs: &BF, x_abs: &BF) -> BF {
    let n = x_abs.floor_int().to_i64().unwrap_or(i64::MAX - 1) + 1;
    t_abs.mul(&BF::lit(125, -26)).mul_i(n).add(&BF::lit(4, -34))
}

fn tol_ln(x: &BF, lnx: &BF) -> BF {
    let mut t = BF::lit(105, -26).add(&BF::lit(125, -26).mul(&lnx.abs().add(&BF::one())));
    if x.lt(&BF::one()) {
        t = t.add(&BF::lit(35, -35).div(x));
    }
    t.add(&BF::lit(4, -34))
}

fn ratio(err: &BF, tol: &BF) -> f64 {
    err.div(tol).to_f64()
}

fn impl_value(d: &FixedDecimal, what: &str) -> Result<BigInt, Fail> {
    match undec(d) {
        Some(v) => Ok(v),
        None => Err(Fail {
            sig: format!("{what}-print-malformed"),
            msg: format!("printed form {:?} is not -?digits.34digits", d.to_string()),
        }),
    }
}

fn digits_check(what: &str, got: &FixedDecimal, want: &BigInt, input: &str) -> Result<(), Fail> {
    // development aid for the sensitivity runs only: PV_MATH_NO_PORT=1 disables oracle 1 so that
    // the detection power of oracle 2 (truth within tolerance) can be measured on its own
    if *NO_PORT {
        return Ok(());
    }
    let want_d = dec34(want);
    pv_ensure!(
        *got == want_d,
        format!("{what}-digits-mismatch"),
        "{what}({input}): pallas = {got}, reference algorithm = {}",
        fmt_fixed(want, 34)
    );
    let printed = got.to_string();
    let want_s = fmt_fixed(want, 34);
    pv_ensure!(
        printed == want_s,
        format!("{what}-print-mismatch"),
        "{what}({input}): pallas prints {printed}, reference digits {want_s}"
    );
    Ok(())
}

pub fn check_exp(x: &BigInt, obs: &mut Obs) -> Result<(), Fail> {
    let xs = fmt_fixed(x, 34);
    let got = dec34(x).exp();
    let (want, iters) = refalgo::exp(x);
    obs.class(if x.is_zero() {
        "exp:zero"
    } else if x.is_negative() {
        "exp:neg"
    } else {
        "exp:pos"
    });
    if (x % &*P34).is_zero() {
        obs.class("exp:integral-arg");
    }
    if x.abs() < pow10(10) {
        obs.class("exp:|x|<1e-24");
    }
    if x.abs() > pow10(37) {
        obs.class("exp:|x|>1e3");
    }
    digits_check("exp", &got, &want, &xs)?;
    // truth
    let xb = BF::from_scaled(x);
    let t = truth::exp(&xb);
    let gv = BF::from_scaled(&impl_value(&got, "exp")?);
    let err = gv.sub(&t).abs();
    let tol = tol_exp(&t, &xb.abs());
    MAX_EXP.update(ratio(&err, &tol));
    pv_ensure!(
        err.le(&tol),
        "exp-outside-error-bound",
        "exp({xs}) = {got}: |impl − true| = {:e} exceeds the bound {:e} (true ≈ {:e})",
        err.to_f64(),
        tol.to_f64(),
        t.to_f64()
    );
    obs.nontrivial_if(iters > 0);
    Ok(())
}

pub fn check_ln(x: &BigInt, obs: &mut Obs) -> Result<(), Fail> {
    let xs = fmt_fixed(x, 34);
    if !x.is_positive() {
        obs.discard();
        return Ok(());
    }
    let got = dec34(x).ln();
    let want = refalgo::ln(x).unwrap();
    let n = refalgo::find_e(x);
    obs.class(if n < 0 { "ln:x<1" } else if n == 0 { "ln:1<=x<e" } else { "ln:x>=e" });
    if n.abs() >= 8 {
        obs.class("ln:|n|>=8");
    }
    digits_check("ln", &got, &want, &xs)?;
    let xb = BF::from_scaled(x);
    let t = truth::ln(&xb);
    let gv = BF::from_scaled(&impl_value(&got, "ln")?);
    let err = gv.sub(&t).abs();
    let tol = tol_ln(&xb, &t);
    MAX_LN.update(ratio(&err, &tol));
    pv_ensure!(
        err.le(&tol),
        "ln-outside-error-bound",
        "ln({xs}) = {got}: |impl − true| = {:e} exceeds the bound {:e}",
        err.to_f64(),
        tol.to_f64()
    );
    // the true bracket: e^n <= x < e^(n+1) up to the reference's own rounding of e^n
    let tn = t.floor_int().to_i64().unwrap_or(0);
    if tn != n {
        obs.class("ln:bracket-differs-from-true-floor");
    }
    obs.nontrivial_if(*x != *P34);
    Ok(())
}

/// `limit` = tier bound on |y ln b|.
pub fn check_pow(b: &BigInt, y: &BigInt, limit: f64, obs: &mut Obs) -> Result<(), Fail> {
    let one = &*P34;
    let bs = fmt_fixed(b, 34);
    let ys = fmt_fixed(y, 34);
    let input = format!("{bs} ^ {ys}");
    if b.is_zero() && y.is_negative() {
        obs.discard(); // documented panic
        return Ok(());
    }
    let y_integral = (y % one).is_zero();
    if b.is_negative() && !y_integral {
        obs.discard(); // not a real number; the reference does not define it
        return Ok(());
    }
    let babs = b.abs();
    // bound |y ln b| for the tier
    let zf = if b.is_zero() { 0.0 } else { BF::from_scaled(y).to_f64() * BF::from_scaled(&babs).to_f64().ln() };
    if zf.abs() > limit {
        obs.discard();
        return Ok(());
    }
    let odd = y_integral && !((y / one) % BigInt::from(2)).is_zero();
    let sign_neg = b.is_negative() && odd;
    // expected digits
    let (want, shortcut): (BigInt, Option<&str>) = if y.is_zero() {
        (one.clone(), Some("y=0"))
    } else if b == one {
        (one.clone(), Some("b=1"))
    } else if y == one {
        // pallas documents x^1 = x (its own unit test); the reference would go through
        // exp'(ln' x). The closed form is the exact value, asserted as such.
        (b.clone(), Some("y=1"))
    } else if b.is_zero() {
        (BigInt::zero(), Some("b=0"))
    } else {
        let r = refalgo::pow_core(&babs, y);
        (if sign_neg { -r } else { r }, None)
    };
    let got = dec34(b).pow(&dec34(y));
    obs.class(match shortcut {
        Some(s) => format!("pow:shortcut:{s}"),
        None => format!(
            "pow:{}^{}{}",
            if b.is_negative() { "neg" } else if babs < *one { "(0,1)" } else { ">1" },
            if y.is_negative() { "neg" } else { "pos" },
            if y_integral { "-int" } else { "" }
        ),
    });
    digits_check("pow", &got, &want, &input)?;
    if shortcut.is_some() {
        return Ok(());
    }
    // truth
    let bb = BF::from_scaled(&babs);
    let yb = BF::from_scaled(y);
    let lnb = truth::ln(&bb);
    let z = yb.mul(&lnb);
    let dz = yb.abs().mul(&tol_ln(&bb, &lnb)).add(&BF::lit(1, -34));
    if dz.le(&BF::lit(1, -3)) {
        let mut t = truth::exp(&z);
        if sign_neg {
            t = t.neg();
        }
        let rel = dz.mul(&BF::lit(101, -2)).add(&BF::lit(125, -26).mul(&z.abs().add(&BF::from_int(2))));
        let tol = t.abs().mul(&rel).add(&BF::lit(4, -34));
        let gv = BF::from_scaled(&impl_value(&got, "pow")?);
        let err = gv.sub(&t).abs();
        MAX_POW.update(ratio(&err, &tol));
        pv_ensure!(
            err.le(&tol),
            "pow-outside-error-bound",
            "{input} = {got}: |impl − true| = {:e} exceeds the bound {:e} (true ≈ {:e})",
            err.to_f64(),
            tol.to_f64(),
            t.to_f64()
        );
        obs.class("pow:truth-compared");
    } else {
        obs.class("pow:truth-skipped(argument error > 1e-3)");
    }
    obs.nontrivial();
    Ok(())
}

// ---------------------------------------------------------------------------------------------
// cases
// ---------------------------------------------------------------------------------------------

#[derive(Debug, Clone, Serialize, Deserialize)]
pub enum LnCase {
    Val(Fx),
    /// the reference's own e^k (ipow exp1 k) plus a few ulps: the find_e decision boundary
    EPow { k: i8, adj: i8 },
    /// round(true e^k·10^34) plus a few ulps
    TrueEPow { k: i8, adj: i8 },
}

impl LnCase {
    fn value(&self) -> BigInt {
        match self {
            LnCase::Val(f) => {
                let v = f.scaled().abs();
                clamp_abs(v, &max_mag()).max(min_mag())
            }
            LnCase::EPow { k, adj } => (refalgo::ipow(&refalgo::E, *k as i64) + BigInt::from(*adj)).max(min_mag()),
            LnCase::TrueEPow { k, adj } => {
                (truth::exp(&BF::from_int(*k as i64)).to_scaled_round() + BigInt::from(*adj)).max(min_mag())
            }
        }
    }
}

#[derive(Debug, Clone, Serialize, Deserialize)]
pub struct PowCase {
    pub b: Fx,
    pub y: Fx,
}

#[derive(Debug, Clone, Serialize, Deserialize)]
pub struct LeaderCase {
    /// active-slot coefficient f = num/den
    pub f_sel: u8,
    /// relative stake σ in [0,1]: (hi·10^17 + lo) ulps
    pub hi: u64,
    pub lo: u64,
}

const F_TABLE: [(u64, u64); 8] = [(1, 20), (1, 10), (1, 5), (1, 4), (1, 2), (1, 100), (3, 4), (9, 10)];

fn exp_domain(f: &Fx, limit: &BigInt) -> BigInt {
    let v = clamp_abs(f.scaled(), limit);
    // magnitudes below 1e-30 are outside the quantifier except 0 and a few ulps around integers
    v
}

#[derive(Debug, Clone, Serialize, Deserialize)]
pub enum Boundary {
    Exp(String),
    Ln(String),
    Pow(String, String),
}

fn boundary_cases() -> Vec<Boundary> {
    let one = P34.clone();
    let mut v = vec![];
    let mut exps: Vec<BigInt> = vec![BigInt::zero()];
    for i in [1i64, 2, 3, 4, 5, 7, 8, 10, 16, 17, 31, 32, 33, 64, 100, 127, 128, 255, 256, 1000] {
        for adj in [-1i64, 0, 1] {
            exps.push(&one * i + adj);
            exps.push(-(&one * i + adj));
        }
    }
    for k in [0u32, 1, 4, 9, 10, 11, 17, 33] {
        exps.push(pow10(k));
        exps.push(-pow10(k));
        exps.push(pow10(k) - 1);
    }
    exps.push(&one / 2);
    exps.push(&one / 3);
    for x in exps {
        v.push(Boundary::Exp(x.to_string()));
    }
    let mut lns: Vec<BigInt> = vec![one.clone(), &one + 1, &one - 1, &one * 2, &one * 10, &one / 10, min_mag(), max_mag()];
    for k in -69i64..=14 {
        for adj in [-1i64, 0, 1] {
            let a = refalgo::ipow(&refalgo::E, k) + adj;
            if a >= min_mag() {
                lns.push(a);
            }
            let b = truth::exp(&BF::from_int(k)).to_scaled_round() + adj;
            if b >= min_mag() {
                lns.push(b);
            }
        }
    }
    for x in lns {
        v.push(Boundary::Ln(x.to_string()));
    }
    let bases: Vec<BigInt> =
        vec![BigInt::zero(), one.clone(), -one.clone(), &one * 2, -(&one * 2i64), &one / 2, &one * 9 / 10, &one + 1, &one - 1, refalgo::E.clone(), &one * 10, -(&one * 3i64) / 2];
    let exps2: Vec<BigInt> =
        vec![BigInt::zero(), one.clone(), -one.clone(), &one * 2, -(&one * 2i64), &one * 3, &one / 2, -(&one / 2i64), &one + 1, &one - 1, BigInt::from(1), &one * 25, -(&one * 25i64)];
    for b in &bases {
        for y in &exps2 {
            v.push(Boundary::Pow(b.to_string(), y.to_string()));
        }
    }
    v
}

pub fn run(s: &Session) {
    s.set_rule(
        "exp: x = ±m·10^e log-spread over 1e-30..1e4 (sub-check exp) and 1e4..1e6 (exp-large), 0, integers and \
         integers ± ulps; ln: (0,1e6] log-spread, the reference's own e^k ± ulps and the true e^k ± ulps for \
         k in -69..14; pow: bases in (0,1), >1 and negative (integral exponents only), exponents ± incl. integral, \
         |y ln b| bounded by the tier; leader: (1-f)^sigma, sigma in [0,1], f from a table. Every case is compared \
         (a) with the num-bigint port of the reference through PartialEq and through the printed string and \
         (b) with a 400-bit truth within the stated tolerance. Non-trivial = the series / continued fraction \
         actually ran (exp: >=1 Taylor term; ln: x != 1; pow: no closed-form shortcut); distinct = distinct \
         serialised case",
    );
    s.assume("num-bigint integer arithmetic is correct");
    s.assume("the reference algorithm is the one described in refalgo.rs (ported from the NonIntegral.hs / non_integral.cpp description; the golden vectors are not available in this sandbox)");
    s.assume("pow shortcuts documented by pallas' own tests (x^0 = 1, 1^y = 1, x^1 = x, 0^y = 0 for y>0) and the negative-base parity rule for integral exponents are part of the specified behaviour; negative base with non-integral exponent, 0^negative, ln(x<=0) and magnitudes below 1e-30 are outside the domain");
    s.note(
        "tolerance",
        serde_json::json!({
            "exp": "|impl-e^x| <= e^x*1.25e-24*ceil(|x|) + 4e-34",
            "ln": "|impl-ln x| <= 1.05e-24 + 1.25e-24*(|ln x|+1) + [x<1]*3.5e-34/x + 4e-34",
            "pow": "dz=|y|*tol_ln(b)+1e-34 <= 1e-3: |impl-b^y| <= b^y*(1.01*dz + 1.25e-24*(|y ln b|+2)) + 4e-34",
        }),
    );
    s.health(!*NO_PORT, "PV_MATH_NO_PORT is set: the digit-for-digit oracle is disabled (sensitivity ablation only)");
    if !s.replaying() {
        let bad = truth::selftest();
        s.health(bad.is_empty(), &format!("truth oracle self-test failed: {bad:?}"));
    }

    let quick = s.quick();
    let exp_limit = pow10(38); // 1e4
    let pow_limit = s.pick(1.0e4, 1.0e5);

    s.foreach("boundary", boundary_cases(), false, move |c: &Boundary, obs| match c {
        Boundary::Exp(x) => check_exp(&x.parse().unwrap(), obs),
        Boundary::Ln(x) => check_ln(&x.parse().unwrap(), obs),
        Boundary::Pow(b, y) => check_pow(&b.parse().unwrap(), &y.parse().unwrap(), 1.0e6, obs),
    });

    s.forall(
        "exp",
        s.pick(24_000, 600_000),
        || prop_oneof![6 => fx_mag(-32, 2, true), 1 => fx_int(10_000, true), 1 => fx_mag(-36, -33, true)],
        move |f: &Fx, obs| {
            let x = exp_domain(f, &exp_limit);
            check_exp(&x, obs)
        },
    );

    s.forall(
        "exp-large",
        s.pick(64, 3_000),
        move || {
            // 1e4 .. 1e6 (quick: mostly below 1e5)
            let hi: i8 = if quick { 3 } else { 4 };
            prop_oneof![3 => fx_mag(2, hi, true), 1 => fx_mag(3, 4, true), 1 => (10_000u64..=1_000_000, any::<bool>(), -1i8..=1).prop_map(|(n, neg, adj)| Fx { neg, a: 0, b: n, e: 34, adj })]
        },
        |f: &Fx, obs| {
            let x = clamp_abs(f.scaled(), &max_mag());
            check_exp(&x, obs)
        },
    );

    s.forall(
        "ln",
        s.pick(16_000, 400_000),
        || {
            prop_oneof![
                5 => fx_mag(-32, 4, false).prop_map(LnCase::Val),
                2 => fx_mag(-3, -1, false).prop_map(LnCase::Val),   // 0.01 .. 18: around 1 and e
                1 => fx_int(1_000_000, false).prop_map(LnCase::Val),
                2 => (-69i8..=14, -2i8..=2).prop_map(|(k, adj)| LnCase::EPow { k, adj }),
                1 => (-69i8..=14, -2i8..=2).prop_map(|(k, adj)| LnCase::TrueEPow { k, adj }),
            ]
        },
        |c: &LnCase, obs| {
            match c {
                LnCase::Val(_) => obs.class("ln:gen:value"),
                LnCase::EPow { .. } => obs.class("ln:gen:ref-e^k"),
                LnCase::TrueEPow { .. } => obs.class("ln:gen:true-e^k"),
            }
            check_ln(&c.value(), obs)
        },
    );

    s.forall(
        "pow",
        s.pick(12_000, 300_000),
        || {
            let base = prop_oneof![
                3 => fx_mag(-32, 4, false),                 // (1e-30, 1e6)
                3 => fx_mag(-3, 0, false),                  // around 0.1 .. 100
                2 => fx_mag(-2, -2, false),                 // (0, 1.8): mostly (0,1)
                2 => fx_int(1000, true),                    // integers incl. negative, 0, 1
                1 => fx_mag(-3, 1, true),
            ];
            let expo = prop_oneof![
                3 => fx_mag(-30, 1, true),
                3 => fx_mag(-4, -1, true),
                3 => fx_int(300, true),
                1 => fx_int(3, true),
            ];
            (base, expo).prop_map(|(b, y)| PowCase { b, y })
        },
        move |c: &PowCase, obs| {
            let mut b = clamp_abs(c.b.scaled(), &max_mag());
            if !b.is_zero() && b.abs() < min_mag() {
                b = if b.is_negative() { -min_mag() } else { min_mag() };
            }
            let y = clamp_abs(c.y.scaled(), &pow10(37));
            check_pow(&b, &y, pow_limit, obs)
        },
    );

    s.forall(
        "leader",
        s.pick(8_000, 200_000),
        || {
            (any::<u8>(), prop_oneof![4 => 0u64..100_000_000_000_000_000, 1 => Just(0u64), 1 => 0u64..1000], any::<u64>())
                .prop_map(|(f_sel, hi, lo)| LeaderCase { f_sel, hi, lo })
        },
        |c: &LeaderCase, obs| {
            let (num, den) = F_TABLE[pvkit::pick_idx((c.f_sel as u16) << 8, F_TABLE.len())];
            // as the golden test builds it: f = num/den (fixed-point quotient), c = 1 − f
            let f = refalgo::div(&(&*P34 * num), &(&*P34 * den));
            let base = &*P34 - &f;
            let sigma = (BigInt::from(c.hi) * pow10(17) + BigInt::from(c.lo % 100_000_000_000_000_000)).min(P34.clone());
            obs.class(format!("leader:f={num}/{den}"));
            // the same through pallas' operators
            let one_d = FixedDecimal::from(1u64);
            let f_d = &FixedDecimal::from(num) / &FixedDecimal::from(den);
            let c_d = &one_d - &f_d;
            pv_ensure!(c_d == dec34(&base), "leader-base-mismatch", "1 − {num}/{den}: pallas {c_d} vs {}", fmt_fixed(&base, 34));
            check_pow(&base, &sigma, 1.0e6, obs)
        },
    );

    if !s.replaying() {
        for c in [
            "exp:pos", "exp:neg", "exp:zero", "exp:integral-arg", "exp:|x|<1e-24", "exp:|x|>1e3", "ln:x<1",
            "ln:1<=x<e", "ln:x>=e", "ln:|n|>=8", "ln:gen:ref-e^k", "pow:(0,1)^pos", "pow:(0,1)^neg", "pow:>1^pos",
            "pow:>1^neg", "pow:neg^pos-int", "pow:neg^neg-int", "pow:shortcut:y=0", "pow:shortcut:y=1",
            "pow:shortcut:b=1", "pow:shortcut:b=0", "pow:truth-compared",
        ] {
            s.health(s.class_count(c) > 0, &format!("generator never produced class {c}"));
        }
        s.note(
            "max_observed_error_over_tolerance",
            serde_json::json!({"exp": MAX_EXP.get(), "ln": MAX_LN.get(), "pow": MAX_POW.get()}),
        );
    }
}
