//! C16 — bounded exp comparison never reaches a wrong conclusion (DESIGN §C16).
use num_bigint::BigInt;
use num_traits::{Signed, ToPrimitive, Zero};
use pallas_math::math::{ExpOrdering, FixedDecimal, FixedPrecision};
use proptest::prelude::*;
use pvkit::{pv_ensure, Fail, Obs, Session};
use serde::{Deserialize, Serialize};
use std::cmp::Ordering;

use crate::fx::{dec34, fmt_fixed, fx_mag, pow10, Fx, P34};
use crate::refalgo::{self, Est};
use crate::truth::{self, BF};

static NO_PORT: std::sync::LazyLock<bool> = std::sync::LazyLock::new(|| std::env::var("PV_MATH_NO_PORT").is_ok());

const BOUNDS: [i64; 10] = [3, 3, 3, 4, 5, 10, 100, 1000, 1_000_000, 1_000_000_000_000];

#[derive(Debug, Clone, Serialize, Deserialize)]
pub enum Cmp {
    /// compare = round(e^x · (1 ± mant·10^-k))
    Rel { neg: bool, mant: u8, k: u8 },
    /// compare = round(e^x) + n ulps (exact ties and nearest neighbours)
    Ulps(i16),
    /// compare = the reference's full Taylor approximation (max_n = 1000) + n ulps
    Approx(i8),
}

#[derive(Debug, Clone, Serialize, Deserialize)]
pub struct CmpCase {
    pub x: Fx,
    pub cmp: Cmp,
    pub bound_sel: u16,
    pub max_n: u16,
}

fn est_of(e: &ExpOrdering) -> Est {
    match e {
        ExpOrdering::GT => Est::GT,
        ExpOrdering::LT => Est::LT,
        ExpOrdering::UNKNOWN => Est::Unknown,
    }
}

/// The core oracle on concrete (x, compare, bound, max_n); `tag` prefixes the classes.
fn check_cmp(
    x: &BigInt,
    compare: &BigInt,
    bound: i64,
    max_n: u64,
    near: bool,
    obs: &mut Obs,
) -> Result<(), Fail> {
    let xs = fmt_fixed(x, 34);
    let cs = fmt_fixed(compare, 34);
    let res = dec34(x).exp_cmp(max_n, bound, &dec34(compare));
    let (approx, est, iters) = refalgo::exp_cmp(max_n, x, bound, compare);
    let got_est = est_of(&res.estimation);
    obs.class(format!("result:{:?}", got_est));

    // (a) the reference algorithm: estimate, iteration count, approximation
    // (PV_MATH_NO_PORT=1: sensitivity ablation only, measures oracle (b) on its own)
    let no_port = *NO_PORT;
    pv_ensure!(
        no_port || got_est == est,
        "expcmp-estimate-differs-from-reference",
        "exp_cmp(x={xs}, max_n={max_n}, bound={bound}, compare={cs}): pallas {:?}, reference {:?}",
        got_est,
        est
    );
    pv_ensure!(
        no_port || res.iterations == iters,
        "expcmp-iterations-differ-from-reference",
        "exp_cmp(x={xs}, max_n={max_n}, bound={bound}, compare={cs}): pallas {} iterations, reference {}",
        res.iterations,
        iters
    );
    pv_ensure!(
        no_port || (res.approx == dec34(&approx) && res.approx.to_string() == fmt_fixed(&approx, 34)),
        "expcmp-approx-differs-from-reference",
        "exp_cmp(x={xs}, max_n={max_n}, bound={bound}, compare={cs}): pallas approx {}, reference {}",
        res.approx,
        fmt_fixed(&approx, 34)
    );

    // (b) truth: GT only if compare > e^x, LT only if compare < e^x
    let t = truth::exp(&BF::from_scaled(x));
    let c = BF::from_scaled(compare);
    let ord = c.cmp(&t); // compare vs e^x
    let gap_ulps = c.sub(&t).abs().mul(&BF::from_big(P34.clone()));
    let slack = BF::from_int(res.iterations as i64 + 2);
    match got_est {
        Est::GT => {
            if ord != Ordering::Greater {
                obs.class(format!("wrong-GT:gap-ulps<={}", gap_ulps.to_f64().ceil()));
                if gap_ulps.le(&slack) {
                    pvkit::pv_fail!(
                        "expcmp-GT-but-compare-below-exp:within-fixed-point-rounding",
                        "exp_cmp(x={xs}, max_n={max_n}, bound={bound}, compare={cs}) says GT after {} iterations, but compare is {:.3} ulps BELOW the true e^x",
                        res.iterations,
                        gap_ulps.to_f64()
                    );
                }
                pvkit::pv_fail!(
                    "expcmp-GT-but-compare-below-exp",
                    "exp_cmp(x={xs}, max_n={max_n}, bound={bound}, compare={cs}) says GT, but compare is {:e} ulps below the true e^x",
                    gap_ulps.to_f64()
                );
            }
        }
        Est::LT => {
            if ord != Ordering::Less {
                obs.class(format!("wrong-LT:gap-ulps<={}", gap_ulps.to_f64().ceil()));
                if gap_ulps.le(&slack) {
                    pvkit::pv_fail!(
                        "expcmp-LT-but-compare-above-exp:within-fixed-point-rounding",
                        "exp_cmp(x={xs}, max_n={max_n}, bound={bound}, compare={cs}) says LT after {} iterations, but compare is {:.3} ulps ABOVE the true e^x",
                        res.iterations,
                        gap_ulps.to_f64()
                    );
                }
                pvkit::pv_fail!(
                    "expcmp-LT-but-compare-above-exp",
                    "exp_cmp(x={xs}, max_n={max_n}, bound={bound}, compare={cs}) says LT, but compare is {:e} ulps above the true e^x",
                    gap_ulps.to_f64()
                );
            }
        }
        Est::Unknown => {}
    }
    if res.iterations == max_n {
        obs.class("stopped:max_n");
    }
    if res.iterations >= 10 {
        obs.class("iterations>=10");
    }
    obs.nontrivial_if(near || got_est == Est::Unknown);
    Ok(())
}

fn run_case(c: &CmpCase, obs: &mut Obs) -> Result<(), Fail> {
    // x >= 0 (x < 0 is outside the domain: the remainder term is a bound only for x >= 0)
    let mut x = c.x.scaled().abs();
    let sel = BOUNDS[pvkit::pick_idx(c.bound_sel, BOUNDS.len())];
    // keep e^x within the selected bound where possible, and always within i64
    let x_cap = BF::from_int(sel).to_f64().ln();
    let cap = BigInt::from((x_cap * 1.0e6) as i64) * pow10(28);
    if x > cap {
        // fold the generated magnitude into [0, ln(bound)] (keeps the digits)
        x = x % &cap;
        obs.class("x:folded-into-ln(bound)");
    }
    let t = truth::exp(&BF::from_scaled(&x));
    // precondition by construction: bound >= e^x
    let need = t.floor_int().to_i64().unwrap() + 1;
    let bound = sel.max(need);
    obs.class(format!("bound:{}", if bound > 1000 { ">1000".to_string() } else { bound.to_string() }));
    if x < pow10(10) {
        obs.class("x:<1e-24");
    } else if x < pow10(24) {
        obs.class("x:<1e-10");
    } else if x <= &*P34 * 12 / 10 {
        obs.class("x:leader-range");
    } else {
        obs.class("x:>1.2");
    }
    let max_n = (c.max_n as u64).clamp(1, 1000);
    let (compare, near) = match &c.cmp {
        Cmp::Rel { neg, mant, k } => {
            let k = (*k).min(30) as i32;
            let d = BF::lit((*mant).clamp(1, 9) as i64, -k);
            let f = if *neg { BF::one().sub(&d) } else { BF::one().add(&d) };
            obs.class(format!("cmp:rel-1e-{:02}", k / 5 * 5));
            (t.mul(&f).to_scaled_round(), k >= 20)
        }
        Cmp::Ulps(n) => {
            obs.class("cmp:true±ulps");
            (t.to_scaled_round() + BigInt::from(*n), true)
        }
        Cmp::Approx(n) => {
            obs.class("cmp:approx±ulps");
            // the plain (unscaled) Taylor sum the comparison converges to
            let mut acc = P34.clone();
            let mut term = x.clone();
            let mut div = P34.clone();
            for _ in 0..1000 {
                if term.abs() < pow10(10) {
                    break;
                }
                acc += &term;
                div += &*P34;
                term = refalgo::div(&refalgo::mul(&term, &x), &div);
            }
            (acc + BigInt::from(*n), true)
        }
    };
    let compare = if compare.is_negative() { BigInt::zero() } else { compare };
    check_cmp(&x, &compare, bound, max_n, near, obs)
}

#[derive(Debug, Clone, Serialize, Deserialize)]
pub struct FlowCase {
    pub f_sel: u8,
    /// σ and the normalised VRF value a, both (hi·10^17+lo) ulps, in [0,1)
    pub sigma: (u64, u64),
    pub a: (u64, u64),
    /// instead of a random `a`: a = threshold + n ulps, threshold = 1 − (1−f)^σ (reference pow)
    pub at_threshold: Option<i8>,
}

const F_TABLE: [(u64, u64); 5] = [(1, 20), (1, 10), (1, 5), (1, 2), (1, 100)];

fn frac(p: (u64, u64)) -> BigInt {
    let m = 100_000_000_000_000_000u64;
    BigInt::from(p.0 % m) * pow10(17) + BigInt::from(p.1 % m)
}

/// The leader-check flow of pallas' golden test, once through pallas and once through the port.
fn run_flow(c: &FlowCase, obs: &mut Obs) -> Result<(), Fail> {
    let one = &*P34;
    let (num, den) = F_TABLE[pvkit::pick_idx((c.f_sel as u16) << 8, F_TABLE.len())];
    let sigma = frac(c.sigma);
    let f = refalgo::div(&(one * num), &(one * den));
    let base = one - &f;
    let a = match c.at_threshold {
        Some(n) => {
            obs.class("flow:a-at-threshold");
            let thr = if sigma.is_zero() { BigInt::zero() } else { one - refalgo::pow_core(&base, &sigma) };
            (thr + BigInt::from(n)).max(BigInt::zero()).min(one - 1)
        }
        None => frac(c.a),
    };
    // port
    let ln_c = refalgo::ln(&base).unwrap();
    let alpha = -refalgo::mul(&sigma, &ln_c);
    let q = refalgo::div(one, &(one - &a));
    // pallas
    let one_d = FixedDecimal::from(1u64);
    let f_d = &FixedDecimal::from(num) / &FixedDecimal::from(den);
    let c_d = &one_d - &f_d;
    let alpha_d = -(&dec34(&sigma) * &c_d.ln());
    let q_d = &one_d / &(&one_d - &dec34(&a));
    pv_ensure!(
        alpha_d == dec34(&alpha) && q_d == dec34(&q),
        "flow-operands-differ-from-reference",
        "f={num}/{den} sigma={} a={}: pallas alpha={alpha_d} q={q_d}; reference alpha={} q={}",
        fmt_fixed(&sigma, 34),
        fmt_fixed(&a, 34),
        fmt_fixed(&alpha, 34),
        fmt_fixed(&q, 34)
    );
    obs.class(format!("flow:f={num}/{den}"));
    if alpha.is_negative() {
        // cannot happen for base < 1; keep the domain explicit
        obs.discard();
        return Ok(());
    }
    check_cmp(&alpha, &q, 3, 1000, c.at_threshold.is_some(), obs)
}

pub fn run(s: &Session) {
    s.set_rule(
        "x >= 0: log-spread 1e-30..1, dense in [0,1.2] and up to ln(bound) (folded); bound = max(table entry, \
         floor(e^x)+1) so that bound > e^x holds by construction; compare = round(e^x·(1±m·10^-k)), k in 0..30, or \
         round(e^x) ± n ulps, or the converged Taylor sum ± n ulps; max_n in 1..1000. Plus the leader-check flow \
         alpha = -sigma·ln(1-f), q = 1/(1-a), exp_cmp(1000, 3, q) with random a and with a at the threshold ± ulps. \
         Oracles: port of taylorExpCmp (estimate, iterations, approximation) and 400-bit e^x (GT => compare > e^x, \
         LT => compare < e^x). Non-trivial = |delta| <= 1e-20 (compare within 1e-20 relative of e^x, including the \
         ±ulps families) or the result is UNKNOWN; distinct = distinct serialised case",
    );
    s.assume("x < 0 and bound < e^x are outside the domain (all callers pass x >= 0 and a dominating bound)");
    s.assume("a wrong GT/LT whose margin is at most iterations+2 ulps of 1e-34 is reported under a separate signature (fixed-point rounding inherent in the reference algorithm)");

    s.health(!*NO_PORT, "PV_MATH_NO_PORT is set: the reference-equality oracle is disabled (sensitivity ablation only)");
    s.forall(
        "exp-cmp",
        s.pick(120_000, 1_500_000),
        || {
            let x = prop_oneof![
                4 => fx_mag(-2, -2, false),      // [0, 1.8): the leader range, dense
                2 => fx_mag(-32, -3, false),     // 1e-30 .. 0.18
                2 => fx_mag(-1, 0, false),       // up to ~1800, folded into ln(bound)
                1 => fx_mag(-36, -33, false),    // a few ulps
            ];
            let cmp = prop_oneof![
                5 => (any::<bool>(), 1u8..=9, 0u8..=30).prop_map(|(neg, mant, k)| Cmp::Rel { neg, mant, k }),
                2 => (any::<bool>(), 1u8..=9, 20u8..=30).prop_map(|(neg, mant, k)| Cmp::Rel { neg, mant, k }),
                2 => prop_oneof![-3i16..=3, -300i16..=300].prop_map(Cmp::Ulps),
                1 => (-3i8..=3).prop_map(Cmp::Approx),
            ];
            let max_n = prop_oneof![2 => 1u16..=1000, 2 => 1u16..=30, 1 => Just(1000u16)];
            (x, cmp, any::<u16>(), max_n).prop_map(|(x, cmp, bound_sel, max_n)| CmpCase { x, cmp, bound_sel, max_n })
        },
        run_case,
    );

    // the only window where the remainder term rounds to zero while the last added term is still
    // above the 1e-24 cut-off (x^2/2 >= 1e-24 and x^3/6 < 1e-34): compare just above the partial sum
    s.forall(
        "rounding-window",
        s.pick(10_000, 100_000),
        || {
            (fx_mag(-14, -13, false), 0i8..=4, prop_oneof![Just(3u16), any::<u16>()], 2u16..=1000)
                .prop_map(|(x, n, bound_sel, max_n)| CmpCase { x, cmp: Cmp::Approx(n), bound_sel, max_n })
        },
        run_case,
    );

    s.forall(
        "leader-flow",
        s.pick(20_000, 200_000),
        || {
            let fr = || (prop_oneof![4 => 0u64..100_000_000_000_000_000, 1 => 0u64..1000], any::<u64>());
            (any::<u8>(), fr(), fr(), prop_oneof![2 => Just(None), 1 => (-3i8..=3).prop_map(Some)])
                .prop_map(|(f_sel, sigma, a, at_threshold)| FlowCase { f_sel, sigma, a, at_threshold })
        },
        run_flow,
    );

    if !s.replaying() {
        let bad = truth::selftest();
        s.health(bad.is_empty(), &format!("truth oracle self-test failed: {bad:?}"));
        for c in [
            "result:GT", "result:LT", "result:Unknown", "stopped:max_n", "iterations>=10", "x:leader-range", "x:>1.2",
            "x:<1e-10", "x:<1e-24", "cmp:true±ulps", "cmp:approx±ulps", "cmp:rel-1e-30", "cmp:rel-1e-00", "bound:3",
            "bound:>1000", "flow:a-at-threshold",
        ] {
            s.health(s.class_count(c) > 0, &format!("generator never produced class {c}"));
        }
    }
}
