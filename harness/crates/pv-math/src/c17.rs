//! C17 — fixed-point arithmetic, rounding and printing are exact (DESIGN §C17).
use num_bigint::BigInt;
use num_integer::Integer;
use num_traits::{Signed, Zero};
use pallas_math::math::{FixedDecimal, FixedPrecision};
use proptest::prelude::*;
use pvkit::{pv_ensure, Fail, Obs, Session};
use serde::{Deserialize, Serialize};

use crate::fx::{dec, fmt_fixed, parse_fixed, pow10, P34};

pub const PRECISIONS: [u64; 6] = [0, 1, 3, 10, 34, 50];

/// A value in units of 10^-precision.
#[derive(Debug, Clone, Serialize, Deserialize)]
pub enum V {
    /// up to 72 random digits, truncated to `ndig` digits
    Raw { neg: bool, limbs: [u64; 4], ndig: u8 },
    /// n·10^p + adj
    Int { neg: bool, n: u64, adj: i8 },
    /// n·10^p + 10^p/2 + adj (exact half-way points and their neighbours; for p = 0 an integer)
    Half { neg: bool, n: u64, adj: i8 },
    /// ±n ulps (tiny values such as -0.00…05)
    Tiny { neg: bool, n: u8 },
}

impl V {
    pub fn value(&self, prec: u64) -> BigInt {
        let m = pow10(prec as u32);
        let sg = |neg: bool, v: BigInt| if neg { -v } else { v };
        match self {
            V::Raw { neg, limbs, ndig } => {
                let base = pow10(18);
                let mut v = BigInt::zero();
                for l in limbs.iter().rev() {
                    v = v * &base + BigInt::from(l % 1_000_000_000_000_000_000u64);
                }
                sg(*neg, v % pow10((*ndig).min(72) as u32))
            }
            V::Int { neg, n, adj } => sg(*neg, BigInt::from(*n) * &m + BigInt::from(*adj)),
            V::Half { neg, n, adj } => sg(*neg, BigInt::from(*n) * &m + &m / 2 + BigInt::from(*adj)),
            V::Tiny { neg, n } => sg(*neg, BigInt::from(*n)),
        }
    }
    fn kind(&self) -> &'static str {
        match self {
            V::Raw { .. } => "raw",
            V::Int { .. } => "int",
            V::Half { .. } => "half",
            V::Tiny { .. } => "tiny",
        }
    }
}

pub fn v_strategy() -> impl Strategy<Value = V> {
    prop_oneof![
        5 => (any::<bool>(), any::<[u64; 4]>(), prop_oneof![3 => 0u8..=72, 1 => 30u8..=40, 1 => 66u8..=72])
            .prop_map(|(neg, limbs, ndig)| V::Raw { neg, limbs, ndig }),
        2 => (any::<bool>(), prop_oneof![0u64..20, any::<u64>()], prop_oneof![2 => Just(0i8), 1 => -2i8..=2])
            .prop_map(|(neg, n, adj)| V::Int { neg, n, adj }),
        2 => (any::<bool>(), prop_oneof![0u64..20, any::<u64>()], prop_oneof![2 => Just(0i8), 1 => -2i8..=2])
            .prop_map(|(neg, n, adj)| V::Half { neg, n, adj }),
        1 => (any::<bool>(), 0u8..=12).prop_map(|(neg, n)| V::Tiny { neg, n }),
    ]
}

#[derive(Debug, Clone, Serialize, Deserialize)]
pub struct ArithCase {
    pub a: V,
    pub b: V,
}

#[derive(Debug, Clone, Serialize, Deserialize)]
pub struct RoundCase {
    pub v: V,
    pub prec_sel: u16,
}

fn same(what: &str, form: &str, got: &FixedDecimal, want: &BigInt, a: &BigInt, b: &BigInt) -> Result<(), Fail> {
    let want_d = dec(want, 34);
    pv_ensure!(
        *got == want_d && got.precision() == 34,
        format!("{what}-inexact"),
        "{what} [{form}] of {} and {}: pallas {got} (precision {}), exact rule gives {}",
        fmt_fixed(a, 34),
        fmt_fixed(b, 34),
        got.precision(),
        fmt_fixed(want, 34)
    );
    Ok(())
}

fn check_arith(c: &ArithCase, obs: &mut Obs) -> Result<(), Fail> {
    let p = &*P34;
    let a = c.a.value(34);
    let b = c.b.value(34);
    let da = dec(&a, 34);
    let db = dec(&b, 34);
    obs.class(format!("arith:{}×{}", c.a.kind(), c.b.kind()));

    // exact rules on integers
    let sum = &a + &b;
    let diff = &a - &b;
    let prod = (&a * &b).div_floor(p);
    let prod_inexact = !((&a * &b) % p).is_zero();
    if prod_inexact && (a.is_negative() != b.is_negative()) {
        obs.class("arith:mul-negative-inexact");
    }

    // addition
    same("add", "&a + &b", &(&da + &db), &sum, &a, &b)?;
    same("add", "a + b", &(da.clone() + db.clone()), &sum, &a, &b)?;
    let mut t = da.clone();
    t += db.clone();
    same("add", "a += b", &t, &sum, &a, &b)?;
    let mut t = da.clone();
    {
        let mut r = &mut t;
        r += &db;
    }
    same("add", "&mut a += &b", &t, &sum, &a, &b)?;

    // subtraction
    same("sub", "&a - &b", &(&da - &db), &diff, &a, &b)?;
    same("sub", "a - b", &(da.clone() - db.clone()), &diff, &a, &b)?;
    let mut t = da.clone();
    t -= db.clone();
    same("sub", "a -= b", &t, &diff, &a, &b)?;
    let mut t = da.clone();
    {
        let mut r = &mut t;
        r -= &db;
    }
    same("sub", "&mut a -= &b", &t, &diff, &a, &b)?;

    // multiplication = floor of the exact product
    same("mul", "&a * &b", &(&da * &db), &prod, &a, &b)?;
    same("mul", "a * b", &(da.clone() * db.clone()), &prod, &a, &b)?;
    let mut t = da.clone();
    t *= db.clone();
    same("mul", "a *= b", &t, &prod, &a, &b)?;
    let mut t = da.clone();
    {
        let mut r = &mut t;
        r *= &db;
    }
    same("mul", "&mut a *= &b", &t, &prod, &a, &b)?;

    // division = truncation of the exact quotient (divisor 0 is outside the domain)
    if !b.is_zero() {
        let quot = (&a * p) / &b; // BigInt `/` truncates toward zero
        if !((&a * p) % &b).is_zero() && (a.is_negative() != b.is_negative()) {
            obs.class("arith:div-negative-inexact");
        }
        same("div", "&a / &b", &(&da / &db), &quot, &a, &b)?;
        same("div", "a / b", &(da.clone() / db.clone()), &quot, &a, &b)?;
        let mut t = da.clone();
        t /= db.clone();
        same("div", "a /= b", &t, &quot, &a, &b)?;
        let mut t = da.clone();
        {
            let mut r = &mut t;
            r /= &db;
        }
        same("div", "&mut a /= &b", &t, &quot, &a, &b)?;
    } else {
        obs.class("arith:divisor-zero-skipped");
    }

    // negation
    same("neg", "-&a", &(-&da), &(-&a), &a, &b)?;
    same("neg", "-a", &(-da.clone()), &(-&a), &a, &b)?;

    // comparisons agree with the integers (same precision)
    let ord = a.cmp(&b);
    pv_ensure!(
        da.partial_cmp(&db) == Some(ord),
        "cmp-wrong",
        "partial_cmp({}, {}) = {:?}, exact order {:?}",
        fmt_fixed(&a, 34),
        fmt_fixed(&b, 34),
        da.partial_cmp(&db),
        ord
    );
    pv_ensure!(
        (da == db) == (a == b) && (da < db) == (a < b) && (da >= db) == (a >= b),
        "cmp-wrong",
        "==/</>= of {} and {} disagree with the exact order",
        fmt_fixed(&a, 34),
        fmt_fixed(&b, 34)
    );
    if a == b {
        obs.class("arith:equal-operands");
    }
    obs.nontrivial_if(!a.is_zero() && !b.is_zero());
    Ok(())
}

fn check_round(c: &RoundCase, obs: &mut Obs) -> Result<(), Fail> {
    let prec = PRECISIONS[pvkit::pick_idx(c.prec_sel, PRECISIONS.len())];
    let m = pow10(prec as u32);
    let v = c.v.value(prec);
    let d = dec(&v, prec);
    let vs = fmt_fixed(&v, prec as u32);
    obs.class(format!("round:p={prec}"));
    obs.class(format!("round:{}", c.v.kind()));
    let rem = v.mod_floor(&m);
    let is_int = rem.is_zero();
    let is_tie = prec > 0 && &rem * 2 == m;
    if is_tie {
        obs.class(if v.is_negative() { "round:tie-negative" } else { "round:tie-positive" });
    }
    if v.is_negative() && !is_int {
        obs.class("round:negative-fractional");
    }
    if v.is_negative() && v.abs() < m {
        obs.class("round:negative-in-(-1,0)");
    }

    // printing: -?digits.{prec digits}, value equal to the stored value
    let printed = d.to_string();
    match parse_fixed(&printed, prec as u32) {
        Some(pv) => pv_ensure!(
            pv == v,
            "print-wrong-value",
            "stored {v} units of 1e-{prec} prints as {printed:?}, which reads back as {pv}"
        ),
        None => pvkit::pv_fail!(
            "print-malformed",
            "stored {v} units of 1e-{prec} prints as {printed:?}: not sign, integer part, '.', {prec} fractional digits"
        ),
    }
    pv_ensure!(d.precision() == prec, "precision-lost", "from_str(_, {prec}).precision() = {}", d.precision());

    let unit = |name: &str, got: &FixedDecimal| -> Result<BigInt, Fail> {
        pv_ensure!(
            got.precision() == prec,
            format!("{name}-precision-changed"),
            "{name}({vs}) has precision {} instead of {prec}",
            got.precision()
        );
        match parse_fixed(&got.to_string(), prec as u32) {
            Some(x) => Ok(x),
            None => Err(Fail { sig: "print-malformed".into(), msg: format!("{name}({vs}) prints as {:?}", got.to_string()) }),
        }
    };

    // floor / ceil / trunc are determined uniquely
    let want_floor = v.div_floor(&m) * &m;
    let want_ceil = if is_int { v.clone() } else { &want_floor + &m };
    let want_trunc = (&v / &m) * &m; // toward zero
    let f = d.floor();
    let cl = d.ceil();
    let t = d.trunc();
    let r = d.round();
    let fv = unit("floor", &f)?;
    let cv = unit("ceil", &cl)?;
    let tv = unit("trunc", &t)?;
    let rv = unit("round", &r)?;
    pv_ensure!(f == dec(&want_floor, prec) && fv == want_floor, "floor-wrong", "floor({vs}) = {f}, expected {}", fmt_fixed(&want_floor, prec as u32));
    pv_ensure!(cl == dec(&want_ceil, prec) && cv == want_ceil, "ceil-wrong", "ceil({vs}) = {cl}, expected {}", fmt_fixed(&want_ceil, prec as u32));
    pv_ensure!(t == dec(&want_trunc, prec) && tv == want_trunc, "trunc-wrong", "trunc({vs}) = {t}, expected {}", fmt_fixed(&want_trunc, prec as u32));
    // the relations the statement spells out
    pv_ensure!(fv <= v && v <= cv && (&cv - &fv == m || (is_int && cv == fv)), "floor-ceil-bracket", "floor({vs}) = {f}, ceil = {cl}");
    pv_ensure!(f <= d && d <= cl, "floor-ceil-bracket", "partial order: floor({vs}) = {f}, ceil = {cl}");
    // round: an integer within one half (ties may go either way)
    let integral = (&rv % &m).is_zero();
    let dist2 = (&rv - &v).abs() * 2;
    if !(integral && dist2 <= m) {
        let one_off = prec == 0 && (&rv - &v).abs() == BigInt::from(1);
        if one_off {
            pvkit::pv_fail!(
                "round-adds-one-at-precision-0",
                "round({vs}) at precision 0 = {r}: an integer must round to itself"
            );
        }
        pvkit::pv_fail!("round-not-nearest-integer", "round({vs}) = {r} (precision {prec})");
    }
    obs.nontrivial_if(!is_int);
    Ok(())
}

#[derive(Debug, Clone, Serialize, Deserialize)]
pub enum FromCase {
    U(u64),
    I(i64),
    Bytes(Vec<u8>),
}

fn check_from(c: &FromCase, obs: &mut Obs) -> Result<(), Fail> {
    let (got, want): (FixedDecimal, BigInt) = match c {
        FromCase::U(n) => (FixedDecimal::from(*n), BigInt::from(*n)),
        FromCase::I(n) => (FixedDecimal::from(*n), BigInt::from(*n)),
        FromCase::Bytes(b) => (FixedDecimal::from(&b[..]), BigInt::from_bytes_be(num_bigint::Sign::Plus, b)),
    };
    obs.class(match c {
        FromCase::U(_) => "from:u64",
        FromCase::I(_) => "from:i64",
        FromCase::Bytes(_) => "from:bytes",
    });
    let want_scaled = &want * &*P34;
    pv_ensure!(
        got == dec(&want_scaled, 34),
        "from-integer-wrong",
        "From({c:?}) = {got}, expected {}",
        fmt_fixed(&want_scaled, 34)
    );
    pv_ensure!(got.to_string() == fmt_fixed(&want_scaled, 34), "print-wrong-value", "From({c:?}) prints {got}");
    obs.nontrivial_if(!want.is_zero());
    Ok(())
}

pub fn run(s: &Session) {
    s.set_rule(
        "arith: pairs of values at precision 34 drawn from {up to 72 random digits cut to 0..72 digits, n·10^34 ± ulps, \
         half-way points ± ulps, ±0..12 ulps}, both signs; every operator in its four forms (by reference, by value, \
         op-assign by value, op-assign on &mut with a reference) against exact integer rules. round: the same value \
         families at precisions {0,1,3,10,34,50} for floor/ceil/trunc/round/printing. Non-trivial = arith: both operands \
         non-zero; round: the value is not an integer; distinct = distinct serialised case",
    );
    s.assume("num-bigint integer arithmetic is correct");
    s.assume("division by zero and operators on operands of precision other than 34 are outside the domain (the operators scale by 10^34 whatever the operands' precision)");
    s.assume("weaker readings: round ties may go either way; comparisons are only asserted between equal precisions (partial_cmp returns None otherwise); at precision 0 the printed form may end in '.' or '.0'");

    s.forall(
        "arith",
        s.pick(200_000, 2_000_000),
        || (v_strategy(), v_strategy()).prop_map(|(a, b)| ArithCase { a, b }),
        check_arith,
    );
    s.forall(
        "round-print",
        s.pick(200_000, 2_000_000),
        || (v_strategy(), any::<u16>()).prop_map(|(v, prec_sel)| RoundCase { v, prec_sel }),
        check_round,
    );
    // bounded family: every precision × hand-picked boundary values
    let mut fam = vec![];
    for (pi, _) in PRECISIONS.iter().enumerate() {
        let sel = ((pi * 65536) / PRECISIONS.len() + 1) as u16;
        for neg in [false, true] {
            for n in [0u64, 1, 2, 5, 9, 10, 11] {
                for adj in [-1i8, 0, 1] {
                    fam.push(RoundCase { v: V::Int { neg, n, adj }, prec_sel: sel });
                    fam.push(RoundCase { v: V::Half { neg, n, adj }, prec_sel: sel });
                }
            }
            for n in 0u8..=12 {
                fam.push(RoundCase { v: V::Tiny { neg, n }, prec_sel: sel });
            }
        }
    }
    s.foreach("round-family", fam, false, check_round);
    s.forall(
        "from-integer",
        s.pick(10_000, 100_000),
        || {
            prop_oneof![
                any::<u64>().prop_map(FromCase::U),
                any::<i64>().prop_map(FromCase::I),
                prop_oneof![Just(0i64), Just(1), Just(-1), Just(i64::MIN), Just(i64::MAX)].prop_map(FromCase::I),
                prop::collection::vec(any::<u8>(), 0..40).prop_map(FromCase::Bytes),
            ]
        },
        check_from,
    );
    if !s.replaying() {
        for p in PRECISIONS {
            s.health(s.class_count(&format!("round:p={p}")) > 0, &format!("precision {p} never generated"));
        }
        for c in [
            "round:tie-negative", "round:tie-positive", "round:negative-fractional", "round:negative-in-(-1,0)",
            "arith:mul-negative-inexact", "arith:div-negative-inexact", "arith:equal-operands", "round:raw", "round:tiny",
        ] {
            s.health(s.class_count(c) > 0, &format!("generator never produced class {c}"));
        }
    }
}
