//! Plain-data fixed-point case numbers, conversions to/from pallas `FixedDecimal`, and the
//! harness' own decimal printer/parser (all on num-bigint; nothing here touches dashu).
use num_bigint::BigInt;
use num_integer::Integer;
use num_traits::Signed;
use pallas_math::math::{FixedDecimal, FixedPrecision};
use proptest::prelude::*;
use serde::{Deserialize, Serialize};
use std::sync::atomic::{AtomicU64, Ordering};
use std::sync::LazyLock;

pub fn pow10(k: u32) -> BigInt {
    num_traits::pow(BigInt::from(10), k as usize)
}

/// 10^34: the scale of the default precision.
pub static P34: LazyLock<BigInt> = LazyLock::new(|| pow10(34));

/// A generated number in units of 10^-34 ("ulps"): `±((a·10^17 + b mod 10^17) · 10^e) + adj`
/// (`e < 0` divides, truncating). Shrinks toward zero.
#[derive(Debug, Clone, PartialEq, Serialize, Deserialize)]
pub struct Fx {
    pub neg: bool,
    pub a: u64,
    pub b: u64,
    pub e: i8,
    pub adj: i8,
}

impl Fx {
    pub fn scaled(&self) -> BigInt {
        let m = BigInt::from(self.a) * pow10(17) + BigInt::from(self.b % 100_000_000_000_000_000u64);
        let v = if self.e >= 0 { m * pow10(self.e as u32) } else { m / pow10((-(self.e as i32)) as u32) };
        let v = if self.neg { -v } else { v };
        v + BigInt::from(self.adj)
    }
}

/// Magnitudes spread over decades: `m` has up to 36/37 digits, so `e = -36` gives a few ulps and
/// `e = lo..hi` spans 10^(2+e) in real terms (e = -32 ~ 1e-30, e = 4 ~ 1e6).
pub fn fx_mag(e_lo: i8, e_hi: i8, negatives: bool) -> impl Strategy<Value = Fx> {
    (
        any::<bool>(),
        prop_oneof![10 => any::<u64>(), 1 => 0u64..1000, 1 => Just(0u64)],
        prop_oneof![5 => any::<u64>(), 1 => Just(0u64)],
        e_lo..=e_hi,
        prop_oneof![4 => Just(0i8), 1 => -2i8..=2],
    )
        .prop_map(move |(neg, a, b, e, adj)| Fx { neg: neg && negatives, a, b, e, adj })
}

/// Integers (|n| <= max) and integers ± a few ulps.
pub fn fx_int(max: u64, negatives: bool) -> impl Strategy<Value = Fx> {
    (any::<bool>(), prop_oneof![3 => 0..=max.min(20), 2 => 0..=max], prop_oneof![1 => Just(0i8), 1 => -2i8..=2])
        .prop_map(move |(neg, n, adj)| Fx { neg: neg && negatives, a: 0, b: n, e: 34, adj })
}

/// Clamp |v| to `limit` (keeps a generated case inside the documented domain).
pub fn clamp_abs(v: BigInt, limit: &BigInt) -> BigInt {
    if v.abs() > *limit {
        if v.is_negative() {
            -limit.clone()
        } else {
            limit.clone()
        }
    } else {
        v
    }
}

/// The harness' own printer: sign, integer part, '.', exactly `prec` fractional digits
/// (for `prec == 0`: no fractional digits, see `parse_fixed`).
pub fn fmt_fixed(v: &BigInt, prec: u32) -> String {
    let m = pow10(prec);
    let a = v.abs();
    let (q, r) = a.div_rem(&m);
    let mut s = String::new();
    if v.is_negative() {
        s.push('-');
    }
    s.push_str(&q.to_string());
    s.push('.');
    if prec > 0 {
        let rs = r.to_string();
        for _ in rs.len()..prec as usize {
            s.push('0');
        }
        s.push_str(&rs);
    }
    s
}

/// Strict parser of `-?digits.digits` with exactly `prec` fractional digits (for `prec == 0`
/// zero fractional digits or the single digit "0" are accepted). Returns the value in units of
/// 10^-prec. `None` = not of that form.
pub fn parse_fixed(s: &str, prec: u32) -> Option<BigInt> {
    let (neg, body) = match s.strip_prefix('-') {
        Some(r) => (true, r),
        None => (false, s),
    };
    let (ip, fp) = body.split_once('.')?;
    if ip.is_empty() || !ip.bytes().all(|c| c.is_ascii_digit()) || !fp.bytes().all(|c| c.is_ascii_digit()) {
        return None;
    }
    if ip.len() > 1 && ip.starts_with('0') {
        return None;
    }
    let fp = if prec == 0 {
        if !(fp.is_empty() || fp == "0") {
            return None;
        }
        ""
    } else {
        if fp.len() != prec as usize {
            return None;
        }
        fp
    };
    let digits = format!("{ip}{fp}");
    let v: BigInt = digits.parse().ok()?;
    Some(if neg { -v } else { v })
}

pub fn dec(v: &BigInt, prec: u64) -> FixedDecimal {
    FixedDecimal::from_str(&v.to_string(), prec).expect("from_str of a decimal integer string")
}

pub fn dec34(v: &BigInt) -> FixedDecimal {
    dec(v, 34)
}

/// Value of a pallas decimal (units of 10^-prec) read back through its printed form.
pub fn undec(d: &FixedDecimal) -> Option<BigInt> {
    parse_fixed(&d.to_string(), d.precision() as u32)
}

/// Order-independent running maximum of a non-negative f64 (for calibration notes).
pub struct MaxF64(AtomicU64);
impl MaxF64 {
    pub const fn new() -> Self {
        MaxF64(AtomicU64::new(0))
    }
    pub fn update(&self, x: f64) {
        if x.is_finite() && x > 0.0 {
            self.0.fetch_max(x.to_bits(), Ordering::Relaxed);
        }
    }
    pub fn get(&self) -> f64 {
        f64::from_bits(self.0.load(Ordering::Relaxed))
    }
}
