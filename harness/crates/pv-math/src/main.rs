mod c15;
mod c16;
mod c17;
mod fx;
mod refalgo;
mod truth;

use pvkit::session::CheckDef;

fn main() {
    pvkit::main(&[
        CheckDef { id: "C15", level: "exploration", run: c15::run },
        CheckDef { id: "C16", level: "exploration", run: c16::run },
        CheckDef { id: "C17", level: "exploration", run: c17::run },
    ]);
}
