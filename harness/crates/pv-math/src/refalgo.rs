//! Port of the Cardano "non-integral" reference algorithm (cardano-ledger `NonIntegral.hs` /
//! the GMP reference `non_integral.cpp`) at 34 decimal digits, on num-bigint integers.
//!
//! All numbers are integers in units of 10^-34. The two fixed-point primitives are
//!   * product:  x ⊗ y = ⌊x·y / 10^34⌋                      (floor, as Data.Fixed / `mpz_fdiv`)
//!   * quotient: x ⊘ y = trunc(x·10^34 / y)                  (toward zero, as `mpz_tdiv`)
//! and everything else is built from them exactly as the reference prescribes:
//!   exp'  x = x<0: 1 ⊘ exp'(-x);  x=0: 1;  else (taylor (x / ⌈x⌉))^⌈x⌉   (cut-off 10^-24, ≤1000 terms)
//!   ipow  x n = square-and-multiply by the recursion n even: (x^(n/2))², n odd: x·x^(n-1)
//!   ln'   x = n + lncf(x ⊘ exp'(n) − 1),  n = findE x  (e^n ≤ x < e^(n+1) by doubling + bisection)
//!   lncf     = continued fraction x/(1+ 1²x/(2+ 1²x/(3+ 2²x/(4+ 2²x/(5+ …))))) until two successive
//!              convergents differ by less than 10^-24
//!   x *** y  = exp'(y ⊗ ln' x)
//!   taylorExpCmp = Taylor partial sums with the Lagrange remainder bound·x^(n+1)/(n+1)!
use num_bigint::BigInt;
use num_integer::Integer;
use num_traits::{Signed, Zero};
use std::sync::LazyLock;

use crate::fx::P34;

static EPS: LazyLock<BigInt> = LazyLock::new(|| crate::fx::pow10(10)); // 10^-24 in ulps
static ONE: LazyLock<BigInt> = LazyLock::new(|| P34.clone());
/// exp1 = exp' 1 (the reference derives e from its own exp)
pub static E: LazyLock<BigInt> = LazyLock::new(|| exp(&ONE).0);

/// x ⊗ y
pub fn mul(x: &BigInt, y: &BigInt) -> BigInt {
    (x * y).div_floor(&P34)
}

/// x ⊘ y (y != 0)
pub fn div(x: &BigInt, y: &BigInt) -> BigInt {
    (x * &*P34) / y // BigInt `/` truncates toward zero
}

fn ceil_units(x: &BigInt) -> BigInt {
    // ⌈x⌉ as a plain integer
    -((-x).div_floor(&P34))
}

/// Taylor series of exp for x in [0,1]; returns (sum, number of terms added).
fn taylor(x: &BigInt, max_n: u32) -> (BigInt, u32) {
    let mut acc = ONE.clone();
    let mut last = ONE.clone();
    let mut divisor = ONE.clone();
    let mut n = 0;
    while n < max_n {
        let next = div(&mul(&last, x), &divisor);
        if next.abs() < *EPS {
            break;
        }
        acc += &next;
        divisor += &*ONE;
        last = next;
        n += 1;
    }
    (acc, n)
}

fn ipow_pos(x: &BigInt, n: u64) -> BigInt {
    if n == 0 {
        ONE.clone()
    } else if n % 2 == 0 {
        let h = ipow_pos(x, n / 2);
        mul(&h, &h)
    } else {
        let r = ipow_pos(x, n - 1);
        mul(&r, x)
    }
}

pub fn ipow(x: &BigInt, n: i64) -> BigInt {
    if n < 0 {
        div(&ONE, &ipow_pos(x, n.unsigned_abs()))
    } else {
        ipow_pos(x, n as u64)
    }
}

/// exp'; second component = Taylor terms used (the reference's iteration count).
pub fn exp(x: &BigInt) -> (BigInt, u32) {
    if x.is_zero() {
        return (ONE.clone(), 0);
    }
    if x.is_negative() {
        let (e, it) = exp(&-x);
        return (div(&ONE, &e), it);
    }
    let n = ceil_units(x);
    let x1 = x / &n; // x / fromIntegral ⌈x⌉ (positive operands: floor = trunc)
    let (t, it) = taylor(&x1, 1000);
    let n64 = i64::try_from(n).expect("exp argument beyond the i64 exponent range");
    (ipow(&t, n64), it)
}

/// n with e^n <= x < e^(n+1) according to the reference's own powers of exp1.
pub fn find_e(x: &BigInt) -> i64 {
    let mut lo_v = div(&ONE, &E);
    let mut hi_v = E.clone();
    let mut l: i64 = -1;
    let mut u: i64 = 1;
    while lo_v > *x || hi_v < *x {
        lo_v = mul(&lo_v, &lo_v);
        hi_v = mul(&hi_v, &hi_v);
        l *= 2;
        u *= 2;
    }
    while l + 1 != u {
        let mid = l + (u - l) / 2;
        if *x < ipow(&E, mid) {
            u = mid;
        } else {
            l = mid;
        }
    }
    l
}

/// Continued fraction for ln(1+x).
fn lncf(x: &BigInt, max_n: u32) -> BigInt {
    // A_{-1}=1, B_{-1}=0, A_0=b_0=0, B_0=1
    let mut a_m2 = ONE.clone();
    let mut b_m2 = BigInt::zero();
    let mut a_m1 = BigInt::zero();
    let mut b_m1 = ONE.clone();
    let mut last: Option<BigInt> = None;
    let mut conv = BigInt::zero();
    let mut n: u32 = 1;
    while n <= max_n + 2 {
        // partial numerators a_1 = x, a_{2k} = a_{2k+1} = k² x ; partial denominators b_n = n
        let k: u64 = if n == 1 { 1 } else { (n / 2) as u64 };
        let an = x * BigInt::from(k * k);
        let bn = &*ONE * BigInt::from(n);
        let a_n = mul(&bn, &a_m1) + mul(&an, &a_m2);
        let b_n = mul(&bn, &b_m1) + mul(&an, &b_m2);
        conv = div(&a_n, &b_n);
        if let Some(l) = &last {
            if (&conv - l).abs() < *EPS {
                break;
            }
        }
        last = Some(conv.clone());
        a_m2 = a_m1;
        b_m2 = b_m1;
        a_m1 = a_n;
        b_m1 = b_n;
        n += 1;
    }
    conv
}

/// ln'; None outside the domain (x <= 0).
pub fn ln(x: &BigInt) -> Option<BigInt> {
    if !x.is_positive() {
        return None;
    }
    let n = find_e(x);
    let n_fx = &*ONE * BigInt::from(n);
    let factor = exp(&n_fx).0;
    let x1 = div(x, &factor) - &*ONE;
    Some(n_fx + lncf(&x1, 1000))
}

/// The core of `***` for a positive base (the closed-form cases are handled by the caller).
pub fn pow_core(base: &BigInt, exponent: &BigInt) -> BigInt {
    // exp'(y ⊗ ln' x), base > 0
    let l = ln(base).expect("positive base");
    exp(&mul(&l, exponent)).0
}

#[derive(Debug, Clone, Copy, PartialEq, Eq)]
pub enum Est {
    GT,
    LT,
    Unknown,
}

/// taylorExpCmp: (approximation, estimate, iterations)
pub fn exp_cmp(max_n: u64, x: &BigInt, bound: i64, compare: &BigInt) -> (BigInt, Est, u64) {
    let mut acc = ONE.clone();
    let mut divisor = ONE.clone();
    let mut err = x.clone(); // x^(n+1)/(n+1)!
    let mut n = 0u64;
    let bound = BigInt::from(bound);
    while n < max_n {
        let next = err.clone();
        if next.abs() < *EPS {
            break;
        }
        divisor += &*ONE;
        err = div(&mul(&err, x), &divisor);
        let err_term = &err * &bound;
        acc += &next;
        n += 1;
        if *compare > &acc + &err_term {
            return (acc, Est::GT, n);
        }
        if *compare < &acc - &err_term {
            return (acc, Est::LT, n);
        }
    }
    (acc, Est::Unknown, n)
}
