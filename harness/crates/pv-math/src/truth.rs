//! High-precision "truth" for exp / ln / pow: a minimal binary big-float on num-bigint
//! (400-bit mantissa ≈ 120 decimal digits; results are good to far better than 1e-70 relative,
//! which is all the tolerance comparison needs). Independent of both pallas and the port.
use num_bigint::BigInt;
use num_traits::{One, Signed, ToPrimitive, Zero};
use std::cmp::Ordering;

use crate::fx::P34;

pub const PBITS: u64 = 400;

/// value = m · 2^e
#[derive(Clone, Debug)]
pub struct BF {
    pub m: BigInt,
    pub e: i64,
}

impl BF {
    pub fn zero() -> BF {
        BF { m: BigInt::zero(), e: 0 }
    }
    pub fn one() -> BF {
        BF { m: BigInt::one(), e: 0 }
    }
    pub fn from_int(i: i64) -> BF {
        BF { m: BigInt::from(i), e: 0 }
    }
    pub fn from_big(m: BigInt) -> BF {
        BF { m, e: 0 }.norm()
    }
    /// Exact value of an f64.
    pub fn from_f64(x: f64) -> BF {
        if x == 0.0 || !x.is_finite() {
            return BF::zero();
        }
        let bits = x.to_bits();
        let sign = if bits >> 63 == 1 { -1i64 } else { 1 };
        let exp = ((bits >> 52) & 0x7ff) as i64;
        let frac = (bits & ((1u64 << 52) - 1)) as i64;
        let (m, e) = if exp == 0 { (frac, -1074) } else { (frac | (1i64 << 52), exp - 1075) };
        BF { m: BigInt::from(sign * m), e }
    }
    pub fn ratio(num: &BigInt, den: &BigInt) -> BF {
        BF::from_big(num.clone()).div(&BF::from_big(den.clone()))
    }
    /// A number given in units of 10^-34.
    pub fn from_scaled(x: &BigInt) -> BF {
        BF::ratio(x, &P34)
    }
    /// Decimal literal like "1.25e-24".
    pub fn lit(mant: i64, exp10: i32) -> BF {
        let p = crate::fx::pow10(exp10.unsigned_abs());
        if exp10 >= 0 {
            BF::from_big(BigInt::from(mant) * p)
        } else {
            BF::ratio(&BigInt::from(mant), &p)
        }
    }
    fn norm(mut self) -> BF {
        if self.m.is_zero() {
            self.e = 0;
            return self;
        }
        let b = self.m.bits();
        if b > PBITS {
            let s = b - PBITS;
            // truncate the magnitude (keeps symmetry for negative values)
            let neg = self.m.is_negative();
            let mag: BigInt = self.m.abs() >> s;
            self.m = if neg { -mag } else { mag };
            self.e += s as i64;
        }
        self
    }
    pub fn is_zero(&self) -> bool {
        self.m.is_zero()
    }
    pub fn neg(&self) -> BF {
        BF { m: -&self.m, e: self.e }
    }
    pub fn abs(&self) -> BF {
        BF { m: self.m.abs(), e: self.e }
    }
    pub fn mul(&self, o: &BF) -> BF {
        BF { m: &self.m * &o.m, e: self.e + o.e }.norm()
    }
    pub fn mul_i(&self, i: i64) -> BF {
        BF { m: &self.m * BigInt::from(i), e: self.e }.norm()
    }
    pub fn div(&self, o: &BF) -> BF {
        assert!(!o.m.is_zero(), "BF division by zero");
        if self.m.is_zero() {
            return BF::zero();
        }
        let shift = PBITS + o.m.bits() + 2;
        let neg = self.m.is_negative() != o.m.is_negative();
        let q: BigInt = (self.m.abs() << shift) / o.m.abs();
        BF { m: if neg { -q } else { q }, e: self.e - o.e - shift as i64 }.norm()
    }
    /// log2 magnitude (position of the top bit), None for zero.
    pub fn top(&self) -> Option<i64> {
        if self.m.is_zero() {
            None
        } else {
            Some(self.m.bits() as i64 + self.e)
        }
    }
    pub fn add(&self, o: &BF) -> BF {
        let (ta, tb) = match (self.top(), o.top()) {
            (None, _) => return o.clone(),
            (_, None) => return self.clone(),
            (Some(a), Some(b)) => (a, b),
        };
        // a term more than 2·PBITS below the other cannot influence the kept mantissa
        if ta - tb > 2 * PBITS as i64 {
            return self.clone();
        }
        if tb - ta > 2 * PBITS as i64 {
            return o.clone();
        }
        let e = self.e.min(o.e);
        let a: BigInt = &self.m << ((self.e - e) as u64);
        let b: BigInt = &o.m << ((o.e - e) as u64);
        BF { m: a + b, e }.norm()
    }
    pub fn sub(&self, o: &BF) -> BF {
        self.add(&o.neg())
    }
    pub fn cmp(&self, o: &BF) -> Ordering {
        let d = self.sub(o);
        if d.m.is_zero() {
            Ordering::Equal
        } else if d.m.is_negative() {
            Ordering::Less
        } else {
            Ordering::Greater
        }
    }
    pub fn le(&self, o: &BF) -> bool {
        self.cmp(o) != Ordering::Greater
    }
    pub fn lt(&self, o: &BF) -> bool {
        self.cmp(o) == Ordering::Less
    }
    pub fn to_f64(&self) -> f64 {
        if self.m.is_zero() {
            return 0.0;
        }
        let b = self.m.bits();
        let (m, e) = if b > 60 { (&self.m >> (b - 60), self.e + (b - 60) as i64) } else { (self.m.clone(), self.e) };
        let mf = m.to_f64().unwrap_or(0.0);
        if e > 2000 {
            return if mf < 0.0 { f64::NEG_INFINITY } else { f64::INFINITY };
        }
        if e < -2000 {
            return 0.0;
        }
        mf * (2.0f64).powi(e as i32)
    }
    /// ⌊self · 10^34⌋ and ⌈…⌉-style helpers: the nearest integer number of ulps (half away from 0).
    pub fn to_scaled_round(&self) -> BigInt {
        let x = self.mul(&BF::from_big(P34.clone()));
        x.round_int()
    }
    pub fn round_int(&self) -> BigInt {
        if self.m.is_zero() {
            return BigInt::zero();
        }
        if self.e >= 0 {
            return &self.m << (self.e as u64);
        }
        if self.top().unwrap() < -2 {
            return BigInt::zero();
        }
        let s = (-self.e) as u64;
        let neg = self.m.is_negative();
        let mag = self.m.abs();
        let half: BigInt = BigInt::one() << (s - 1);
        let q: BigInt = (mag + half) >> s;
        if neg {
            -q
        } else {
            q
        }
    }
    pub fn floor_int(&self) -> BigInt {
        if self.e >= 0 {
            return &self.m << (self.e as u64);
        }
        // BigInt >> is an arithmetic (flooring) shift
        &self.m >> ((-self.e) as u64)
    }
}

/// e^x.
pub fn exp(x: &BF) -> BF {
    let Some(top) = x.top() else { return BF::one() };
    // halve until |r| < 2^-24
    let s = (top + 24).max(0);
    let r = BF { m: x.m.clone(), e: x.e - s };
    let mut sum = BF::one();
    let mut term = BF::one();
    let mut k = 1i64;
    loop {
        term = term.mul(&r).div(&BF::from_int(k));
        if term.is_zero() {
            break;
        }
        if let Some(t) = term.top() {
            if t < -(PBITS as i64) - 16 {
                break;
            }
        }
        sum = sum.add(&term);
        k += 1;
        assert!(k < 200, "truth exp series did not converge");
    }
    for _ in 0..s {
        sum = sum.mul(&sum);
    }
    sum
}

/// ln x for x > 0 (Halley iteration on exp from an f64 start; cubic convergence).
pub fn ln(x: &BF) -> BF {
    assert!(x.m.is_positive(), "truth ln of a non-positive number");
    // f64 estimate: x = f · 2^t with f in [0.5,1)
    let t = x.top().unwrap();
    let f = BF { m: x.m.clone(), e: x.e - t }.to_f64();
    let y0 = f.ln() + (t as f64) * std::f64::consts::LN_2;
    let mut y = BF::from_f64(y0);
    for _ in 0..5 {
        let ey = exp(&y);
        let num = x.sub(&ey).mul_i(2);
        let den = x.add(&ey);
        y = y.add(&num.div(&den));
    }
    y
}

/// Parse a decimal literal "d.ddd…" into a BF (for the self-test constants).
pub fn parse_dec(s: &str) -> BF {
    let (ip, fp) = s.split_once('.').unwrap_or((s, ""));
    let digits: BigInt = format!("{ip}{fp}").parse().unwrap();
    BF::ratio(&digits, &crate::fx::pow10(fp.len() as u32))
}

/// Sanity of this module against constants known to 80 digits and algebraic identities.
pub fn selftest() -> Vec<String> {
    let mut bad = vec![];
    let e = parse_dec("2.71828182845904523536028747135266249775724709369995957496696762772407663035354759");
    let ln2 = parse_dec("0.69314718055994530941723212145817656807550013436025525412068000949339362196969471");
    let ln10 = parse_dec("2.30258509299404568401799145468436420760110148862877297603332790096757260967735248");
    let eps = BF::lit(1, -75);
    let close = |a: &BF, b: &BF| a.sub(b).abs().le(&eps.mul(&b.abs().add(&BF::one())));
    if !close(&exp(&BF::one()), &e) {
        bad.push("exp(1) != e".to_string());
    }
    if !close(&ln(&BF::from_int(2)), &ln2) {
        bad.push("ln(2)".to_string());
    }
    if !close(&ln(&BF::from_int(10)), &ln10) {
        bad.push("ln(10)".to_string());
    }
    if !close(&exp(&ln10), &BF::from_int(10)) {
        bad.push("exp(ln 10) != 10".to_string());
    }
    // e^1000 = (e^10)^100, ln(1e-30) = -30 ln 10, ln(1+1e-34)
    let mut p = BF::one();
    let e10 = exp(&BF::from_int(10));
    for _ in 0..100 {
        p = p.mul(&e10);
    }
    if !close(&exp(&BF::from_int(1000)).div(&p), &BF::one()) {
        bad.push("exp(1000)".to_string());
    }
    if !close(&ln(&BF::lit(1, -30)), &ln10.mul_i(-30)) {
        bad.push("ln(1e-30)".to_string());
    }
    let tiny = BF::lit(1, -34);
    let l = ln(&BF::one().add(&tiny));
    // ln(1+t) = t − t²/2 + t³/3
    let series = tiny.sub(&tiny.mul(&tiny).div(&BF::from_int(2))).add(&tiny.mul(&tiny).mul(&tiny).div(&BF::from_int(3)));
    if !l.sub(&series).abs().le(&BF::lit(1, -105)) {
        bad.push("ln(1+1e-34)".to_string());
    }
    if !close(&exp(&BF::from_int(-1_000_000)).mul(&exp(&BF::from_int(1_000_000))), &BF::one()) {
        bad.push("exp(-1e6)·exp(1e6)".to_string());
    }
    bad
}

