//! C21 — message reassembly is independent of segment boundaries (DESIGN §C21).
//!
//! A sequence of messages of one protocol is encoded, concatenated and cut into segments; the
//! receiving side of each stack must yield exactly the same messages, in order, without error and
//! without left-over bytes, whatever the cut positions are.
//!
//! * net1: two `Plexer`s over `UnixStream::pair()`; the sender pushes raw segments with
//!   `AgentChannel::enqueue_chunk`, the receiver calls `ChannelBuffer::recv_full_msg::<M>()` once per
//!   expected message plus once for a sentinel message that follows the stream. A FIN chunk on a
//!   second protocol id (same bearer, hence FIFO behind all data) tells the harness that every data
//!   chunk has been handed to the receiver's queue; a receiver that is still pending after that is
//!   *starved* (it consumed more bytes than the messages it returned) — a decision, not a timeout.
//! * net2 (a): `BearerWriteHalf::write_segment` / `BearerReadHalf::read_full_msgs::<AnyMessage>` with
//!   the persistent partial-chunk map, called exactly once per segment.
//! * net2 (b): `AnyMessage::from_payload` fed incrementally with the same loop as the bearer uses.
use std::collections::HashMap;
use std::future::Future;
use std::task::Poll;
use std::time::Duration;

use pallas_codec::minicbor;
use pallas_network::multiplexer as mux1;
use pallas_network2::behavior::AnyMessage;
use pallas_network2::Message as _;
use proptest::prelude::*;
use pvkit::cborx::{self, Kind, Len, Node, Str};
use pvkit::{Fail, Obs, Session};
use serde::{Deserialize, Serialize};

use crate::msgs::{self, Proto, Wire};
use crate::src::{recipe, short_dbg, short_hex, MsgRecipe, Src};
use crate::with_proto;

#[derive(Debug, Clone, Serialize, Deserialize)]
pub enum Split {
    /// one run per single cut position: all of them when the stream is ≤ 64 bytes, otherwise every
    /// message boundary ±1 and 16 evenly spaced positions
    AllSingles,
    /// every segment is one byte (streams up to the per-pipeline limit, longer ones use 2..=3-byte steps)
    Bytes1,
    /// cut positions drawn from selectors (mapped monotonically into 1..len)
    Random(Vec<u16>),
    /// only the mandatory cuts at 65535
    Whole,
    /// for every message that ends 65535 bytes or more into the stream: cuts such that a full 65535-byte segment ends
    /// exactly where the message ends (a full segment usually means "more to come" — here it does not)
    FullSegmentEndsMessage,
}

#[derive(Debug, Clone, Serialize, Deserialize)]
pub struct Case {
    pub proto: Proto,
    pub msgs: Vec<MsgRecipe>,
    pub split: Split,
    /// allow byte strings beyond one segment (65535)
    pub big: bool,
    /// net2 bearer: set the responder bit on the channel id
    pub server_bit: bool,
}

const N1_PROTOS: [Proto; 13] = [
    Proto::N1HandshakeN2N,
    Proto::N1HandshakeN2C,
    Proto::N1ChainSyncHeader,
    Proto::N1ChainSyncBlock,
    Proto::N1BlockFetch,
    Proto::N1TxSubmission,
    Proto::N1KeepAlive,
    Proto::N1PeerSharing,
    Proto::N1LocalState,
    Proto::N1LocalTxSubmission,
    Proto::N1TxMonitor,
    Proto::N1LocalMsgSubmission,
    Proto::N1LocalMsgNotification,
];

/// the message types `AnyMessage` knows (the other two net2 instantiations have no receive path)
const N2_PROTOS: [Proto; 8] = [
    Proto::N2HandshakeN2N,
    Proto::N2ChainSyncHeader,
    Proto::N2BlockFetch,
    Proto::N2TxSubmission,
    Proto::N2KeepAlive,
    Proto::N2PeerSharing,
    Proto::N2LeiosNotify,
    Proto::N2LeiosFetch,
];

pub trait Net2: Wire {
    const CHANNEL: u16;
    fn from_any(a: AnyMessage) -> Result<Self, AnyMessage>;
}
macro_rules! net2 {
    ($t:ty, $var:ident, $ch:expr) => {
        impl Net2 for $t {
            const CHANNEL: u16 = $ch;
            fn from_any(a: AnyMessage) -> Result<Self, AnyMessage> {
                match a {
                    AnyMessage::$var(m) => Ok(m),
                    other => Err(other),
                }
            }
        }
    };
}
net2!(msgs::N2HsN2N, Handshake, pallas_network2::protocol::handshake::CHANNEL_ID);
net2!(msgs::N2CsHeader, ChainSync, pallas_network2::protocol::chainsync::CHANNEL_ID);
net2!(pallas_network2::protocol::blockfetch::Message, BlockFetch, pallas_network2::protocol::blockfetch::CHANNEL_ID);
net2!(pallas_network2::protocol::txsubmission::Message, TxSubmission, pallas_network2::protocol::txsubmission::CHANNEL_ID);
net2!(pallas_network2::protocol::keepalive::Message, KeepAlive, pallas_network2::protocol::keepalive::CHANNEL_ID);
net2!(pallas_network2::protocol::peersharing::Message, PeerSharing, pallas_network2::protocol::peersharing::CHANNEL_ID);
net2!(pallas_network2::protocol::leiosnotify::Message, LeiosNotify, pallas_network2::protocol::leiosnotify::CHANNEL_ID);
net2!(pallas_network2::protocol::leiosfetch::Message, LeiosFetch, pallas_network2::protocol::leiosfetch::CHANNEL_ID);

macro_rules! with_net2 {
    ($p:expr, $f:ident ( $($a:expr),* )) => {
        match $p {
            Proto::N2HandshakeN2N => $f::<msgs::N2HsN2N>($($a),*),
            Proto::N2ChainSyncHeader => $f::<msgs::N2CsHeader>($($a),*),
            Proto::N2BlockFetch => $f::<pallas_network2::protocol::blockfetch::Message>($($a),*),
            Proto::N2TxSubmission => $f::<pallas_network2::protocol::txsubmission::Message>($($a),*),
            Proto::N2KeepAlive => $f::<pallas_network2::protocol::keepalive::Message>($($a),*),
            Proto::N2PeerSharing => $f::<pallas_network2::protocol::peersharing::Message>($($a),*),
            Proto::N2LeiosNotify => $f::<pallas_network2::protocol::leiosnotify::Message>($($a),*),
            Proto::N2LeiosFetch => $f::<pallas_network2::protocol::leiosfetch::Message>($($a),*),
            _ => Ok(()),
        }
    };
}

// ---------------------------------------------------------------------------------------------
// building the stream
// ---------------------------------------------------------------------------------------------

struct Built<M> {
    msgs: Vec<M>,
    names: Vec<String>,
    encs: Vec<Vec<u8>>,
    /// message start offsets plus the total length
    bounds: Vec<usize>,
    stream: Vec<u8>,
}

/// Messages whose own codec does not round-trip them in isolation are outside C21's domain (that
/// is C22's subject) and are left out of the sequence.
fn build_seq<M: Wire>(c: &Case, obs: &mut Obs) -> Built<M> {
    let mut b = Built { msgs: vec![], names: vec![], encs: vec![], bounds: vec![0], stream: vec![] };
    for r in &c.msgs {
        let v = (r.variant as usize).min(M::VARIANTS.len() - 1);
        let mut s = Src::new(r);
        s.big = c.big;
        s.force_big = c.big;
        let m = M::build(v, &mut s);
        let Ok(enc) = minicbor::to_vec(&m) else {
            obs.class("dropped:encode-error");
            continue;
        };
        let mut d = minicbor::Decoder::new(&enc);
        let ok = match d.decode::<M>() {
            Ok(back) => d.position() == enc.len() && m.same(&back),
            Err(_) => false,
        };
        if !ok {
            obs.class("dropped:not-roundtripping-in-isolation");
            continue;
        }
        b.names.push(format!("{}:{}", M::NAME, M::VARIANTS[v]));
        b.stream.extend_from_slice(&enc);
        b.bounds.push(b.stream.len());
        b.encs.push(enc);
        b.msgs.push(m);
    }
    b
}

fn sentinel<M: Wire>() -> (M, Vec<u8>) {
    let r = MsgRecipe { variant: M::SENTINEL as u8, ent: vec![], sel: vec![], blob: vec![] };
    let m = M::build(M::SENTINEL, &mut Src::new(&r));
    let e = minicbor::to_vec(&m).expect("sentinel encodes");
    (m, e)
}

/// cut plans (each plan = sorted cut positions strictly inside 1..len)
fn plans(split: &Split, len: usize, bounds: &[usize], bytes1_max: usize) -> Vec<Vec<usize>> {
    if len < 2 {
        return vec![vec![]];
    }
    match split {
        Split::Whole => vec![vec![]],
        Split::FullSegmentEndsMessage => {
            let mut out: Vec<Vec<usize>> = bounds
                .iter()
                .filter(|b| **b >= 65535 && **b <= len)
                .map(|b| [*b - 65535, *b].into_iter().filter(|p| *p >= 1 && *p < len).collect())
                .collect();
            if out.is_empty() {
                out.push(vec![]);
            }
            out
        }
        Split::AllSingles => {
            let mut pos: Vec<usize> = if len <= 64 {
                (1..len).collect()
            } else {
                let mut v = vec![];
                for b in bounds {
                    for d in [-1i64, 0, 1] {
                        let p = *b as i64 + d;
                        if p >= 1 && (p as usize) < len {
                            v.push(p as usize);
                        }
                    }
                }
                for i in 1..=16 {
                    v.push((len * i / 17).clamp(1, len - 1));
                }
                v
            };
            pos.sort();
            pos.dedup();
            pos.into_iter().map(|p| vec![p]).collect()
        }
        Split::Bytes1 => {
            let step = if len <= bytes1_max { 1 } else { len.div_ceil(bytes1_max) };
            vec![(1..len).filter(|p| p % step == 0).collect()]
        }
        Split::Random(sel) => {
            let mut v: Vec<usize> = sel.iter().map(|s| 1 + pvkit::pick_idx(*s, len - 1)).collect();
            v.sort();
            v.dedup();
            vec![v]
        }
    }
}

fn segments(stream: &[u8], cuts: &[usize]) -> Vec<Vec<u8>> {
    let mut out = vec![];
    let mut prev = 0;
    for &c in cuts.iter().chain(std::iter::once(&stream.len())) {
        if c <= prev {
            continue;
        }
        for ch in stream[prev..c].chunks(65535) {
            out.push(ch.to_vec());
        }
        prev = c;
    }
    out
}

/// byte offsets (within one encoded message) that lie strictly inside a byte/text string body,
/// and offsets of break bytes
fn structure(enc: &[u8]) -> (Vec<(usize, usize)>, Vec<usize>) {
    fn walk(n: &Node, strs: &mut Vec<(usize, usize)>, brk: &mut Vec<usize>) {
        match &n.k {
            Kind::Bytes(s) | Kind::Text(s) => {
                strs.push((n.s, n.e));
                if let Str::Indef(_) = s {
                    brk.push(n.e - 1);
                }
            }
            Kind::Array(items, l) => {
                for i in items {
                    walk(i, strs, brk);
                }
                if *l == Len::Indef {
                    brk.push(n.e - 1);
                }
            }
            Kind::Map(items, l) => {
                for (k, v) in items {
                    walk(k, strs, brk);
                    walk(v, strs, brk);
                }
                if *l == Len::Indef {
                    brk.push(n.e - 1);
                }
            }
            Kind::Tag(_, _, i) => walk(i, strs, brk),
            _ => {}
        }
    }
    let mut strs = vec![];
    let mut brk = vec![];
    if let Ok(n) = cborx::read(enc) {
        walk(&n, &mut strs, &mut brk);
    }
    (strs, brk)
}

/// classify the cuts of one plan; returns true when some cut is strictly inside a message
fn classify<M>(b: &Built<M>, cuts: &[usize], obs: &mut Obs) -> bool {
    let mut inside = false;
    for &c in cuts {
        if b.bounds.contains(&c) {
            obs.class("cut:at-message-boundary");
            continue;
        }
        inside = true;
        obs.class("cut:inside-message");
        let i = b.bounds.iter().rposition(|x| *x < c).unwrap_or(0);
        let off = c - b.bounds[i];
        let (strs, brk) = structure(&b.encs[i]);
        if strs.iter().any(|(s, e)| off > *s && off < *e) {
            obs.class("cut:inside-string");
        }
        if brk.contains(&off) {
            obs.class("cut:before-break");
        }
        if off == 1 {
            obs.class("cut:after-first-byte");
        }
    }
    if cuts.is_empty() {
        obs.class("cut:none");
    }
    inside
}

// ---------------------------------------------------------------------------------------------
// outcome comparison (shared by the three pipelines)
// ---------------------------------------------------------------------------------------------

enum Stop {
    /// the receiver reported an error while producing message `got.len()`
    Error(String),
    /// the receiver wants more bytes although everything was delivered
    Starved,
    /// the receiver finished normally
    Done,
}

fn judge<M: Wire>(
    stack: &str,
    b: &Built<M>,
    extra: Option<&M>,
    got: &[M],
    stop: Stop,
    leftover: usize,
    cuts: &[usize],
) -> Result<(), Fail> {
    let n = b.msgs.len();
    let blame = |i: usize| -> String {
        if i < n {
            b.names[i].clone()
        } else {
            format!("{}(followed-by-sentinel)", b.names[n - 1])
        }
    };
    let ctx = || {
        format!(
            "stream of {} message(s) {:?} = {} cut at {:?}",
            n,
            b.names,
            short_hex(&b.stream),
            if cuts.len() > 24 { &cuts[..24] } else { cuts }
        )
    };
    let total = n + extra.is_some() as usize;
    for (i, g) in got.iter().enumerate() {
        let exp = if i < n { Some(&b.msgs[i]) } else if i == n { extra } else { None };
        match exp {
            Some(e) if e.same(g) => {}
            Some(e) => {
                return Err(Fail {
                    sig: format!("{stack}:wrong-message:{}", blame(i)),
                    msg: format!("message #{i} was received as {} instead of {}; {}", short_dbg(g), short_dbg(e), ctx()),
                })
            }
            None => {
                return Err(Fail {
                    sig: format!("{stack}:surplus-message:{}", blame(n.saturating_sub(1))),
                    msg: format!("received {} messages, expected {total}: surplus {}; {}", got.len(), short_dbg(g), ctx()),
                })
            }
        }
    }
    match stop {
        Stop::Error(e) => Err(Fail {
            sig: format!("{stack}:decode-error:{}", blame(got.len().min(total.saturating_sub(1)))),
            msg: format!("receiver failed after {} of {total} messages: {e}; {}", got.len(), ctx()),
        }),
        Stop::Starved => Err(Fail {
            sig: format!("{stack}:starved:{}", blame(got.len().min(total.saturating_sub(1)))),
            msg: format!(
                "all {} bytes were delivered but the receiver produced only {} of {total} messages and waits for more ({} bytes stuck); {}",
                b.stream.len(),
                got.len(),
                leftover,
                ctx()
            ),
        }),
        Stop::Done => {
            if got.len() < total {
                return Err(Fail {
                    sig: format!("{stack}:starved:{}", blame(got.len())),
                    msg: format!("receiver produced only {} of {total} messages ({} bytes left over); {}", got.len(), leftover, ctx()),
                });
            }
            if leftover != 0 {
                return Err(Fail {
                    sig: format!("{stack}:leftover:{}", blame(n - 1)),
                    msg: format!("{leftover} bytes left over after all messages were received; {}", ctx()),
                });
            }
            Ok(())
        }
    }
}

// ---------------------------------------------------------------------------------------------
// net1
// ---------------------------------------------------------------------------------------------

enum Harness {
    Timeout,
    Io(String),
}

const P_DATA: u16 = 5;
const P_FIN: u16 = 0x0777;

async fn net1_once<M: Wire>(
    segs: Vec<Vec<u8>>,
    total: usize,
    sentinel_bytes: Vec<u8>,
) -> Result<(Vec<M>, Stop), Harness> {
    let (a, b) = tokio::net::UnixStream::pair().map_err(|e| Harness::Io(e.to_string()))?;
    let mut pa = mux1::Plexer::new(mux1::Bearer::Unix(a));
    let mut pb = mux1::Plexer::new(mux1::Bearer::Unix(b));
    let mut tx = pa.subscribe_client(P_DATA);
    let mut fin_tx = pa.subscribe_client(P_FIN);
    let rx = pb.subscribe_server(P_DATA);
    let mut fin_rx = pb.subscribe_server(P_FIN);
    let ra = pa.spawn();
    let rb = pb.spawn();
    // two phases: first only the data segments (then a marker on another protocol), and only after the receiver has
    // produced every data message the sentinel message. A receiver that holds a complete message back until more bytes
    // arrive is caught in the first phase; bytes that it wrongly keeps or drops are caught by the sentinel in the second.
    let (go_tx, go_rx) = tokio::sync::oneshot::channel::<()>();
    let sender = tokio::spawn(async move {
        for seg in segs {
            tx.enqueue_chunk(seg).await.map_err(|e| e.to_string())?;
        }
        fin_tx.enqueue_chunk(vec![0xf0]).await.map_err(|e| e.to_string())?;
        let _ = go_rx.await;
        tx.enqueue_chunk(sentinel_bytes).await.map_err(|e| e.to_string())?;
        fin_tx.enqueue_chunk(vec![0xf1]).await.map_err(|e| e.to_string())?;
        // keep the channels alive until the run is over
        Ok::<_, String>((tx, fin_tx))
    });
    let mut buf = mux1::ChannelBuffer::new(rx);
    // messages received so far (observable even while the receiver future is pending)
    let got: std::cell::RefCell<Vec<M>> = std::cell::RefCell::new(vec![]);
    let mut stop = Stop::Done;
    let mut go_tx = Some(go_tx);
    for (phase, want) in [(0usize, total - 1), (1, 1)] {
        let recv = tokio::task::unconstrained(async {
            for _ in 0..want {
                match buf.recv_full_msg::<M>().await {
                    Ok(m) => got.borrow_mut().push(m),
                    Err(e) => return Some(format!("{e}: {e:?}")),
                }
            }
            None
        });
        tokio::pin!(recv);
        let first = tokio::select! {
            biased;
            r = &mut recv => Some(r),
            f = fin_rx.dequeue_chunk() => {
                if let Err(e) = f {
                    return Err(Harness::Io(format!("FIN channel closed: {e}")));
                }
                None
            }
        };
        let marker_pending = first.is_some();
        let st = match first {
            Some(None) => Stop::Done,
            Some(Some(e)) => Stop::Error(e),
            None => {
                // every chunk of this phase is now in the receiver's queue: one more poll must complete it
                let p = std::future::poll_fn(|cx| Poll::Ready(recv.as_mut().poll(cx))).await;
                match p {
                    Poll::Ready(None) => Stop::Done,
                    Poll::Ready(Some(e)) => Stop::Error(e),
                    Poll::Pending => Stop::Starved,
                }
            }
        };
        let done = matches!(st, Stop::Done);
        stop = st;
        if !done {
            break;
        }
        if phase == 0 {
            // the receiver finished before the marker was looked at: take the marker off its queue, then let the sentinel go
            if marker_pending {
                if let Err(e) = fin_rx.dequeue_chunk().await {
                    return Err(Harness::Io(format!("FIN channel closed: {e}")));
                }
            }
            if let Some(g) = go_tx.take() {
                let _ = g.send(());
            }
        }
    }
    let out = (got.take(), stop);
    sender.abort();
    ra.abort().await;
    rb.abort().await;
    Ok(out)
}

fn runtime() -> tokio::runtime::Runtime {
    tokio::runtime::Builder::new_current_thread().enable_all().build().expect("tokio runtime")
}

const CASE_TIMEOUT: Duration = Duration::from_secs(30);

fn net1_case<M: Wire>(sess: &Session, c: &Case, obs: &mut Obs) -> Result<(), Fail> {
    let b = build_seq::<M>(c, obs);
    if b.msgs.is_empty() {
        obs.discard();
        return Ok(());
    }
    obs.class(format!("seq:{}", M::NAME));
    for n in &b.names {
        obs.class(format!("in-seq:{n}"));
    }
    let (sent, sent_bytes) = sentinel::<M>();
    let rt = runtime();
    let mut nontrivial = false;
    for cuts in plans(&c.split, b.stream.len(), &b.bounds, 600) {
        nontrivial |= classify(&b, &cuts, obs);
        let segs = segments(&b.stream, &cuts);
        if segs.iter().any(|s| s.len() == 65535) {
            obs.class("segment:65535");
        }
        obs.class("net1-run");
        let total = b.msgs.len() + 1;
        let r = rt.block_on(async {
            match tokio::time::timeout(CASE_TIMEOUT, net1_once::<M>(segs, total, sent_bytes.clone())).await {
                Ok(r) => r,
                Err(_) => Err(Harness::Timeout),
            }
        });
        match r {
            Err(Harness::Timeout) => {
                sess.health(false, "net1 run exceeded the 30 s case timeout (inconclusive, not a violation)");
                obs.discard();
                return Ok(());
            }
            Err(Harness::Io(e)) => {
                sess.health(false, &format!("net1 harness I/O problem: {e}"));
                obs.discard();
                return Ok(());
            }
            Ok((got, stop)) => {
                judge("net1", &b, Some(&sent), &got, stop, 0, &cuts)?;
            }
        }
    }
    obs.nontrivial_if(nontrivial);
    Ok(())
}

fn net1_check(sess: &Session, c: &Case, obs: &mut Obs) -> Result<(), Fail> {
    with_proto!(c.proto, net1_case(sess, c, obs))
}

// ---------------------------------------------------------------------------------------------
// net2
// ---------------------------------------------------------------------------------------------

fn unwrap_all<M: Net2>(stack: &str, anys: Vec<AnyMessage>) -> Result<Vec<M>, Fail> {
    let mut out = vec![];
    for a in anys {
        match M::from_any(a) {
            Ok(m) => out.push(m),
            Err(o) => {
                return Err(Fail {
                    sig: format!("{stack}:wrong-protocol:{}", M::NAME),
                    msg: format!("channel {} produced a message of another protocol: {}", M::CHANNEL, short_dbg(&o)),
                })
            }
        }
    }
    Ok(out)
}

fn net2_direct_case<M: Net2>(c: &Case, obs: &mut Obs) -> Result<(), Fail> {
    let b = build_seq::<M>(c, obs);
    if b.msgs.is_empty() {
        obs.discard();
        return Ok(());
    }
    obs.class(format!("seq:{}", M::NAME));
    for n in &b.names {
        obs.class(format!("in-seq:{n}"));
    }
    let mut nontrivial = false;
    for cuts in plans(&c.split, b.stream.len(), &b.bounds, 3000) {
        nontrivial |= classify(&b, &cuts, obs);
        obs.class("net2-direct-run");
        let mut payload: Vec<u8> = vec![];
        let mut anys = vec![];
        for seg in segments(&b.stream, &cuts) {
            payload.extend_from_slice(&seg);
            while let Some(m) = AnyMessage::from_payload(M::CHANNEL, &mut payload) {
                anys.push(m);
            }
        }
        let got = unwrap_all::<M>("net2-direct", anys)?;
        judge("net2-direct", &b, None, &got, Stop::Done, payload.len(), &cuts)?;
    }
    obs.nontrivial_if(nontrivial);
    Ok(())
}

fn net2_direct_check(c: &Case, obs: &mut Obs) -> Result<(), Fail> {
    with_net2!(c.proto, net2_direct_case(c, obs))
}

async fn net2_bearer_once(
    channel: u16,
    segs: Vec<Vec<u8>>,
) -> Result<(Vec<AnyMessage>, Option<String>, usize), Harness> {
    use pallas_network2::bearer::Bearer;
    let (a, b) = tokio::net::UnixStream::pair().map_err(|e| Harness::Io(e.to_string()))?;
    let (_ra, mut wa) = Bearer::Unix(a).into_split();
    let (mut rb, _wb) = Bearer::Unix(b).into_split();
    let n = segs.len();
    let writer = tokio::spawn(async move {
        for (i, seg) in segs.iter().enumerate() {
            wa.write_segment(channel, i as u32, seg).await.map_err(|e| e.to_string())?;
        }
        Ok::<_, String>(wa)
    });
    let mut partial: HashMap<u16, Vec<u8>> = HashMap::new();
    let mut got = vec![];
    let mut err = None;
    for _ in 0..n {
        match rb.read_full_msgs::<AnyMessage>(&mut partial).await {
            Ok(ms) => got.extend(ms),
            Err(e) => {
                err = Some(e.to_string());
                break;
            }
        }
    }
    match writer.await {
        Ok(Ok(_)) => {}
        Ok(Err(e)) => return Err(Harness::Io(format!("writer: {e}"))),
        Err(e) => return Err(Harness::Io(format!("writer task: {e}"))),
    }
    let leftover = partial.values().map(|v| v.len()).sum();
    Ok((got, err, leftover))
}

fn net2_bearer_case<M: Net2>(sess: &Session, c: &Case, obs: &mut Obs) -> Result<(), Fail> {
    let b = build_seq::<M>(c, obs);
    if b.msgs.is_empty() {
        obs.discard();
        return Ok(());
    }
    obs.class(format!("seq:{}", M::NAME));
    for n in &b.names {
        obs.class(format!("in-seq:{n}"));
    }
    let channel = M::CHANNEL | if c.server_bit { 0x8000 } else { 0 };
    let rt = runtime();
    let mut nontrivial = false;
    for cuts in plans(&c.split, b.stream.len(), &b.bounds, 600) {
        nontrivial |= classify(&b, &cuts, obs);
        let segs = segments(&b.stream, &cuts);
        if segs.iter().any(|s| s.len() == 65535) {
            obs.class("segment:65535");
        }
        obs.class("net2-bearer-run");
        let r = rt.block_on(async {
            match tokio::time::timeout(CASE_TIMEOUT, net2_bearer_once(channel, segs)).await {
                Ok(r) => r,
                Err(_) => Err(Harness::Timeout),
            }
        });
        match r {
            Err(Harness::Timeout) => {
                sess.health(false, "net2 bearer run exceeded the 30 s case timeout (inconclusive, not a violation)");
                obs.discard();
                return Ok(());
            }
            Err(Harness::Io(e)) => {
                sess.health(false, &format!("net2 harness I/O problem: {e}"));
                obs.discard();
                return Ok(());
            }
            Ok((anys, err, leftover)) => {
                let got = unwrap_all::<M>("net2-bearer", anys)?;
                let stop = match err {
                    Some(e) => Stop::Error(e),
                    None => Stop::Done,
                };
                judge("net2-bearer", &b, None, &got, stop, leftover, &cuts)?;
            }
        }
    }
    obs.nontrivial_if(nontrivial);
    Ok(())
}

fn net2_bearer_check(sess: &Session, c: &Case, obs: &mut Obs) -> Result<(), Fail> {
    with_net2!(c.proto, net2_bearer_case(sess, c, obs))
}

// ---------------------------------------------------------------------------------------------
// generators
// ---------------------------------------------------------------------------------------------

fn split() -> impl Strategy<Value = Split> {
    prop_oneof![
        3 => Just(Split::AllSingles),
        2 => Just(Split::Bytes1),
        4 => prop::collection::vec(any::<u16>(), 1..24).prop_map(Split::Random),
        1 => Just(Split::Whole),
        1 => Just(Split::FullSegmentEndsMessage),
    ]
}

fn seq_case(protos: &'static [Proto]) -> impl Strategy<Value = Case> {
    let n = prop_oneof![2 => 1usize..=2, 2 => 1usize..=5, 1 => 1usize..=12];
    (prop::sample::select(protos.to_vec()), n)
        .prop_flat_map(|(p, n)| {
            (
                Just(p),
                prop::collection::vec(recipe(msgs::nvariants(p)), n..=n),
                split(),
                prop::bool::weighted(0.02),
                any::<bool>(),
            )
        })
        .prop_map(|(proto, msgs, split, big, server_bit)| Case { proto, msgs, split, big, server_bit })
}

/// hand-built short streams: every variant alone and every ordered pair of variants of a protocol
/// (zero recipes), all single cut positions
fn pair_family(protos: &[Proto]) -> Vec<Case> {
    let mut out = vec![];
    let zero = |v: usize| MsgRecipe { variant: v as u8, ent: vec![], sel: vec![], blob: vec![] };
    let some = |v: usize| MsgRecipe {
        variant: v as u8,
        ent: vec![1, 300, 70000, 5, u64::MAX],
        sel: vec![0xffff, 0x9000, 0x4000, 0xd000, 0x8000, 0x3000, 0xffff, 0x6000],
        blob: vec![0xca, 0xfe, 0x01, 0x02, 0x03],
    };
    for &p in protos {
        let n = msgs::nvariants(p);
        for a in 0..n {
            for r in [zero(a), some(a)] {
                out.push(Case { proto: p, msgs: vec![r], split: Split::AllSingles, big: false, server_bit: false });
            }
            // a message with a byte string beyond one segment, alone and followed by a small one, cut so that a full segment
            // ends exactly where the big message ends
            for sel0 in [0x0000u16, 0x5000, 0x9000, 0xd000] {
                let mut big = some(a);
                big.sel[0] = sel0;
                out.push(Case { proto: p, msgs: vec![big.clone()], split: Split::FullSegmentEndsMessage, big: true, server_bit: false });
                out.push(Case { proto: p, msgs: vec![big, zero(a)], split: Split::FullSegmentEndsMessage, big: true, server_bit: a % 2 == 0 });
            }
            for bb in 0..n {
                out.push(Case { proto: p, msgs: vec![zero(a), zero(bb)], split: Split::AllSingles, big: false, server_bit: a % 2 == 1 });
                out.push(Case { proto: p, msgs: vec![some(a), zero(bb)], split: Split::Whole, big: false, server_bit: false });
            }
        }
    }
    out
}

pub fn run(s: &Session) {
    s.set_rule(
        "case = (protocol, 1..12 message recipes from the C22 generators, split plan, flags). Messages that do not \
         round-trip through their own codec in isolation are left out of the sequence (C22's subject). Split plans: \
         AllSingles (every single cut position for streams <= 64 bytes, else message boundaries +-1 and 16 spread \
         positions; one run per position), Bytes1 (all one-byte segments), Random (1..24 cut positions), Whole; \
         segments are at most 65535 bytes. Plus the enumerated family {every variant alone, every ordered pair of \
         variants} x all single cuts. Non-trivial = at least one run of the case has a cut strictly inside a message \
         (classes additionally record cuts inside a byte/text string and directly before a break byte); distinct = \
         distinct serialised case",
    );
    s.assume("the tokio unix socket pair delivers bytes in order (the multiplexer itself is C20's subject)");
    s.assume("any sequence of messages of one protocol may follow each other on a channel (pipelining); protocol state is not modelled here");

    // net1
    s.foreach("net1-pairs", pair_family(&N1_PROTOS), false, |c, o| net1_check(s, c, o));
    s.forall("net1-plexer", s.pick(5_000, 100_000), || seq_case(&N1_PROTOS), |c, o| net1_check(s, c, o));
    // net2
    s.foreach("net2-pairs-direct", pair_family(&N2_PROTOS), false, net2_direct_check);
    s.forall("net2-from-payload", s.pick(5_000, 100_000), || seq_case(&N2_PROTOS), net2_direct_check);
    s.foreach("net2-pairs-bearer", pair_family(&N2_PROTOS), false, |c, o| net2_bearer_check(s, c, o));
    s.forall("net2-bearer", s.pick(3_000, 60_000), || seq_case(&N2_PROTOS), |c, o| net2_bearer_check(s, c, o));

    if !s.replaying() {
        for c in ["cut:inside-message", "cut:inside-string", "cut:before-break", "cut:at-message-boundary", "cut:after-first-byte", "segment:65535"] {
            s.health(s.class_count(c) > 0, &format!("split class never generated: {c}"));
        }
        let mut missing = vec![];
        for p in N1_PROTOS.iter().chain(N2_PROTOS.iter()) {
            let c = format!("seq:{}", msgs::proto_name(*p));
            if s.class_count(&c) == 0 {
                missing.push(c);
            }
        }
        s.health(missing.is_empty(), &format!("protocols never exercised: {missing:?}"));
    }
}
