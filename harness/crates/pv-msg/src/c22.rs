//! C22 — every mini-protocol message encodes to exactly one well-formed CBOR item and round-trips
//! (DESIGN §C22). Oracle: pvkit::cborx (strict, independent reader) + decode/compare/re-encode.
use proptest::prelude::*;
use pvkit::{Fail, Obs, Session};
use serde::{Deserialize, Serialize};

use crate::msgs::{self, Proto, Wire, ALL_PROTOS};
use crate::src::{check_value, recipe, MsgRecipe, Src};
use crate::with_proto;

#[derive(Debug, Clone, Serialize, Deserialize)]
pub struct Case {
    pub proto: Proto,
    pub msg: MsgRecipe,
}

fn check_one<M: Wire>(r: &MsgRecipe, obs: &mut Obs) -> Result<(), Fail> {
    let v = (r.variant as usize).min(M::VARIANTS.len() - 1);
    let mut s = Src::new(r);
    let m = M::build(v, &mut s);
    let name = format!("{}:{}", M::NAME, M::VARIANTS[v]);
    obs.class(name.clone());
    for f in &s.features {
        obs.class(format!("{}+{}", M::NAME, f));
    }
    if s.parts > 0 {
        obs.class("has-nested-part");
    }
    // nested payloads first: the innermost failing component names the root cause
    if let Some(f) = s.part_fail.take() {
        return Err(f);
    }
    let bytes = check_value(&name, &m, |a, b| a.same(b))?;
    if bytes.len() > 2 {
        // distinct = distinct (message type, encoding)
        let mut key = name.into_bytes();
        key.extend_from_slice(&bytes);
        obs.nontrivial_key(pvkit::fnv64(&key));
    }
    Ok(())
}

pub fn check(c: &Case, obs: &mut Obs) -> Result<(), Fail> {
    with_proto!(c.proto, check_one(&c.msg, obs))
}

fn any_case() -> impl Strategy<Value = Case> {
    prop::sample::select(ALL_PROTOS.to_vec())
        .prop_flat_map(|p| (Just(p), recipe(msgs::nvariants(p))))
        .prop_map(|(proto, msg)| Case { proto, msg })
}

/// cases pinned to one (protocol, variant): used to give the deep payload trees enough budget
fn pinned(proto: Proto, variants: &'static [u8]) -> impl Strategy<Value = Case> {
    (prop::sample::select(variants.to_vec()), recipe(1)).prop_map(move |(v, mut msg)| {
        msg.variant = v;
        Case { proto, msg }
    })
}

pub fn run(s: &Session) {
    s.set_rule(
        "case = (protocol instantiation, variant index, value pools); the pallas message is built inside the \
         check from the recipe, restricted to representable field combinations (N2N version data: peer_sharing and \
         query both present or both absent; header content: byron prefix iff variant 0; AnyUInt in its own width \
         class; TxValidationError: only the variant whose encoder exists; AnyCbor fields: one well-formed item in any \
         syntactic form). Sub-checks: every (protocol, variant) with the all-zero recipe (complete over variants), a \
         uniform search over all 23 message types, and pinned searches for the typed local-state payloads and the \
         local-tx rejection tree. Nested payload values with their own codec are checked individually first. \
         Non-trivial = the encoding is longer than two bytes (the message carries at least one field); distinct = \
         distinct (message type, encoded bytes)",
    );
    s.assume("pvkit::cborx is a correct strict RFC 8949 well-formedness reader (self-tested; shares no code with minicbor)");
    s.assume("`Debug` renderings / derived `PartialEq` of pallas message types are faithful (used only to compare a value with its decoded copy; re-encoding equality is checked as well)");

    // 1. every variant of every message type at least once, deterministically
    let mut all = vec![];
    for p in ALL_PROTOS {
        for v in 0..msgs::nvariants(p) {
            all.push(Case { proto: p, msg: MsgRecipe { variant: v as u8, ent: vec![], sel: vec![], blob: vec![] } });
            all.push(Case {
                proto: p,
                msg: MsgRecipe {
                    variant: v as u8,
                    ent: vec![1, 24, 256, 65536, 1 << 32, u64::MAX, 7, 3],
                    sel: vec![0xffff, 0x8000, 0x4000, 0xc000, 0xffff, 0x9000, 0x2000, 0xe000, 0xffff, 0x8000, 0xa000, 0xffff],
                    blob: vec![0xde, 0xad, 0xbe, 0xef],
                },
            });
        }
    }
    s.foreach("every-variant", all, false, check);

    // 2. uniform search over all message types
    s.forall("all-messages", s.pick(150_000, 3_000_000), any_case, check);

    // 3. deep payload trees
    s.forall("localtx-reject-tree", s.pick(60_000, 1_500_000), || pinned(Proto::N1LocalTxSubmission, &[2]), check);
    s.forall("localstate-typed-payloads", s.pick(40_000, 1_000_000), || pinned(Proto::N1LocalState, &[5, 7]), check);
    s.forall(
        "peer-addresses",
        s.pick(10_000, 200_000),
        || prop_oneof![pinned(Proto::N1PeerSharing, &[1]), pinned(Proto::N2PeerSharing, &[1])],
        check,
    );

    if !s.replaying() {
        let mut missing = vec![];
        for p in ALL_PROTOS {
            for v in msgs::proto_variants(p) {
                let c = format!("{}:{}", msgs::proto_name(p), v);
                if s.class_count(&c) < 2 {
                    missing.push(c);
                }
            }
        }
        s.health(missing.is_empty(), &format!("message variants never generated: {missing:?}"));
        for f in ["net1/peersharing+peer:V6", "net1/peersharing+peer:V4", "net2/peersharing+peer:V6", "net2/peersharing+peer:V4",
            "net1/chainsync-header+header:byron", "net2/chainsync-header+header:byron", "net1/handshake-n2n+version-table:multi",
            "net2/leiosnotify+anycbor:non-plain"] {
            s.health(s.class_count(f) > 0, &format!("feature class never generated: {f}"));
        }
    }
}
