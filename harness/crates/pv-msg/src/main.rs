mod c21;
mod c22;
mod msgs;
mod payloads;
mod src;

use pvkit::session::CheckDef;

fn main() {
    pvkit::main(&[
        CheckDef { id: "C21", level: "exploration", run: c21::run },
        CheckDef { id: "C22", level: "exploration", run: c22::run },
    ]);
}
