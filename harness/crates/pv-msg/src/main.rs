fn main() {
    pvkit::main(&[]);
}
