//! C22 generators: every variant of every mini-protocol message type of both stacks, built from a
//! plain-data recipe (`MsgRecipe`) inside the check closure. Field combinations are restricted to
//! the representable ones (see the comments at each builder).
use std::collections::{BTreeMap, HashMap};
use std::fmt::Debug;
use std::net::{Ipv4Addr, Ipv6Addr};

use pallas_codec::minicbor::{Decode, Encode};
use pallas_codec::utils::{AnyCbor, Bytes, TagWrap};
use pallas_network::miniprotocols as n1;
use pallas_network2::protocol as n2;
use serde::{Deserialize, Serialize};

use crate::payloads as pl;
use crate::src::Src;

/// One concrete message type (a protocol instantiation) of one of the two stacks.
pub trait Wire: Sized + Debug + Send + 'static + Encode<()> + for<'b> Decode<'b, ()> {
    const NAME: &'static str;
    const VARIANTS: &'static [&'static str];
    /// variant used as the C21 end-of-stream sentinel (built from an empty recipe)
    const SENTINEL: usize;
    fn build(variant: usize, s: &mut Src) -> Self;
    /// structural equality that does not depend on `HashMap` iteration order
    fn same(&self, o: &Self) -> bool {
        format!("{self:?}") == format!("{o:?}")
    }
}

#[derive(Debug, Clone, Copy, PartialEq, Eq, Hash, PartialOrd, Ord, Serialize, Deserialize)]
pub enum Proto {
    N1HandshakeN2N,
    N1HandshakeN2C,
    N1ChainSyncHeader,
    N1ChainSyncBlock,
    N1BlockFetch,
    N1TxSubmission,
    N1KeepAlive,
    N1PeerSharing,
    N1LocalState,
    N1LocalTxSubmission,
    N1TxMonitor,
    N1LocalMsgSubmission,
    N1LocalMsgNotification,
    N2HandshakeN2N,
    N2HandshakeN2C,
    N2ChainSyncHeader,
    N2ChainSyncBlock,
    N2BlockFetch,
    N2TxSubmission,
    N2KeepAlive,
    N2PeerSharing,
    N2LeiosNotify,
    N2LeiosFetch,
}

pub const ALL_PROTOS: [Proto; 23] = [
    Proto::N1HandshakeN2N,
    Proto::N1HandshakeN2C,
    Proto::N1ChainSyncHeader,
    Proto::N1ChainSyncBlock,
    Proto::N1BlockFetch,
    Proto::N1TxSubmission,
    Proto::N1KeepAlive,
    Proto::N1PeerSharing,
    Proto::N1LocalState,
    Proto::N1LocalTxSubmission,
    Proto::N1TxMonitor,
    Proto::N1LocalMsgSubmission,
    Proto::N1LocalMsgNotification,
    Proto::N2HandshakeN2N,
    Proto::N2HandshakeN2C,
    Proto::N2ChainSyncHeader,
    Proto::N2ChainSyncBlock,
    Proto::N2BlockFetch,
    Proto::N2TxSubmission,
    Proto::N2KeepAlive,
    Proto::N2PeerSharing,
    Proto::N2LeiosNotify,
    Proto::N2LeiosFetch,
];

pub type N1HsN2N = n1::handshake::Message<n1::handshake::n2n::VersionData>;
pub type N1HsN2C = n1::handshake::Message<n1::handshake::n2c::VersionData>;
pub type N1CsHeader = n1::chainsync::Message<n1::chainsync::HeaderContent>;
pub type N1CsBlock = n1::chainsync::Message<n1::chainsync::BlockContent>;
pub type N1TxSub = n1::txsubmission::Message<n1::txsubmission::EraTxId, n1::txsubmission::EraTxBody>;
pub type N1LocalTx = n1::localtxsubmission::Message<n1::localtxsubmission::EraTx, n1::localtxsubmission::TxValidationError>;
pub type N1LocalMsg =
    n1::localtxsubmission::Message<n1::localmsgsubmission::DmqMsg, n1::localmsgsubmission::DmqMsgValidationError>;
pub type N2HsN2N = n2::handshake::Message<n2::handshake::n2n::VersionData>;
pub type N2HsN2C = n2::handshake::Message<n2::handshake::n2c::VersionData>;
pub type N2CsHeader = n2::chainsync::Message<n2::chainsync::HeaderContent>;
pub type N2CsBlock = n2::chainsync::Message<n2::chainsync::BlockContent>;

/// Run a generic function with the message type of `proto`.
#[macro_export]
macro_rules! with_proto {
    ($p:expr, $f:ident ( $($a:expr),* )) => {
        match $p {
            $crate::msgs::Proto::N1HandshakeN2N => $f::<$crate::msgs::N1HsN2N>($($a),*),
            $crate::msgs::Proto::N1HandshakeN2C => $f::<$crate::msgs::N1HsN2C>($($a),*),
            $crate::msgs::Proto::N1ChainSyncHeader => $f::<$crate::msgs::N1CsHeader>($($a),*),
            $crate::msgs::Proto::N1ChainSyncBlock => $f::<$crate::msgs::N1CsBlock>($($a),*),
            $crate::msgs::Proto::N1BlockFetch => $f::<pallas_network::miniprotocols::blockfetch::Message>($($a),*),
            $crate::msgs::Proto::N1TxSubmission => $f::<$crate::msgs::N1TxSub>($($a),*),
            $crate::msgs::Proto::N1KeepAlive => $f::<pallas_network::miniprotocols::keepalive::Message>($($a),*),
            $crate::msgs::Proto::N1PeerSharing => $f::<pallas_network::miniprotocols::peersharing::Message>($($a),*),
            $crate::msgs::Proto::N1LocalState => $f::<pallas_network::miniprotocols::localstate::Message>($($a),*),
            $crate::msgs::Proto::N1LocalTxSubmission => $f::<$crate::msgs::N1LocalTx>($($a),*),
            $crate::msgs::Proto::N1TxMonitor => $f::<pallas_network::miniprotocols::txmonitor::Message>($($a),*),
            $crate::msgs::Proto::N1LocalMsgSubmission => $f::<$crate::msgs::N1LocalMsg>($($a),*),
            $crate::msgs::Proto::N1LocalMsgNotification => $f::<pallas_network::miniprotocols::localmsgnotification::Message>($($a),*),
            $crate::msgs::Proto::N2HandshakeN2N => $f::<$crate::msgs::N2HsN2N>($($a),*),
            $crate::msgs::Proto::N2HandshakeN2C => $f::<$crate::msgs::N2HsN2C>($($a),*),
            $crate::msgs::Proto::N2ChainSyncHeader => $f::<$crate::msgs::N2CsHeader>($($a),*),
            $crate::msgs::Proto::N2ChainSyncBlock => $f::<$crate::msgs::N2CsBlock>($($a),*),
            $crate::msgs::Proto::N2BlockFetch => $f::<pallas_network2::protocol::blockfetch::Message>($($a),*),
            $crate::msgs::Proto::N2TxSubmission => $f::<pallas_network2::protocol::txsubmission::Message>($($a),*),
            $crate::msgs::Proto::N2KeepAlive => $f::<pallas_network2::protocol::keepalive::Message>($($a),*),
            $crate::msgs::Proto::N2PeerSharing => $f::<pallas_network2::protocol::peersharing::Message>($($a),*),
            $crate::msgs::Proto::N2LeiosNotify => $f::<pallas_network2::protocol::leiosnotify::Message>($($a),*),
            $crate::msgs::Proto::N2LeiosFetch => $f::<pallas_network2::protocol::leiosfetch::Message>($($a),*),
        }
    };
}

fn nvariants_of<M: Wire>() -> usize {
    M::VARIANTS.len()
}
pub fn nvariants(p: Proto) -> usize {
    with_proto!(p, nvariants_of())
}
fn name_of<M: Wire>() -> &'static str {
    M::NAME
}
pub fn proto_name(p: Proto) -> &'static str {
    with_proto!(p, name_of())
}
fn variants_of<M: Wire>() -> &'static [&'static str] {
    M::VARIANTS
}
pub fn proto_variants(p: Proto) -> &'static [&'static str] {
    with_proto!(p, variants_of())
}

// =====================================================================================
// shared field builders
// =====================================================================================

/// (slot, hash) or origin
fn point_r(s: &mut Src) -> Option<(u64, Vec<u8>)> {
    if s.sel() < 0x3000 {
        None
    } else {
        Some((s.u64(), s.short()))
    }
}
fn p1(s: &mut Src) -> n1::Point {
    match point_r(s) {
        None => n1::Point::Origin,
        Some((a, b)) => n1::Point::Specific(a, b),
    }
}
fn p2(s: &mut Src) -> n2::Point {
    match point_r(s) {
        None => n2::Point::Origin,
        Some((a, b)) => n2::Point::Specific(a, b),
    }
}
fn points_n(s: &mut Src) -> usize {
    // mostly a handful, sometimes enough to need a one-byte array length
    if s.sel() < 0xf000 {
        s.len(6)
    } else {
        24 + s.pick(3)
    }
}

const KNOWN_VERSIONS: [u64; 14] = [1, 7, 10, 11, 13, 14, 15, 4097, 32770, 32778, 32783, 32784, 32791, 32792];

fn version_number(s: &mut Src) -> u64 {
    if s.bool() {
        KNOWN_VERSIONS[s.pick(KNOWN_VERSIONS.len())]
    } else {
        s.u64()
    }
}

/// 0..16 entries (duplicates collapse in the map, so the size is ≤ the drawn count)
fn table_entries<D>(s: &mut Src, mut f: impl FnMut(&mut Src) -> D) -> HashMap<u64, D> {
    let n = if s.sel() < 0xc000 { s.len(4) } else { s.pick(17) };
    let mut m = HashMap::new();
    for _ in 0..n {
        let k = version_number(s);
        let v = f(s);
        m.insert(k, v);
    }
    if m.len() > 1 {
        s.feature("version-table:multi");
    }
    m
}

/// N2N version data: `peer_sharing` and `query` are both present (4-element form) or both absent
/// (2-element form); a mixed combination has no encoding of its own.
fn n2n_fields(s: &mut Src) -> (u64, bool, Option<u8>, Option<bool>) {
    let magic = s.u64();
    let iodm = s.bool();
    if s.bool() {
        (magic, iodm, Some(s.u8()), Some(s.bool()))
    } else {
        (magic, iodm, None, None)
    }
}
fn n2c_fields(s: &mut Src) -> (u64, Option<bool>) {
    let magic = s.u64();
    let q = if s.bool() { Some(s.bool()) } else { None };
    (magic, q)
}

/// header content: variant 0 (Byron) carries the prefix, every other variant does not
fn header_fields(s: &mut Src) -> (u8, Option<(u8, u64)>, Vec<u8>) {
    if s.sel() < 0x5000 {
        s.feature("header:byron");
        (0, Some((s.u8(), s.u64())), s.bytes())
    } else {
        s.feature("header:shelley+");
        (s.u8().max(1), None, s.bytes())
    }
}

fn anycbor(s: &mut Src) -> AnyCbor {
    AnyCbor::from_raw_bytes(s.cbor())
}

// =====================================================================================
// net1
// =====================================================================================

const HS_VARIANTS: &[&str] =
    &["Propose", "Accept", "Refuse:VersionMismatch", "Refuse:HandshakeDecodeError", "Refuse:Refused", "QueryReply"];

fn rr1(variant: usize, s: &mut Src) -> n1::handshake::RefuseReason {
    use n1::handshake::RefuseReason as R;
    match variant {
        2 => R::VersionMismatch(pl::vecn(s, 8, version_number)),
        3 => R::HandshakeDecodeError(version_number(s), s.string()),
        _ => R::Refused(version_number(s), s.string()),
    }
}

fn hs1_same<D: Debug + Clone + PartialEq>(a: &n1::handshake::Message<D>, b: &n1::handshake::Message<D>) -> bool {
    use n1::handshake::Message as M;
    match (a, b) {
        (M::Propose(x), M::Propose(y)) | (M::QueryReply(x), M::QueryReply(y)) => {
            std::mem::discriminant(a) == std::mem::discriminant(b) && x.values == y.values
        }
        (M::Accept(v, d), M::Accept(w, e)) => v == w && d == e,
        (M::Refuse(x), M::Refuse(y)) => format!("{x:?}") == format!("{y:?}"),
        _ => false,
    }
}

impl Wire for N1HsN2N {
    const NAME: &'static str = "net1/handshake-n2n";
    const VARIANTS: &'static [&'static str] = HS_VARIANTS;
    const SENTINEL: usize = 2;
    fn build(variant: usize, s: &mut Src) -> Self {
        use n1::handshake::{n2n::VersionData, Message as M, VersionTable};
        let vd = |s: &mut Src| {
            let (a, b, c, d) = n2n_fields(s);
            let v = VersionData::new(a, b, c, d);
            s.part("net1/n2n-VersionData", &v);
            v
        };
        match variant {
            0 => M::Propose(VersionTable { values: table_entries(s, vd) }),
            1 => M::Accept(version_number(s), vd(s)),
            2..=4 => M::Refuse(rr1(variant, s)),
            _ => M::QueryReply(VersionTable { values: table_entries(s, vd) }),
        }
    }
    fn same(&self, o: &Self) -> bool {
        hs1_same(self, o)
    }
}

impl Wire for N1HsN2C {
    const NAME: &'static str = "net1/handshake-n2c";
    const VARIANTS: &'static [&'static str] = HS_VARIANTS;
    const SENTINEL: usize = 2;
    fn build(variant: usize, s: &mut Src) -> Self {
        use n1::handshake::{n2c::VersionData, Message as M, VersionTable};
        let vd = |s: &mut Src| {
            let (a, b) = n2c_fields(s);
            let v = VersionData::new(a, b);
            s.part("net1/n2c-VersionData", &v);
            v
        };
        match variant {
            0 => M::Propose(VersionTable { values: table_entries(s, vd) }),
            1 => M::Accept(version_number(s), vd(s)),
            2..=4 => M::Refuse(rr1(variant, s)),
            _ => M::QueryReply(VersionTable { values: table_entries(s, vd) }),
        }
    }
    fn same(&self, o: &Self) -> bool {
        hs1_same(self, o)
    }
}

const CS_VARIANTS: &[&str] = &[
    "RequestNext",
    "AwaitReply",
    "RollForward",
    "RollBackward",
    "FindIntersect",
    "IntersectFound",
    "IntersectNotFound",
    "Done",
];

fn tip1(s: &mut Src) -> n1::chainsync::Tip {
    let t = n1::chainsync::Tip(p1(s), s.u64());
    s.part("net1/Tip", &t);
    t
}

fn cs1<C>(variant: usize, s: &mut Src, content: impl FnOnce(&mut Src) -> C) -> n1::chainsync::Message<C> {
    use n1::chainsync::Message as M;
    match variant {
        0 => M::RequestNext,
        1 => M::AwaitReply,
        2 => M::RollForward(content(s), tip1(s)),
        3 => M::RollBackward(p1(s), tip1(s)),
        4 => {
            let n = points_n(s);
            M::FindIntersect((0..n).map(|_| p1(s)).collect())
        }
        5 => M::IntersectFound(p1(s), tip1(s)),
        6 => M::IntersectNotFound(tip1(s)),
        _ => M::Done,
    }
}

impl Wire for N1CsHeader {
    const NAME: &'static str = "net1/chainsync-header";
    const VARIANTS: &'static [&'static str] = CS_VARIANTS;
    const SENTINEL: usize = 7;
    fn build(variant: usize, s: &mut Src) -> Self {
        cs1(variant, s, |s| {
            let (variant, byron_prefix, cbor) = header_fields(s);
            let h = n1::chainsync::HeaderContent { variant, byron_prefix, cbor };
            s.part("net1/HeaderContent", &h);
            h
        })
    }
    fn same(&self, o: &Self) -> bool {
        self == o
    }
}

impl Wire for N1CsBlock {
    const NAME: &'static str = "net1/chainsync-block";
    const VARIANTS: &'static [&'static str] = CS_VARIANTS;
    const SENTINEL: usize = 7;
    fn build(variant: usize, s: &mut Src) -> Self {
        cs1(variant, s, |s| n1::chainsync::BlockContent(s.bytes()))
    }
    fn same(&self, o: &Self) -> bool {
        self == o
    }
}

impl Wire for n1::blockfetch::Message {
    const NAME: &'static str = "net1/blockfetch";
    const VARIANTS: &'static [&'static str] = &["RequestRange", "ClientDone", "StartBatch", "NoBlocks", "Block", "BatchDone"];
    const SENTINEL: usize = 5;
    fn build(variant: usize, s: &mut Src) -> Self {
        use n1::blockfetch::Message as M;
        match variant {
            0 => M::RequestRange { range: (p1(s), p1(s)) },
            1 => M::ClientDone,
            2 => M::StartBatch,
            3 => M::NoBlocks,
            4 => M::Block { body: s.bytes() },
            _ => M::BatchDone,
        }
    }
}

const TXSUB_VARIANTS: &[&str] = &["Init", "RequestTxIds", "ReplyTxIds", "RequestTxs", "ReplyTxs", "Done"];

impl Wire for N1TxSub {
    const NAME: &'static str = "net1/txsubmission";
    const VARIANTS: &'static [&'static str] = TXSUB_VARIANTS;
    const SENTINEL: usize = 5;
    fn build(variant: usize, s: &mut Src) -> Self {
        use n1::txsubmission::{EraTxBody, EraTxId, Message as M, TxIdAndSize};
        match variant {
            0 => M::Init,
            1 => M::RequestTxIds(s.bool(), s.u16(), s.u16()),
            2 => M::ReplyTxIds(pl::vecn(s, 6, |s| TxIdAndSize(EraTxId(s.u16(), s.short()), s.u32()))),
            3 => M::RequestTxs(pl::vecn(s, 6, |s| EraTxId(s.u16(), s.short()))),
            4 => M::ReplyTxs(pl::vecn(s, 4, |s| EraTxBody(s.u16(), s.bytes()))),
            _ => M::Done,
        }
    }
    fn same(&self, o: &Self) -> bool {
        self == o
    }
}

const KA_VARIANTS: &[&str] = &["KeepAlive", "ResponseKeepAlive", "Done"];

impl Wire for n1::keepalive::Message {
    const NAME: &'static str = "net1/keepalive";
    const VARIANTS: &'static [&'static str] = KA_VARIANTS;
    const SENTINEL: usize = 2;
    fn build(variant: usize, s: &mut Src) -> Self {
        use n1::keepalive::Message as M;
        match variant {
            0 => M::KeepAlive(s.u16()),
            1 => M::ResponseKeepAlive(s.u16()),
            _ => M::Done,
        }
    }
}

const PS_VARIANTS: &[&str] = &["ShareRequest", "SharePeers", "Done"];

fn ipv6(s: &mut Src) -> Ipv6Addr {
    let hi = s.u64();
    let lo = s.u64();
    // a third of the addresses come from the special ranges of the address space (a uniform 128-bit value never does)
    match s.pick(12) {
        0 => Ipv6Addr::from((0xffffu128 << 32) | (lo as u32) as u128), // IPv4-mapped ::ffff:a.b.c.d
        1 => Ipv6Addr::from((lo as u32) as u128),                      // IPv4-compatible ::a.b.c.d
        2 => Ipv6Addr::from((0x0064_ff9bu128 << 96) | (lo as u32) as u128), // NAT64 64:ff9b::/96
        3 => [Ipv6Addr::UNSPECIFIED, Ipv6Addr::LOCALHOST, Ipv6Addr::from(u128::MAX), Ipv6Addr::from(0xffffu128 << 32)][(lo % 4) as usize],
        _ => Ipv6Addr::from(((hi as u128) << 64) | lo as u128),
    }
}

impl Wire for n1::peersharing::Message {
    const NAME: &'static str = "net1/peersharing";
    const VARIANTS: &'static [&'static str] = PS_VARIANTS;
    const SENTINEL: usize = 2;
    fn build(variant: usize, s: &mut Src) -> Self {
        use n1::peersharing::{Message as M, PeerAddress as A};
        match variant {
            0 => M::ShareRequest(s.u8()),
            1 => M::SharePeers(pl::vecn(s, 8, |s| {
                let a = if s.bool() {
                    s.feature("peer:V6");
                    A::V6(ipv6(s), s.u32())
                } else {
                    s.feature("peer:V4");
                    A::V4(Ipv4Addr::from(s.u32()), s.u32())
                };
                s.part("net1/PeerAddress", &a);
                a
            })),
            _ => M::Done,
        }
    }
}

impl Wire for n1::localstate::Message {
    const NAME: &'static str = "net1/localstate";
    const VARIANTS: &'static [&'static str] = &[
        "Acquire:point",
        "Acquire:tip",
        "Failure:PointTooOld",
        "Failure:PointNotOnChain",
        "Acquired",
        "Query:typed",
        "Query:anycbor",
        "Result:typed",
        "Result:anycbor",
        "ReAcquire:point",
        "ReAcquire:tip",
        "Release",
        "Done",
    ];
    const SENTINEL: usize = 11;
    fn build(variant: usize, s: &mut Src) -> Self {
        use n1::localstate::{AcquireFailure as F, Message as M};
        match variant {
            0 => M::Acquire(Some(p1(s))),
            1 => M::Acquire(None),
            2 => M::Failure(F::PointTooOld),
            3 => M::Failure(F::PointNotOnChain),
            4 => M::Acquired,
            5 => M::Query(AnyCbor::from_encode(pl::request(s))),
            6 => M::Query(anycbor(s)),
            7 => M::Result(AnyCbor::from_raw_bytes(pl::result_bytes(s))),
            8 => M::Result(anycbor(s)),
            9 => M::ReAcquire(Some(p1(s))),
            10 => M::ReAcquire(None),
            11 => M::Release,
            _ => M::Done,
        }
    }
}

const LTX_VARIANTS: &[&str] = &["SubmitTx", "AcceptTx", "RejectTx", "Done"];

impl Wire for N1LocalTx {
    const NAME: &'static str = "net1/localtxsubmission";
    const VARIANTS: &'static [&'static str] = LTX_VARIANTS;
    const SENTINEL: usize = 1;
    fn build(variant: usize, s: &mut Src) -> Self {
        use n1::localtxsubmission::{EraTx, Message as M};
        match variant {
            0 => {
                let t = EraTx(s.u16(), s.bytes());
                s.part("net1/EraTx", &t);
                M::SubmitTx(t)
            }
            1 => M::AcceptTx,
            2 => M::RejectTx(pl::tx_validation_error(s)),
            _ => M::Done,
        }
    }
}

fn dmq_msg(s: &mut Src) -> n1::localmsgsubmission::DmqMsg {
    use n1::localmsgsubmission::{DmqMsg, DmqMsgOperationalCertificate, DmqMsgPayload};
    let m = DmqMsg {
        msg_id: s.short(),
        msg_payload: DmqMsgPayload { msg_body: s.bytes(), kes_period: s.u64(), expires_at: s.u32() },
        kes_signature: s.bytes(),
        operational_certificate: DmqMsgOperationalCertificate {
            kes_vk: s.short(),
            issue_number: s.u64(),
            start_kes_period: s.u64(),
            cert_sig: s.short(),
        },
        cold_verification_key: s.short(),
    };
    s.part("net1/DmqMsg", &m);
    m
}

impl Wire for N1LocalMsg {
    const NAME: &'static str = "net1/localmsgsubmission";
    const VARIANTS: &'static [&'static str] =
        &["SubmitTx", "AcceptTx", "RejectTx:Invalid", "RejectTx:AlreadyReceived", "RejectTx:Expired", "RejectTx:Other", "Done"];
    const SENTINEL: usize = 1;
    fn build(variant: usize, s: &mut Src) -> Self {
        use n1::localmsgsubmission::{DmqMsgRejectReason as R, DmqMsgValidationError as E};
        use n1::localtxsubmission::Message as M;
        let rej = |s: &mut Src, r: R| {
            let e = E(r);
            s.part("net1/DmqMsgValidationError", &e);
            M::RejectTx(e)
        };
        match variant {
            0 => M::SubmitTx(dmq_msg(s)),
            1 => M::AcceptTx,
            2 => {
                let t = s.string();
                rej(s, R::Invalid(t))
            }
            3 => rej(s, R::AlreadyReceived),
            4 => rej(s, R::Expired),
            5 => {
                let t = s.string();
                rej(s, R::Other(t))
            }
            _ => M::Done,
        }
    }
}

impl Wire for n1::localmsgnotification::Message {
    const NAME: &'static str = "net1/localmsgnotification";
    const VARIANTS: &'static [&'static str] = &[
        "RequestMessagesNonBlocking",
        "ReplyMessagesNonBlocking",
        "RequestMessagesBlocking",
        "ReplyMessagesBlocking",
        "ClientDone",
    ];
    const SENTINEL: usize = 4;
    fn build(variant: usize, s: &mut Src) -> Self {
        use n1::localmsgnotification::Message as M;
        match variant {
            0 => M::RequestMessagesNonBlocking,
            1 => M::ReplyMessagesNonBlocking(pl::vecn(s, 3, dmq_msg), s.bool()),
            2 => M::RequestMessagesBlocking,
            3 => M::ReplyMessagesBlocking(pl::vecn(s, 3, dmq_msg)),
            _ => M::ClientDone,
        }
    }
}

impl Wire for n1::txmonitor::Message {
    const NAME: &'static str = "net1/txmonitor";
    const VARIANTS: &'static [&'static str] = &[
        "Acquire",
        "AwaitAcquire",
        "Acquired",
        "RequestHasTx",
        "RequestNextTx",
        "RequestSizeAndCapacity",
        "ResponseHasTx",
        "ResponseNextTx:None",
        "ResponseNextTx:Some",
        "ResponseSizeAndCapacity",
        "Release",
        "Done",
    ];
    const SENTINEL: usize = 10;
    fn build(variant: usize, s: &mut Src) -> Self {
        use n1::txmonitor::{MempoolSizeAndCapacity, Message as M};
        match variant {
            0 => M::Acquire,
            1 => M::AwaitAcquire,
            2 => M::Acquired(s.u64()),
            3 => M::RequestHasTx(s.string()),
            4 => M::RequestNextTx,
            5 => M::RequestSizeAndCapacity,
            6 => M::ResponseHasTx(s.bool()),
            7 => M::ResponseNextTx(None),
            8 => M::ResponseNextTx(Some((s.u8(), TagWrap::new(Bytes::from(s.bytes()))))),
            9 => M::ResponseSizeAndCapacity(MempoolSizeAndCapacity {
                capacity_in_bytes: s.u32(),
                size_in_bytes: s.u32(),
                number_of_txs: s.u32(),
            }),
            10 => M::Release,
            _ => M::Done,
        }
    }
}

// =====================================================================================
// net2
// =====================================================================================

fn rr2(variant: usize, s: &mut Src) -> n2::handshake::RefuseReason {
    use n2::handshake::RefuseReason as R;
    let r = match variant {
        2 => R::VersionMismatch(pl::vecn(s, 8, version_number)),
        3 => R::HandshakeDecodeError(version_number(s), s.string()),
        _ => R::Refused(version_number(s), s.string()),
    };
    s.part("net2/RefuseReason", &r);
    r
}

fn hs2_same<D: Debug + Clone + PartialEq>(a: &n2::handshake::Message<D>, b: &n2::handshake::Message<D>) -> bool {
    use n2::handshake::Message as M;
    match (a, b) {
        (M::Propose(x), M::Propose(y)) => x.values == y.values,
        (M::QueryReply(x), M::QueryReply(y)) => x.values == y.values,
        (M::Accept(v, d), M::Accept(w, e)) => v == w && d == e,
        (M::Refuse(x), M::Refuse(y)) => x == y,
        _ => false,
    }
}

impl Wire for N2HsN2N {
    const NAME: &'static str = "net2/handshake-n2n";
    const VARIANTS: &'static [&'static str] = HS_VARIANTS;
    const SENTINEL: usize = 2;
    fn build(variant: usize, s: &mut Src) -> Self {
        use n2::handshake::{n2n::VersionData, Message as M, VersionTable};
        let vd = |s: &mut Src| {
            let (a, b, c, d) = n2n_fields(s);
            let v = VersionData::new(a, b, c, d);
            s.part("net2/n2n-VersionData", &v);
            v
        };
        match variant {
            0 => M::Propose(VersionTable { values: table_entries(s, vd) }),
            1 => M::Accept(version_number(s), vd(s)),
            2..=4 => M::Refuse(rr2(variant, s)),
            _ => M::QueryReply(VersionTable { values: table_entries(s, vd) }),
        }
    }
    fn same(&self, o: &Self) -> bool {
        hs2_same(self, o)
    }
}

impl Wire for N2HsN2C {
    const NAME: &'static str = "net2/handshake-n2c";
    const VARIANTS: &'static [&'static str] = HS_VARIANTS;
    const SENTINEL: usize = 2;
    fn build(variant: usize, s: &mut Src) -> Self {
        use n2::handshake::{n2c::VersionData, Message as M, VersionTable};
        let vd = |s: &mut Src| {
            let (a, b) = n2c_fields(s);
            let v = VersionData::new(a, b);
            s.part("net2/n2c-VersionData", &v);
            v
        };
        match variant {
            0 => M::Propose(VersionTable { values: table_entries(s, vd) }),
            1 => M::Accept(version_number(s), vd(s)),
            2..=4 => M::Refuse(rr2(variant, s)),
            _ => M::QueryReply(VersionTable { values: table_entries(s, vd) }),
        }
    }
    fn same(&self, o: &Self) -> bool {
        hs2_same(self, o)
    }
}

fn tip2(s: &mut Src) -> n2::chainsync::Tip {
    let t = n2::chainsync::Tip(p2(s), s.u64());
    s.part("net2/Tip", &t);
    t
}

fn cs2<C>(variant: usize, s: &mut Src, content: impl FnOnce(&mut Src) -> C) -> n2::chainsync::Message<C> {
    use n2::chainsync::Message as M;
    match variant {
        0 => M::RequestNext,
        1 => M::AwaitReply,
        2 => M::RollForward(content(s), tip2(s)),
        3 => M::RollBackward(p2(s), tip2(s)),
        4 => {
            let n = points_n(s);
            M::FindIntersect((0..n).map(|_| p2(s)).collect())
        }
        5 => M::IntersectFound(p2(s), tip2(s)),
        6 => M::IntersectNotFound(tip2(s)),
        _ => M::Done,
    }
}

impl Wire for N2CsHeader {
    const NAME: &'static str = "net2/chainsync-header";
    const VARIANTS: &'static [&'static str] = CS_VARIANTS;
    const SENTINEL: usize = 7;
    fn build(variant: usize, s: &mut Src) -> Self {
        cs2(variant, s, |s| {
            let (variant, byron_prefix, cbor) = header_fields(s);
            let h = n2::chainsync::HeaderContent { variant, byron_prefix, cbor };
            s.part_dbg("net2/HeaderContent", &h);
            h
        })
    }
}

impl Wire for N2CsBlock {
    const NAME: &'static str = "net2/chainsync-block";
    const VARIANTS: &'static [&'static str] = CS_VARIANTS;
    const SENTINEL: usize = 7;
    fn build(variant: usize, s: &mut Src) -> Self {
        cs2(variant, s, |s| n2::chainsync::BlockContent(s.bytes()))
    }
}

impl Wire for n2::blockfetch::Message {
    const NAME: &'static str = "net2/blockfetch";
    const VARIANTS: &'static [&'static str] = &["RequestRange", "ClientDone", "StartBatch", "NoBlocks", "Block", "BatchDone"];
    const SENTINEL: usize = 5;
    fn build(variant: usize, s: &mut Src) -> Self {
        use n2::blockfetch::Message as M;
        match variant {
            0 => M::RequestRange((p2(s), p2(s))),
            1 => M::ClientDone,
            2 => M::StartBatch,
            3 => M::NoBlocks,
            4 => M::Block(s.bytes()),
            _ => M::BatchDone,
        }
    }
}

impl Wire for n2::txsubmission::Message {
    const NAME: &'static str = "net2/txsubmission";
    const VARIANTS: &'static [&'static str] = TXSUB_VARIANTS;
    const SENTINEL: usize = 5;
    fn build(variant: usize, s: &mut Src) -> Self {
        use n2::txsubmission::{EraTxBody, EraTxId, Message as M, TxIdAndSize};
        match variant {
            0 => M::Init,
            1 => M::RequestTxIds(s.bool(), s.u16(), s.u16()),
            2 => M::ReplyTxIds(pl::vecn(s, 6, |s| TxIdAndSize(EraTxId(s.u16(), s.short()), s.u32()))),
            3 => M::RequestTxs(pl::vecn(s, 6, |s| EraTxId(s.u16(), s.short()))),
            4 => M::ReplyTxs(pl::vecn(s, 4, |s| EraTxBody(s.u16(), s.bytes()))),
            _ => M::Done,
        }
    }
}

impl Wire for n2::keepalive::Message {
    const NAME: &'static str = "net2/keepalive";
    const VARIANTS: &'static [&'static str] = KA_VARIANTS;
    const SENTINEL: usize = 2;
    fn build(variant: usize, s: &mut Src) -> Self {
        use n2::keepalive::Message as M;
        match variant {
            0 => M::KeepAlive(s.u16()),
            1 => M::ResponseKeepAlive(s.u16()),
            _ => M::Done,
        }
    }
}

impl Wire for n2::peersharing::Message {
    const NAME: &'static str = "net2/peersharing";
    const VARIANTS: &'static [&'static str] = PS_VARIANTS;
    const SENTINEL: usize = 2;
    fn build(variant: usize, s: &mut Src) -> Self {
        use n2::peersharing::{Message as M, PeerAddress as A};
        match variant {
            0 => M::ShareRequest(s.u8()),
            1 => M::SharePeers(pl::vecn(s, 8, |s| {
                let a = if s.bool() {
                    s.feature("peer:V6");
                    A::V6(ipv6(s), s.u16())
                } else {
                    s.feature("peer:V4");
                    A::V4(Ipv4Addr::from(s.u32()), s.u16())
                };
                s.part("net2/PeerAddress", &a);
                a
            })),
            _ => M::Done,
        }
    }
}

impl Wire for n2::leiosnotify::Message {
    const NAME: &'static str = "net2/leiosnotify";
    const VARIANTS: &'static [&'static str] =
        &["RequestNext", "BlockAnnouncement", "BlockOffer", "BlockTxsOffer", "Votes", "Done"];
    const SENTINEL: usize = 5;
    fn build(variant: usize, s: &mut Src) -> Self {
        use n2::leiosnotify::Message as M;
        match variant {
            0 => M::RequestNext,
            1 => M::BlockAnnouncement(anycbor(s)),
            2 => M::BlockOffer(p2(s), s.u32()),
            3 => M::BlockTxsOffer(p2(s)),
            4 => M::Votes(pl::vecn(s, 4, anycbor)),
            _ => M::Done,
        }
    }
}

fn bitmaps(s: &mut Src) -> n2::leiosfetch::Bitmaps {
    let m: BTreeMap<u16, u64> = pl::vecn(s, 4, |s| (s.u16(), s.u64())).into_iter().collect();
    let b = n2::leiosfetch::Bitmaps(m);
    s.part("net2/Bitmaps", &b);
    b
}

impl Wire for n2::leiosfetch::Message {
    const NAME: &'static str = "net2/leiosfetch";
    const VARIANTS: &'static [&'static str] = &["BlockRequest", "Block", "BlockTxsRequest", "BlockTxs", "Done"];
    const SENTINEL: usize = 4;
    fn build(variant: usize, s: &mut Src) -> Self {
        use n2::leiosfetch::Message as M;
        match variant {
            0 => M::BlockRequest(p2(s)),
            1 => M::Block(anycbor(s)),
            2 => M::BlockTxsRequest(p2(s), bitmaps(s)),
            3 => M::BlockTxs { point: p2(s), bitmaps: bitmaps(s), txs: pl::vecn(s, 4, anycbor) },
            _ => M::Done,
        }
    }
}
