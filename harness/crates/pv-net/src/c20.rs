//! C20 — the multiplexer delivers each protocol's chunks in order, exactly once (DESIGN §C20).
//!
//! Two `Plexer`s over `UnixStream::pair()`, multi-threaded tokio runtime. 1..=3 agent pairs
//! (= 2..=6 agents) on up to 6 protocol ids, either orientation (A client / B server or the
//! reverse; both orientations of one protocol id may be active at once, which is what exercises the
//! direction bit). Every agent has an independent sender task and receiver task. Each side, once
//! all its senders are done, sends a FIN chunk on every lane and then a sentinel on a dedicated
//! client→server lane.
//!
//! Oracle (no pallas code involved: expected payloads are recomputed from the script):
//! every receiver sees exactly the chunks its opposite-role peer on the same protocol enqueued,
//! byte-identical, in order, followed by that lane's FIN and nothing else. Payloads carry a
//! (protocol, side, role, seq) stamp so that a chunk arriving on the wrong lane is recognised.
use crate::net::{self, Trouble};
use pallas_network::multiplexer::AgentChannel;
use proptest::prelude::*;
use pvkit::{pick_idx, Fail, Obs, Session};
use serde::{Deserialize, Serialize};
use std::sync::atomic::{AtomicBool, AtomicU32, Ordering};
use std::time::Duration;
use tokio::sync::watch;

pub const PROTOCOLS: [u16; 6] = [0, 2, 3, 8, 0x1234, 0x7fff];
const SENTINEL_A_TO_B: u16 = 0x7ffd;
const SENTINEL_B_TO_A: u16 = 0x7ffc;

#[derive(Debug, Clone, Serialize, Deserialize)]
pub struct Chunk {
    pub size: u16,
    /// `yield_now` calls after enqueuing this chunk
    pub yields: u8,
}

#[derive(Debug, Clone, Serialize, Deserialize)]
pub struct PairScript {
    pub proto_sel: u16,
    /// true: side A holds the client-role agent and side B the server-role agent
    pub a_is_client: bool,
    pub a_to_b: Vec<Chunk>,
    pub b_to_a: Vec<Chunk>,
}

#[derive(Debug, Clone, Serialize, Deserialize)]
pub struct MuxCase {
    pub workers: u8,
    pub fill: u64,
    pub pairs: Vec<PairScript>,
}

fn chunk() -> impl Strategy<Value = Chunk> {
    (
        prop_oneof![
            5 => 0u16..64,
            3 => 64u16..4096,
            2 => prop::sample::select(vec![0u16, 1, 2, 7, 8, 9, 4095, 4096, 32767, 32768, 65534, 65535]),
            1 => 0u16..=65535,
        ],
        prop_oneof![3 => Just(0u8), 2 => 0u8..4],
    )
        .prop_map(|(size, yields)| Chunk { size, yields })
}

fn script(max: usize) -> impl Strategy<Value = Vec<Chunk>> {
    prop_oneof![
        1 => Just(vec![]),
        4 => prop::collection::vec(chunk(), 1..20),
        2 => prop::collection::vec(chunk(), 20..=max),
    ]
}

fn pair_script(max: usize) -> impl Strategy<Value = PairScript> {
    (any::<u16>(), any::<bool>(), script(max), script(max))
        .prop_map(|(proto_sel, a_is_client, a_to_b, b_to_a)| PairScript { proto_sel, a_is_client, a_to_b, b_to_a })
}

pub fn mux_case(max_chunks: usize) -> impl Strategy<Value = MuxCase> {
    (2u8..=4, any::<u64>(), prop::collection::vec(pair_script(max_chunks), 1..=3)).prop_flat_map(|(workers, fill, pairs)| {
        // often force a second pair onto the same protocol id in the other orientation
        (Just(workers), Just(fill), Just(pairs), any::<bool>()).prop_map(|(workers, fill, mut pairs, mirror)| {
            if mirror && pairs.len() >= 2 {
                pairs[1].proto_sel = pairs[0].proto_sel;
                pairs[1].a_is_client = !pairs[0].a_is_client;
            }
            MuxCase { workers, fill, pairs }
        })
    })
}

/// A directed lane: who sends on it.
#[derive(Clone, Copy, Debug, PartialEq, Eq)]
struct Lane {
    proto: u16,
    /// 0 = side A sends, 1 = side B sends
    side: u8,
    /// 0 = the sender is the client-role agent, 1 = server-role
    role: u8,
}

const FIN_SEQ: u32 = u32::MAX;

fn stamp(lane: Lane, seq: u32) -> [u8; 8] {
    let p = lane.proto.to_be_bytes();
    let s = seq.to_be_bytes();
    [p[0], p[1], lane.side, lane.role, s[0], s[1], s[2], s[3]]
}

fn payload(fill: u64, lane: Lane, seq: u32, size: usize) -> Vec<u8> {
    let mut out = Vec::with_capacity(size.max(8));
    out.extend_from_slice(&stamp(lane, seq));
    let mut x = pvkit::splitmix(fill ^ ((lane.proto as u64) << 40) ^ ((lane.side as u64) << 33) ^ ((lane.role as u64) << 32) ^ seq as u64) | 1;
    while out.len() < size {
        x ^= x << 13;
        x ^= x >> 7;
        x ^= x << 17;
        out.extend_from_slice(&x.to_le_bytes());
    }
    out.truncate(size);
    out
}

fn fin(lane: Lane) -> Vec<u8> {
    let mut v = stamp(lane, FIN_SEQ).to_vec();
    v.extend_from_slice(b"FIN");
    v
}

fn describe(chunk: &[u8]) -> String {
    if chunk.len() >= 8 {
        let proto = u16::from_be_bytes([chunk[0], chunk[1]]);
        let seq = u32::from_be_bytes([chunk[4], chunk[5], chunk[6], chunk[7]]);
        format!("{} bytes stamped (protocol {:#06x}, sender side {}, sender role {}, seq {})", chunk.len(), proto,
            if chunk[2] == 0 { "A" } else { "B" }, if chunk[3] == 0 { "client" } else { "server" },
            if seq == FIN_SEQ { "FIN".to_string() } else { seq.to_string() })
    } else {
        format!("{} bytes {}", chunk.len(), hex::encode(chunk))
    }
}

enum RecvEnd {
    Ok { late: bool },
    Fail(Fail),
    Trouble(Trouble),
}

fn classify(lane: Lane, fill: u64, script: &[Chunk], i: usize, got: &[u8]) -> Fail {
    let fail = |sig: &str, what: String| Fail {
        sig: sig.to_string(),
        msg: format!("receiver of lane {:?} at position {i}/{}: {what}; got {}", lane, script.len(), describe(got)),
    };
    if got.len() >= 8 {
        let gl = Lane { proto: u16::from_be_bytes([got[0], got[1]]), side: got[2], role: got[3] };
        let seq = u32::from_be_bytes([got[4], got[5], got[6], got[7]]);
        if gl != lane && (seq == FIN_SEQ || (seq as usize) < 200) && gl.side <= 1 && gl.role <= 1 && PROTOCOLS.contains(&gl.proto) {
            return fail("chunk-delivered-to-wrong-lane", "a chunk stamped for another protocol/role arrived here".into());
        }
        if gl == lane && seq == FIN_SEQ {
            return fail("chunk-corrupted", "this lane's FIN marker arrived damaged".into());
        }
        if gl == lane && seq != FIN_SEQ {
            let j = seq as usize;
            if j < script.len() && payload(fill, lane, seq, script[j].size as usize) == got {
                return if j < i {
                    fail("chunk-duplicated", format!("chunk {j} was delivered again"))
                } else {
                    fail("chunk-lost-or-reordered", format!("chunk {j} arrived while chunk {i} was expected"))
                };
            }
        }
    }
    if i >= script.len() {
        return fail("surplus-chunk", "all expected chunks had been delivered".into());
    }
    fail("chunk-corrupted", format!("expected {} bytes", script[i].size))
}

async fn receiver(mut ch: AgentChannel, lane: Lane, fill: u64, script: Vec<Chunk>, mut flushed: watch::Receiver<bool>) -> RecvEnd {
    let mut i = 0usize;
    let fin_chunk = fin(lane);
    let mut graced = false; // a grace period has been spent since the last progress
    let mut saw_late = false; // a chunk turned up only during/after a grace period
    let mut after_flush = false;
    loop {
        let got = if after_flush {
            match net::try_dequeue(&mut ch).await {
                Some(c) => {
                    if graced {
                        saw_late = true;
                    }
                    c
                }
                None => {
                    // the peer side's sentinel has arrived, so everything it enqueued before has
                    // been dispatched; allow a grace period in case that reasoning were wrong
                    if !graced {
                        graced = true;
                        // (once a violation has been established the margin only slows shrinking down)
                        let ms = if FOUND.load(Ordering::Relaxed) { 5 } else { 300 };
                        tokio::time::sleep(Duration::from_millis(ms)).await;
                        continue;
                    }
                    return RecvEnd::Fail(Fail {
                        sig: "chunk-lost".into(),
                        msg: format!("receiver of lane {:?}: only {i}/{} chunks and no FIN had been delivered when the sender side's later sentinel arrived (+300 ms)", lane, script.len()),
                    });
                }
            }
        } else {
            tokio::select! {
                biased;
                r = ch.dequeue_chunk() => match r {
                    Ok(c) => c,
                    // the harness keeps both sockets and every channel open until all receivers are done, so the only
                    // way a subscribed agent can find its queue closed is that the demultiplexer task itself gave up:
                    // this chunk and everything after it will never be delivered
                    Err(e) => {
                        return RecvEnd::Fail(Fail {
                            sig: "demuxer-stopped-delivering".into(),
                            msg: format!("receiver of lane {:?}: after {i}/{} chunks dequeue_chunk failed with {e:?} although neither side closed anything", lane, script.len()),
                        })
                    }
                },
                r = flushed.wait_for(|v| *v) => {
                    if r.is_err() {
                        return RecvEnd::Trouble(Trouble::Closed("sentinel watch"));
                    }
                    after_flush = true;
                    continue;
                }
            }
        };
        if got == fin_chunk {
            if i < script.len() {
                return RecvEnd::Fail(Fail {
                    sig: "chunk-lost".into(),
                    msg: format!("receiver of lane {:?}: FIN arrived after only {i}/{} chunks", lane, script.len()),
                });
            }
            return RecvEnd::Ok { late: saw_late };
        }
        if i < script.len() && got == payload(fill, lane, i as u32, script[i].size as usize) {
            i += 1;
            graced = false;
            continue;
        }
        return RecvEnd::Fail(classify(lane, fill, &script, i, &got));
    }
}

async fn sender(mut ch: AgentChannel, lane: Lane, fill: u64, script: Vec<Chunk>) -> Result<AgentChannel, Trouble> {
    for (i, c) in script.iter().enumerate() {
        ch.enqueue_chunk(payload(fill, lane, i as u32, c.size as usize)).await.map_err(|_| Trouble::Closed("sender enqueue"))?;
        for _ in 0..c.yields {
            tokio::task::yield_now().await;
        }
    }
    Ok(ch)
}

/// one side: wait for its senders, FIN every lane, then the sentinel
async fn side_coordinator(
    senders: Vec<(Lane, tokio::task::JoinHandle<Result<AgentChannel, Trouble>>)>,
    mut sentinel: AgentChannel,
) -> Result<(), Trouble> {
    let mut chans = vec![];
    for (lane, h) in senders {
        let ch = h.await.map_err(|e| Trouble::Io(format!("sender task: {e}")))??;
        chans.push((lane, ch));
    }
    for (lane, ch) in chans.iter_mut() {
        ch.enqueue_chunk(fin(*lane)).await.map_err(|_| Trouble::Closed("fin enqueue"))?;
    }
    sentinel.enqueue_chunk(b"flushed".to_vec()).await.map_err(|_| Trouble::Closed("sentinel enqueue"))?;
    // keep the sending channels alive until the end of the case
    std::future::pending::<()>().await;
    Ok(())
}

async fn sentinel_listener(mut ch: AgentChannel, tx: watch::Sender<bool>) {
    if ch.dequeue_chunk().await.is_ok() {
        let _ = tx.send(true);
    }
    std::future::pending::<()>().await;
}

struct Outcome {
    late: bool,
}

async fn drive(fill: u64, pairs: Vec<PairScript>) -> Result<Result<Outcome, Fail>, Trouble> {
    let (mut pa, mut pb) = net::plexer_pair()?;
    let mut recv_tasks = tokio::task::JoinSet::new();
    let mut a_senders = vec![];
    let mut b_senders = vec![];
    let (a_flushed_tx, a_flushed_rx) = watch::channel(false); // "side A has flushed" (observed on B)
    let (b_flushed_tx, b_flushed_rx) = watch::channel(false);
    // sentinels always travel client → server
    let sent_a_out = pa.subscribe_client(SENTINEL_A_TO_B);
    let sent_a_in = pb.subscribe_server(SENTINEL_A_TO_B);
    let sent_b_out = pb.subscribe_client(SENTINEL_B_TO_A);
    let sent_b_in = pa.subscribe_server(SENTINEL_B_TO_A);
    struct Agent {
        tx: AgentChannel,
        rx: AgentChannel,
    }
    let mut agents = vec![];
    for p in &pairs {
        let proto = PROTOCOLS[pick_idx(p.proto_sel, PROTOCOLS.len())];
        // two subscriptions per agent: the first channel is only used to send (its receiving half is
        // replaced by the second subscription), the second only to receive; this gives the sender
        // and the receiver task of one agent independent handles through the public API
        let (a, b) = if p.a_is_client {
            (
                Agent { tx: pa.subscribe_client(proto), rx: pa.subscribe_client(proto) },
                Agent { tx: pb.subscribe_server(proto), rx: pb.subscribe_server(proto) },
            )
        } else {
            (
                Agent { tx: pa.subscribe_server(proto), rx: pa.subscribe_server(proto) },
                Agent { tx: pb.subscribe_client(proto), rx: pb.subscribe_client(proto) },
            )
        };
        agents.push((proto, a, b));
    }
    let running = net::Running(pa.spawn(), pb.spawn());
    for ((proto, a, b), p) in agents.into_iter().zip(pairs.iter()) {
        let a_role = if p.a_is_client { 0 } else { 1 };
        let lane_ab = Lane { proto, side: 0, role: a_role };
        let lane_ba = Lane { proto, side: 1, role: 1 - a_role };
        recv_tasks.spawn(receiver(b.rx, lane_ab, fill, p.a_to_b.clone(), a_flushed_rx.clone()));
        recv_tasks.spawn(receiver(a.rx, lane_ba, fill, p.b_to_a.clone(), b_flushed_rx.clone()));
        a_senders.push((lane_ab, tokio::spawn(sender(a.tx, lane_ab, fill, p.a_to_b.clone()))));
        b_senders.push((lane_ba, tokio::spawn(sender(b.tx, lane_ba, fill, p.b_to_a.clone()))));
    }
    let l1 = tokio::spawn(sentinel_listener(sent_a_in, a_flushed_tx));
    let l2 = tokio::spawn(sentinel_listener(sent_b_in, b_flushed_tx));
    let mut ca = tokio::spawn(side_coordinator(a_senders, sent_a_out));
    let mut cb = tokio::spawn(side_coordinator(b_senders, sent_b_out));
    let mut late = false;
    let mut result: Result<Result<Outcome, Fail>, Trouble> = Ok(Ok(Outcome { late: false }));
    let mut remaining = recv_tasks.len();
    while remaining > 0 {
        tokio::select! {
            r = recv_tasks.join_next() => {
                remaining -= 1;
                match r {
                    Some(Ok(RecvEnd::Ok { late: l })) => late |= l,
                    Some(Ok(RecvEnd::Fail(f))) => { result = Ok(Err(f)); break; }
                    Some(Ok(RecvEnd::Trouble(t))) => { result = Err(t); break; }
                    Some(Err(e)) => { result = Err(Trouble::Io(format!("receiver task: {e}"))); break; }
                    None => break,
                }
            }
            r = &mut ca => { result = Err(match r { Ok(Err(t)) => t, _ => Trouble::Io("side A coordinator ended".into()) }); break; }
            r = &mut cb => { result = Err(match r { Ok(Err(t)) => t, _ => Trouble::Io("side B coordinator ended".into()) }); break; }
        }
    }
    ca.abort();
    cb.abort();
    l1.abort();
    l2.abort();
    recv_tasks.abort_all();
    running.stop().await;
    if let Ok(Ok(o)) = &mut result {
        o.late = late;
    }
    result
}

static TIMEOUTS: AtomicU32 = AtomicU32::new(0);
static FOUND: AtomicBool = AtomicBool::new(false);
static FOUND_AT: std::sync::Mutex<Option<std::time::Instant>> = std::sync::Mutex::new(None);
/// after a violation has been established, shrinking gets this much wall time
const SHRINK_BUDGET: Duration = Duration::from_secs(25);

fn dedup(pairs: &[PairScript]) -> Vec<PairScript> {
    let mut seen = vec![];
    let mut out = vec![];
    for p in pairs {
        let key = (pick_idx(p.proto_sel, PROTOCOLS.len()), p.a_is_client);
        if !seen.contains(&key) {
            seen.push(key);
            out.push(p.clone());
        }
    }
    out
}

pub fn run_case(s: &Session, case: &MuxCase, obs: &mut Obs) -> Result<(), Fail> {
    let pairs = dedup(&case.pairs);
    if !s.replaying() {
        // bounded cost on a broken multiplexer: stop shrinking after SHRINK_BUDGET; stop running
        // schedules once the run is inconclusive anyway (8 stalled schedules)
        let over = FOUND_AT.lock().unwrap().map(|t| t.elapsed() > SHRINK_BUDGET).unwrap_or(false);
        if over || TIMEOUTS.load(Ordering::Relaxed) >= 8 {
            obs.discard();
            return Ok(());
        }
    }
    let wait = if FOUND.load(Ordering::Relaxed) {
        Duration::from_millis(1500)
    } else if TIMEOUTS.load(Ordering::Relaxed) >= 2 {
        Duration::from_secs(3)
    } else {
        Duration::from_secs(20)
    };
    let rt = net::rt_multi(case.workers.clamp(2, 4) as usize);
    let fill = case.fill;
    let p2 = pairs.clone();
    let res = rt.block_on(async move { tokio::time::timeout(wait, tokio::spawn(drive(fill, p2))).await });
    rt.shutdown_background();
    let res = match res {
        Err(_) => Err(Trouble::Timeout("running the schedule")),
        Ok(Err(e)) => Err(Trouble::Io(format!("driver task: {e}"))),
        Ok(Ok(r)) => r,
    };
    match res {
        Err(t) => {
            TIMEOUTS.fetch_add(1, Ordering::Relaxed);
            s.health(false, &format!("a schedule did not finish ({t}); lost deliveries cannot be told from a stalled harness"));
            obs.discard();
            Ok(())
        }
        Ok(Err(f)) => {
            FOUND.store(true, Ordering::Relaxed);
            FOUND_AT.lock().unwrap().get_or_insert_with(std::time::Instant::now);
            Err(f)
        }
        Ok(Ok(o)) => {
            if o.late {
                obs.class("chunk-arrived-after-sentinel");
            }
            let total: usize = pairs.iter().map(|p| p.a_to_b.len() + p.b_to_a.len()).sum();
            let big = pairs.iter().any(|p| p.a_to_b.iter().chain(p.b_to_a.iter()).any(|c| c.size >= 32768));
            let mut both_dirs: Vec<usize> = pairs.iter().filter(|p| !p.a_to_b.is_empty() && !p.b_to_a.is_empty())
                .map(|p| pick_idx(p.proto_sel, PROTOCOLS.len())).collect();
            both_dirs.sort();
            both_dirs.dedup();
            let mirrored = pairs.iter().any(|p| pairs.iter().any(|q| pick_idx(p.proto_sel, 6) == pick_idx(q.proto_sel, 6) && p.a_is_client != q.a_is_client));
            obs.class(format!("agents-{}", pairs.len() * 2));
            obs.class(format!("workers-{}", case.workers.clamp(2, 4)));
            if mirrored {
                obs.class("both-orientations-of-one-protocol");
            }
            if big {
                obs.class("has-chunk>=32KiB");
            }
            if pairs.iter().any(|p| p.a_to_b.iter().chain(p.b_to_a.iter()).any(|c| c.size == 65535)) {
                obs.class("has-max-size-chunk");
            }
            if pairs.iter().any(|p| p.a_to_b.iter().chain(p.b_to_a.iter()).any(|c| c.size == 0)) {
                obs.class("has-empty-chunk");
            }
            if pairs.iter().any(|p| p.a_to_b.len().max(p.b_to_a.len()) > 100) {
                obs.class("has-script>100-chunks(queue-backpressure)");
            }
            obs.class(if total == 0 { "no-chunks" } else { "some-chunks" });
            if both_dirs.len() >= 2 && big {
                obs.class("nontrivial");
                obs.nontrivial();
            }
            Ok(())
        }
    }
}

pub fn run(s: &Session) {
    s.set_rule(
        "random schedules: 1..=3 agent pairs (2..=6 agents, both roles, both directions) on 6 protocol ids, 0..=200 chunks per \
         direction of 0..=65535 bytes (edges emphasised) with 0..3 task yields after each, 2..=4 runtime workers; non-trivial = \
         at least 2 protocol ids active in both directions and at least one chunk >= 32 KiB; distinct = distinct serialised schedules. \
         Second stack: block-fetch bodies (0..200 000 bytes) and keep-alive cookies, each channel with or without the responder bit, cut into \
         segments of generated sizes and written interleaved through the net2 bearer; read_full_msgs must deliver per protocol exactly what was sent",
    );
    s.assume("interleavings are sampled (tokio scheduler, yields, worker count), not enumerated");
    s.assume("muxer writes segments in enqueue order and the demuxer dispatches them in read order, so a chunk still missing when a later-enqueued sentinel has arrived (+300 ms grace) is lost");
    s.forall("schedules", s.pick(1_000, 20_000), || mux_case(200), |case, obs| run_case(s, case, obs));
    // the second stack's bearer (framing and reassembly per channel and role under interleaving)
    crate::c20_net2::run(s);
    if !s.replaying() {
        for c in ["both-orientations-of-one-protocol", "has-chunk>=32KiB", "has-max-size-chunk", "has-empty-chunk",
            "has-script>100-chunks(queue-backpressure)", "agents-6"] {
            s.health(s.class_count(c) > 0, &format!("generator never produced class {c}"));
        }
    }
}
