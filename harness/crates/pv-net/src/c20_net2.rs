//! C20, second stack: the net2 bearer. Messages of two mini-protocols (block-fetch bodies of any size, keep-alive
//! cookies), each in either role (responder bit set or not), are encoded, cut into segments at generated sizes and
//! written through `BearerWriteHalf::write_segment` with the segments of the two channels interleaved in a generated
//! order (order within a channel is kept). The reading half (`read_full_msgs::<AnyMessage>`) must hand out, per
//! protocol, exactly the messages sent, in order, once, with nothing left in the partial-chunk store.
use pallas_codec::minicbor;
use pallas_network2::behavior::AnyMessage;
use pallas_network2::protocol::{blockfetch as bf, keepalive as ka};
use proptest::prelude::*;
use pvkit::{pick_idx, pv_ensure, Fail, Obs, Session};
use serde::{Deserialize, Serialize};
use std::collections::HashMap;

#[derive(Debug, Clone, Serialize, Deserialize)]
pub struct Case {
    /// block bodies sent on the block-fetch channel: (length, fill byte)
    pub blocks: Vec<(u32, u8)>,
    /// cookies sent on the keep-alive channel
    pub cookies: Vec<u16>,
    pub bf_responder_bit: bool,
    pub ka_responder_bit: bool,
    /// segment sizes (selectors) for the block-fetch stream / the keep-alive stream
    pub bf_cuts: Vec<u16>,
    pub ka_cuts: Vec<u16>,
    /// merge order: true = next segment of block-fetch, false = of keep-alive (exhausted side is skipped)
    pub merge: Vec<bool>,
}

fn segments(stream: &[u8], cuts: &[u16]) -> Vec<Vec<u8>> {
    let mut out = vec![];
    let mut at = 0usize;
    let mut k = 0usize;
    while at < stream.len() {
        let want = if cuts.is_empty() { 65535 } else { 1 + pick_idx(cuts[k % cuts.len()], 65535) };
        // at most ~1500 segments per channel: tiny segments of a 200 KB stream would only measure the machine's speed
        let floor = stream.len().div_ceil(1500);
        let n = want.max(floor).min(stream.len() - at).min(65535);
        out.push(stream[at..at + n].to_vec());
        at += n;
        k += 1;
    }
    out
}

async fn once(plan: Vec<(u16, Vec<u8>)>) -> Result<(Vec<AnyMessage>, Option<String>, usize), String> {
    use pallas_network2::bearer::Bearer;
    let (a, b) = tokio::net::UnixStream::pair().map_err(|e| e.to_string())?;
    let (_ra, mut wa) = Bearer::Unix(a).into_split();
    let (mut rb, _wb) = Bearer::Unix(b).into_split();
    let n = plan.len();
    let writer = tokio::spawn(async move {
        for (i, (ch, seg)) in plan.iter().enumerate() {
            wa.write_segment(*ch, i as u32, seg).await.map_err(|e| e.to_string())?;
        }
        Ok::<_, String>(wa)
    });
    let mut partial: HashMap<u16, Vec<u8>> = HashMap::new();
    let mut got = vec![];
    let mut err = None;
    for _ in 0..n {
        match rb.read_full_msgs::<AnyMessage>(&mut partial).await {
            Ok(ms) => got.extend(ms),
            Err(e) => {
                err = Some(e.to_string());
                break;
            }
        }
    }
    match writer.await {
        Ok(Ok(_)) => {}
        Ok(Err(e)) => return Err(format!("writer: {e}")),
        Err(e) => return Err(format!("writer task: {e}")),
    }
    Ok((got, err, partial.values().map(|v| v.len()).sum()))
}

fn check(s: &Session, c: &Case, obs: &mut Obs) -> Result<(), Fail> {
    let blocks: Vec<Vec<u8>> = c.blocks.iter().map(|(n, f)| vec![*f; *n as usize]).collect();
    let mut bf_stream = vec![];
    for b in &blocks {
        bf_stream.extend(minicbor::to_vec(bf::Message::Block(b.clone())).expect("encode"));
    }
    let mut ka_stream = vec![];
    for k in &c.cookies {
        ka_stream.extend(minicbor::to_vec(ka::Message::KeepAlive(*k)).expect("encode"));
    }
    let bf_ch = bf::CHANNEL_ID | if c.bf_responder_bit { 0x8000 } else { 0 };
    let ka_ch = ka::CHANNEL_ID | if c.ka_responder_bit { 0x8000 } else { 0 };
    let mut bs = segments(&bf_stream, &c.bf_cuts).into_iter().peekable();
    let mut ks = segments(&ka_stream, &c.ka_cuts).into_iter().peekable();
    let mut plan = vec![];
    let mut m = 0usize;
    while bs.peek().is_some() || ks.peek().is_some() {
        let take_bf = if bs.peek().is_none() { false } else if ks.peek().is_none() { true } else { c.merge.is_empty() || c.merge[m % c.merge.len()] };
        m += 1;
        if take_bf {
            plan.push((bf_ch, bs.next().unwrap()));
        } else {
            plan.push((ka_ch, ks.next().unwrap()));
        }
    }
    if plan.is_empty() {
        obs.discard();
        return Ok(());
    }
    let spanning = blocks.iter().any(|b| b.len() > 65535) || (plan.iter().filter(|(ch, _)| *ch == bf_ch).count() > blocks.len());
    obs.class(format!("net2:block-fetch-{}", if c.bf_responder_bit { "responder-bit" } else { "initiator" }));
    obs.class(format!("net2:keep-alive-{}", if c.ka_responder_bit { "responder-bit" } else { "initiator" }));
    if spanning {
        obs.class("net2:message-spans-segments");
    }
    let rt = crate::net::rt_current();
    let r = rt.block_on(async { tokio::time::timeout(std::time::Duration::from_secs(30), once(plan)).await });
    drop(rt);
    let (got, err, leftover) = match r {
        Err(_) => {
            // a time limit is never a verdict: the reader consumes exactly one written segment per call, so this is slowness
            s.health(false, "net2 bearer run exceeded the 30 s case limit (inconclusive, not a violation)");
            obs.discard();
            return Ok(());
        }
        Ok(Err(e)) => {
            s.health(false, &format!("net2 bearer harness I/O problem: {e}"));
            obs.discard();
            return Ok(());
        }
        Ok(Ok(x)) => x,
    };
    pv_ensure!(err.is_none(), "c20:net2-bearer:read-error", "read_full_msgs failed on well-formed traffic: {:?}", err);
    let mut got_blocks = vec![];
    let mut got_cookies = vec![];
    for m in got {
        match m {
            AnyMessage::BlockFetch(bf::Message::Block(b)) => got_blocks.push(b),
            AnyMessage::KeepAlive(ka::Message::KeepAlive(k)) => got_cookies.push(k),
            other => return Err(Fail { sig: "c20:net2-bearer:foreign-message".into(), msg: format!("a message nobody sent was delivered: {}", format!("{other:?}").chars().take(120).collect::<String>()) }),
        }
    }
    pv_ensure!(got_cookies == c.cookies, "c20:net2-bearer:keep-alive-stream-differs",
        "keep-alive: sent {} cookies {:?}.., delivered {} {:?}..", c.cookies.len(), &c.cookies[..c.cookies.len().min(6)], got_cookies.len(), &got_cookies[..got_cookies.len().min(6)]);
    let lens = |v: &Vec<Vec<u8>>| v.iter().map(|b| (b.len(), b.first().copied())).collect::<Vec<_>>();
    pv_ensure!(got_blocks == blocks, "c20:net2-bearer:block-fetch-stream-differs",
        "block-fetch: sent bodies (len, fill) {:?}, delivered {:?}", lens(&blocks), lens(&got_blocks));
    pv_ensure!(leftover == 0, "c20:net2-bearer:bytes-left-over", "{leftover} bytes remain in the partial-chunk store after every segment was read");
    obs.nontrivial_if(spanning && !c.cookies.is_empty());
    Ok(())
}

fn case() -> impl Strategy<Value = Case> {
    let blen = prop_oneof![4 => 0u32..300, 2 => 60_000u32..70_000, 1 => Just(65_535u32), 1 => Just(65_530u32), 1 => 100_000u32..200_000];
    (
        prop::collection::vec((blen, any::<u8>()), 0..5),
        prop::collection::vec(any::<u16>(), 0..12),
        any::<bool>(),
        any::<bool>(),
        prop_oneof![1 => Just(vec![]), 3 => prop::collection::vec(any::<u16>(), 1..6), 1 => Just(vec![0u16]), 1 => Just(vec![0xffffu16])],
        prop_oneof![1 => Just(vec![]), 2 => prop::collection::vec(0u16..40, 1..4)],
        prop::collection::vec(any::<bool>(), 0..16),
    )
        .prop_map(|(blocks, cookies, bf_responder_bit, ka_responder_bit, bf_cuts, ka_cuts, merge)| Case { blocks, cookies, bf_responder_bit, ka_responder_bit, bf_cuts, ka_cuts, merge })
}

pub fn run(s: &Session) {
    s.forall("net2-bearer-interleaved", s.pick(3_000, 60_000), case, |c, obs| check(s, c, obs));
    if !s.replaying() {
        for c in ["net2:message-spans-segments", "net2:block-fetch-responder-bit", "net2:keep-alive-responder-bit"] {
            s.health(s.class_count(c) > 0, &format!("generator never produced class {c}"));
        }
    }
}
