//! C23 — net1 client/server agents follow the Ouroboros mini-protocol state machines (DESIGN §C23).
//!
//! Agent under test on one side of a Plexer pair; on the other side a raw peer that injects
//! encoded messages and reads what the agent puts on the wire. The oracle is `spec.rs`.
//!
//! Observations per (agent, spec state S, action), always on a fresh agent brought to S by a
//! shortest prefix of high-level calls (each prefix step is judged by the same oracle):
//!  * raw-send m:  `send_message(m)` is Ok and m appears on the wire  ⇔  the spec lets this role
//!    send m in S; otherwise Err, nothing on the wire, `state()` unchanged;
//!  * raw-recv m:  after injecting m, `recv_message()` is Ok(m)  ⇔  the peer may send m in S;
//!    otherwise Err and `state()` unchanged;
//!  * op:          a high-level method = a small automaton of Send(m)/Recv steps (a Recv step may
//!    dispatch on the kind it reads: continue, read again, return early, or refuse a kind the
//!    method has no use for). With the peer's messages for the Recv steps injected beforehand (or,
//!    for `reactive` methods, answered while the call runs), the call is Ok ⇔ every step is a spec
//!    edge; `state()` afterwards is the spec state after the last legal step; the wire shows exactly
//!    the messages of the legal Send steps. ("Ok with nothing sent and no state change" is tolerated
//!    for an illegal send: nothing was accepted for sending.)
//!  * observers:   after every action `has_agency()` (where public) equals the spec's agency for
//!    the state the agent reports, `is_done()` (where public) equals "that state is Done".
//!  * payload:     a message of a legal kind whose content must be refused (wrong cookie, field of
//!    the wrong CBOR type, unknown inner tag, out-of-range number) is answered with an error, nothing
//!    is sent and `state()` stays where it was.
use crate::c23_agents as ag;
use crate::net::{self, RawPeer, RawRecv, Sentinel, Trouble};
use crate::spec::{Proto, Role};
use pallas_network::multiplexer::AgentChannel;
use proptest::prelude::*;
use pvkit::{pick_idx, Fail, Obs, Session};
use serde::{Deserialize, Serialize};
use std::collections::{BTreeSet, HashMap};
use std::sync::{Arc, Mutex, OnceLock};

/// What a method does after a Recv step has read a message of a given kind.
#[derive(Debug, Clone, Copy, PartialEq, Eq)]
pub enum Next {
    /// go on with the next step
    Cont,
    /// repeat this step (the method loops until another kind arrives)
    Again,
    /// the method returns now (success, or a domain-level error value the adapter maps to success)
    Stop,
    /// the method has consumed a spec-legal message it has no use for: its result is not judged,
    /// the state must be the spec state after that message
    Refuse,
}

#[derive(Debug, Clone, Copy, PartialEq, Eq)]
pub enum Step {
    Send(&'static str),
    /// reads one message; every kind the spec allows continues with the next step
    Recv,
    /// reads one message and dispatches on its kind; spec-legal kinds that are not listed are `Refuse`
    RecvMap(&'static [(&'static str, Next)]),
}

#[derive(Debug)]
pub struct OpDef {
    pub name: &'static str,
    pub steps: &'static [Step],
    /// spec states the method is meant for (empty: any state)
    pub from: &'static [&'static str],
    /// the method does something else outside `from` (state-dependent dispatch): never call it there
    pub only_from: bool,
    /// the peer's replies depend on what the agent sends during the same call (keep-alive cookie):
    /// the raw peer answers while the call runs instead of queueing its messages beforehand
    pub reactive: bool,
}

impl OpDef {
    /// name of the pallas method behind this op ("send_block_range(2)" -> "send_block_range")
    pub fn method(&self) -> &'static str {
        let n: &'static str = self.name;
        match n.find(|c| c == '(' || c == '@') {
            Some(i) => &n[..i],
            None => n,
        }
    }
    fn n_recv(&self) -> usize {
        self.steps.iter().filter(|s| !matches!(s, Step::Send(_))).count()
    }
}

pub struct Ctx {
    /// cookie of the last KeepAlive seen on the wire / used for injected KeepAlive messages
    pub cookie: u16,
    /// name of the op whose peer messages are being built (a typed query helper gets a result of its type)
    pub hint: &'static str,
}

#[derive(Debug, Clone)]
pub enum OpOut {
    Accepted,
    Rejected(String),
}

/// What an adapter reports about a message it decoded from the wire.
pub struct Seen {
    pub kind: &'static str,
    pub cookie: Option<u16>,
}

/// A message kind whose content can be made unacceptable: (kind, variant, only through high-level
/// methods). Variants are named `<class>` or `<class>+<n>`; the class goes into the signature.
pub type BadDef = (&'static str, &'static str, bool);

#[allow(async_fn_in_trait)]
pub trait Agent: Sized {
    const NAME: &'static str;
    const ROLE: Role;
    const PROTOCOL_ID: u16;
    const RAW_SEND: bool;
    const RAW_RECV: bool;
    const OPS: &'static [OpDef];
    /// every public method of the pallas agent that sends, receives or observes the state machine
    /// (derived by hand from the sources; `run` compares it with the sources and with what was called)
    const METHODS: &'static [&'static str];
    /// source files (relative to the pallas repository; `true`: only `pub async fn` are agent methods)
    const SOURCES: &'static [(&'static str, bool)];
    const BAD: &'static [BadDef] = &[];
    fn proto() -> &'static Proto;
    fn new(ch: AgentChannel) -> Self;
    /// name of the pallas state (payload dropped)
    fn state(&self) -> &'static str;
    /// `has_agency()` / `is_done()` where the agent makes them public
    fn has_agency(&self) -> Option<bool>;
    fn is_done(&self) -> Option<bool>;
    /// bytes of a representative message of this kind (for injection by the raw peer)
    fn encode(kind: &str, ctx: &Ctx) -> Vec<u8>;
    fn decode(bytes: &[u8]) -> Option<Seen>;
    /// bytes of a message of this kind whose content must be refused
    fn bad_payload(kind: &str, variant: &str, ctx: &Ctx) -> Vec<u8> {
        corrupt(&Self::encode(kind, ctx), variant)
    }
    async fn raw_send(&mut self, kind: &str, ctx: &Ctx) -> OpOut;
    async fn raw_recv(&mut self) -> Result<&'static str, String>;
    async fn op(&mut self, name: &str, ctx: &Ctx) -> OpOut;
}

/// Generic corruptions of a well-formed message `[label, field1, ...]` (built with the independent
/// CBOR kit, the result is again one well-formed CBOR item, so a decoder never waits for more bytes).
pub fn corrupt(valid: &[u8], variant: &str) -> Vec<u8> {
    use pvkit::cborx;
    let mut node = cborx::read(valid).expect("harness message is one CBOR item");
    match variant {
        // the first payload field gets another CBOR major type
        "field1-type" => {
            let items = node.as_array_mut().expect("messages are arrays");
            assert!(items.len() >= 2, "harness: message without a payload field");
            items[1] = if items[1].as_text().is_some() { cborx::uint(7) } else { cborx::text("bad") };
        }
        v => panic!("harness: unknown corruption {v}"),
    }
    cborx::write(&node)
}

/// An injected peer message: the representative payload of its kind, or a corrupted one.
#[derive(Debug, Clone, Copy)]
pub struct Inj {
    pub kind: &'static str,
    pub bad: Option<&'static str>,
}

fn plain(kinds: &[&'static str]) -> Vec<Inj> {
    kinds.iter().map(|k| Inj { kind: k, bad: None }).collect()
}

// ------------------------------------------------------------------------------------------ rig

pub struct Rig<A: Agent> {
    pub agent: A,
    raw: RawPeer,
    sentinel: Sentinel,
    running: Option<net::Running>,
    pub ctx: Ctx,
    /// bytes the raw peer already took from the wire while answering a reactive call
    stash: Vec<u8>,
    /// pallas methods called on this agent so far
    pub used: BTreeSet<&'static str>,
}

impl<A: Agent> Rig<A> {
    pub fn new() -> Result<Self, Trouble> {
        let (mut pa, mut pb) = net::plexer_pair()?;
        let (agent_ch, raw_ch) = match A::ROLE {
            Role::Client => (pa.subscribe_client(A::PROTOCOL_ID), pb.subscribe_server(A::PROTOCOL_ID)),
            Role::Server => (pa.subscribe_server(A::PROTOCOL_ID), pb.subscribe_client(A::PROTOCOL_ID)),
        };
        let sentinel = Sentinel::subscribe(&mut pa, &mut pb);
        let running = net::Running(pa.spawn(), pb.spawn());
        Ok(Rig {
            agent: A::new(agent_ch),
            raw: RawPeer::new(raw_ch),
            sentinel,
            running: Some(running),
            ctx: Ctx { cookie: 0x5a17, hint: "" },
            stash: vec![],
            used: BTreeSet::new(),
        })
    }

    pub async fn stop(mut self) {
        if let Some(r) = self.running.take() {
            r.stop().await;
        }
    }

    pub async fn inject(&mut self, m: &Inj) -> Result<(), Trouble> {
        let bytes = match m.bad {
            None => A::encode(m.kind, &self.ctx),
            Some(v) => A::bad_payload(m.kind, v, &self.ctx),
        };
        self.raw.send(&bytes).await
    }

    /// Everything the agent has put on the wire so far (deterministic, see `net::Sentinel`).
    pub async fn wire(&mut self) -> Result<Vec<&'static str>, Trouble> {
        self.sentinel.flush().await?;
        let mut bytes = std::mem::take(&mut self.stash);
        while let Some(c) = self.raw.pending().await {
            bytes.extend(c);
        }
        let mut kinds = vec![];
        let mut rest = &bytes[..];
        while !rest.is_empty() {
            match pvkit::cborx::read_prefix(rest) {
                Ok((_, n)) => {
                    match A::decode(&rest[..n]) {
                        Some(seen) => {
                            if let Some(c) = seen.cookie {
                                self.ctx.cookie = c;
                            }
                            kinds.push(seen.kind);
                        }
                        None => kinds.push("<undecodable>"),
                    }
                    rest = &rest[n..];
                }
                Err(_) => {
                    kinds.push("<malformed>");
                    break;
                }
            }
        }
        Ok(kinds)
    }

    /// (state, has_agency, is_done) as the agent reports them right now
    fn observe(&mut self) -> Observed {
        self.used.insert("state");
        let agency = self.agent.has_agency();
        let done = self.agent.is_done();
        if agency.is_some() {
            self.used.insert("has_agency");
        }
        if done.is_some() {
            self.used.insert("is_done");
        }
        Observed { state: self.agent.state(), agency, done }
    }
}

// --------------------------------------------------------------------------------------- oracle

fn sig<A: Agent>(state: &str, msg: &str, what: &str) -> String {
    format!("c23:{}:{}:{}:{}:{}", A::proto().name, A::ROLE.name(), state, msg, what)
}

#[derive(Debug, Clone, Copy)]
pub struct Observed {
    pub state: &'static str,
    pub agency: Option<bool>,
    pub done: Option<bool>,
}

/// The observers must agree with the specification table for the state the agent itself reports
/// (whether that state is the right one is judged separately, with its own signature).
fn judge_observers<A: Agent>(o: &Observed, after: &str) -> Result<(), Fail> {
    let p = A::proto();
    let Some(spec_state) = p.states.iter().find(|s| p.pallas_state(s) == o.state) else {
        return Ok(());
    };
    if let Some(h) = o.agency {
        let expected = p.agency(spec_state) == Some(A::ROLE);
        if h != expected {
            return Err(Fail {
                sig: sig::<A>(o.state, "has_agency", "observer"),
                msg: format!(
                    "{} {}: after {after}, state() = {} and has_agency() = {h}; the spec gives the agency in {} to {}",
                    A::NAME,
                    A::ROLE.name(),
                    o.state,
                    spec_state,
                    p.agency(spec_state).map(|r| r.name()).unwrap_or("nobody")
                ),
            });
        }
    }
    if let Some(d) = o.done {
        let expected = *spec_state == "Done";
        if d != expected {
            return Err(Fail {
                sig: sig::<A>(o.state, "is_done", "observer"),
                msg: format!("{} {}: after {after}, state() = {} and is_done() = {d}", A::NAME, A::ROLE.name(), o.state),
            });
        }
    }
    Ok(())
}

/// one message event of the spec simulation of an op
#[derive(Debug, Clone, Copy)]
struct Ev {
    /// spec state in which the message is sent / received
    state: &'static str,
    msg: &'static str,
    send: bool,
}

/// Spec simulation of an op with the given injected messages.
struct Sim {
    /// every event is a spec edge and the method runs to its end (or to an early `Stop`)
    legal: bool,
    /// the method consumed a spec-legal message it refuses (`Next::Refuse`)
    refused: bool,
    /// the method would read more messages than were injected (a harness table error)
    starved: bool,
    /// spec state after the last legal event
    end: &'static str,
    /// messages the legal Send steps put on the wire
    sends: Vec<&'static str>,
    evs: Vec<Ev>,
    /// index of the illegal event
    bad: Option<usize>,
}

fn simulate<A: Agent>(from: &'static str, op: &OpDef, inject: &[&'static str]) -> Sim {
    let p = A::proto();
    let mut sim = Sim { legal: false, refused: false, starved: false, end: from, sends: vec![], evs: vec![], bad: None };
    let mut pc = 0;
    let mut r = 0;
    while pc < op.steps.len() {
        match op.steps[pc] {
            Step::Send(m) => {
                sim.evs.push(Ev { state: sim.end, msg: m, send: true });
                match p.legal(sim.end, m, A::ROLE) {
                    Some(to) => {
                        sim.sends.push(m);
                        sim.end = to;
                        pc += 1;
                    }
                    None => {
                        sim.bad = Some(sim.evs.len() - 1);
                        return sim;
                    }
                }
            }
            st => {
                let Some(m) = inject.get(r).copied() else {
                    sim.starved = true;
                    return sim;
                };
                r += 1;
                sim.evs.push(Ev { state: sim.end, msg: m, send: false });
                match p.legal(sim.end, m, A::ROLE.other()) {
                    Some(to) => sim.end = to,
                    None => {
                        sim.bad = Some(sim.evs.len() - 1);
                        return sim;
                    }
                }
                let next = match st {
                    Step::RecvMap(map) => map.iter().find(|(k, _)| *k == m).map(|x| x.1).unwrap_or(Next::Refuse),
                    _ => Next::Cont,
                };
                match next {
                    Next::Cont => pc += 1,
                    Next::Again => {}
                    Next::Stop => break,
                    Next::Refuse => {
                        sim.refused = true;
                        return sim;
                    }
                }
            }
        }
    }
    sim.legal = true;
    sim
}

/// Every sequence of peer messages the method reads if each of its sends succeeds (loops bounded).
fn flows(p: &Proto, op: &OpDef) -> Vec<Vec<&'static str>> {
    const MAX_AGAIN: usize = 2;
    fn rec(p: &Proto, steps: &[Step], mut pc: usize, again: usize, prefix: &mut Vec<&'static str>, out: &mut Vec<Vec<&'static str>>) {
        while pc < steps.len() && matches!(steps[pc], Step::Send(_)) {
            pc += 1;
        }
        if pc >= steps.len() {
            out.push(prefix.clone());
            return;
        }
        for m in p.messages {
            prefix.push(m);
            let next = match steps[pc] {
                Step::RecvMap(map) => map.iter().find(|(k, _)| k == m).map(|x| x.1).unwrap_or(Next::Refuse),
                _ => Next::Cont,
            };
            match next {
                Next::Cont => rec(p, steps, pc + 1, 0, prefix, out),
                Next::Again => {
                    if again < MAX_AGAIN {
                        rec(p, steps, pc, again + 1, prefix, out)
                    }
                }
                Next::Stop | Next::Refuse => out.push(prefix.clone()),
            }
            prefix.pop();
        }
    }
    let mut out = vec![];
    rec(p, op.steps, 0, 0, &mut vec![], &mut out);
    out
}

pub struct Exec {
    pub out: OpOut,
    pub sent: Vec<&'static str>,
    pub seen: Observed,
}

async fn exec_op<A: Agent>(rig: &mut Rig<A>, op: &OpDef, inject: &[Inj]) -> Result<Exec, Trouble> {
    rig.used.insert(op.method());
    rig.ctx.hint = op.name;
    let out = if op.reactive {
        let ctx = Ctx { cookie: rig.ctx.cookie, hint: op.name };
        let Rig { agent, raw, stash, ctx: live, .. } = rig;
        let call = net::within("a high-level agent call", agent.op(op.name, &ctx));
        // the peer follows the method: after each message the agent sends it learns the cookie, then answers
        let peer = async {
            let mut r = 0;
            for st in op.steps {
                match st {
                    Step::Send(_) => match raw.recv().await {
                        Ok(RawRecv::Item(b)) => {
                            if let Some(c) = A::decode(&b).and_then(|s| s.cookie) {
                                live.cookie = c;
                            }
                            stash.extend(b);
                        }
                        Ok(RawRecv::Malformed(b)) => {
                            stash.extend(b);
                            break;
                        }
                        Err(_) => break,
                    },
                    _ => {
                        let Some(m) = inject.get(r) else { break };
                        r += 1;
                        let bytes = match m.bad {
                            None => A::encode(m.kind, live),
                            Some(v) => A::bad_payload(m.kind, v, live),
                        };
                        if raw.send(&bytes).await.is_err() {
                            break;
                        }
                    }
                }
            }
            std::future::pending::<()>().await
        };
        tokio::select! {
            biased;
            out = call => out?,
            _ = peer => unreachable!(),
        }
    } else {
        for m in inject {
            rig.inject(m).await?;
        }
        net::within("a high-level agent call", rig.agent.op(op.name, &rig.ctx)).await?
    };
    rig.ctx.hint = "";
    let sent = rig.wire().await?;
    Ok(Exec { out, sent, seen: rig.observe() })
}

#[derive(Debug, Clone, Copy, PartialEq, Eq)]
enum Verdict {
    Agrees,
    /// Ok although the send is illegal, but nothing was sent and the state did not move (tolerated)
    Noop,
    /// rejection of an exchange the method is not meant for
    NotMeant,
    Unjudged,
    /// method-level refusal of a spec-legal message: wire and state judged, result not
    Refused,
    Starved,
}

/// `full`: the op is meant for this state, so a legal exchange must be accepted; otherwise only
/// "never accepts an illegal exchange, never changes state on rejection" is asserted.
fn judge_op<A: Agent>(from: &'static str, op: &OpDef, inject: &[&'static str], ex: &Exec, full: bool) -> Result<Verdict, Fail> {
    let p = A::proto();
    let sim = simulate::<A>(from, op, inject);
    let here = format!("{} {} in {from}: {}({})", A::NAME, A::ROLE.name(), op.name, inject.join(","));
    let accepted = matches!(ex.out, OpOut::Accepted);
    let state = ex.seen.state;
    // an unjudged (state, message) pair anywhere in the exchange: skip
    if sim.evs.iter().any(|e| p.is_unjudged(e.state, e.msg)) {
        return Ok(Verdict::Unjudged);
    }
    if sim.starved || sim.evs.is_empty() {
        return Ok(Verdict::Starved);
    }
    let role_of = |e: &Ev| if e.send { A::ROLE.name() } else { A::ROLE.other().name() };
    let dir = |e: &Ev| if e.send { "send" } else { "recv" };
    let last_ev = sim.evs.len() - 1;
    let wire_and_state = |verdict: Verdict| -> Result<Verdict, Fail> {
        if ex.sent != sim.sends {
            let e = &sim.evs[sim.bad.unwrap_or(last_ev)];
            return Err(Fail {
                sig: sig::<A>(e.state, e.msg, "send"),
                msg: format!("{here}: the wire shows {:?}, the spec exchange sends {:?}", ex.sent, sim.sends),
            });
        }
        if state != p.pallas_state(sim.end) {
            // the last legal event is the one whose next state is wrong
            let last = match sim.bad {
                Some(0) => 0,
                Some(i) => i - 1,
                None => last_ev,
            };
            let e = &sim.evs[last];
            return Err(Fail {
                sig: sig::<A>(e.state, e.msg, "next-state"),
                msg: format!("{here}: state() = {state} afterwards, the spec says {}", sim.end),
            });
        }
        judge_observers::<A>(&ex.seen, &here)?;
        Ok(verdict)
    };
    if sim.refused {
        return wire_and_state(Verdict::Refused);
    }
    if accepted && !sim.legal {
        let e = &sim.evs[sim.bad.unwrap()];
        // tolerated: Ok, but nothing illegal was sent and the state did not move past the legal prefix
        let noop = e.send && ex.sent == sim.sends && state == p.pallas_state(sim.end);
        if noop {
            judge_observers::<A>(&ex.seen, &here)?;
            return Ok(Verdict::Noop);
        }
        return Err(Fail {
            sig: sig::<A>(e.state, e.msg, dir(e)),
            msg: format!("{here}: accepted although the spec has no edge ({}, {}) for the {}; wire {:?}, state() = {state}", e.state, e.msg, role_of(e), ex.sent),
        });
    }
    if !accepted && sim.legal {
        if !full {
            // rejection allowed; the state must not have moved
            if state != p.pallas_state(from) && op.steps.len() == 1 {
                let e = &sim.evs[0];
                return Err(Fail {
                    sig: sig::<A>(from, e.msg, dir(e)),
                    msg: format!("{here}: rejected ({:?}) but state() moved to {state}", ex.out),
                });
            }
            judge_observers::<A>(&ex.seen, &here)?;
            return Ok(Verdict::NotMeant);
        }
        // which event failed: the one after the last message seen on the wire
        let k = ex.sent.len();
        let mut sends_seen = 0;
        let mut idx = last_ev;
        for (i, e) in sim.evs.iter().enumerate() {
            if e.send {
                if sends_seen == k {
                    idx = i;
                    break;
                }
                sends_seen += 1;
            } else if sends_seen == k && sim.evs[i..].iter().all(|x| !x.send) {
                idx = i;
                break;
            }
        }
        let e = &sim.evs[idx];
        return Err(Fail {
            sig: sig::<A>(e.state, e.msg, dir(e)),
            msg: format!("{here}: rejected ({:?}) although the spec has the edge ({}, {}); wire {:?}, state() = {state}", ex.out, e.state, e.msg, ex.sent),
        });
    }
    // result agrees with the spec: wire and state
    wire_and_state(Verdict::Agrees)
}

async fn test_raw_send<A: Agent>(rig: &mut Rig<A>, from: &'static str, m: &'static str) -> Result<Result<(), Fail>, Trouble> {
    let p = A::proto();
    let before = rig.agent.state();
    rig.used.insert("send_message");
    let out = net::within("send_message", rig.agent.raw_send(m, &rig.ctx)).await?;
    let sent = rig.wire().await?;
    let seen = rig.observe();
    let after = seen.state;
    let legal = p.legal_coarse(from, m, A::ROLE);
    let here = format!("{} {} in {from}: send_message({m})", A::NAME, A::ROLE.name());
    let fail = |what: String| Ok(Err(Fail { sig: sig::<A>(from, m, "send"), msg: format!("{here}: {what}") }));
    if p.is_unjudged(from, m) {
        return Ok(Ok(()));
    }
    match (&out, legal) {
        (OpOut::Accepted, true) => {
            if sent != vec![m] {
                return fail(format!("Ok, but the wire shows {:?}", sent));
            }
        }
        (OpOut::Rejected(_), false) => {
            if !sent.is_empty() {
                return fail(format!("Err, but the wire shows {:?}", sent));
            }
        }
        (OpOut::Accepted, false) => return fail(format!("accepted although the spec has no such edge; wire {:?}", sent)),
        (OpOut::Rejected(e), true) => return fail(format!("rejected ({e}) although the spec lets the {} send {m} in {from}", A::ROLE.name())),
    }
    if after != before {
        return fail(format!("state() changed from {before} to {after} in a low-level send"));
    }
    Ok(judge_observers::<A>(&seen, &here))
}

async fn test_raw_recv<A: Agent>(rig: &mut Rig<A>, from: &'static str, m: &'static str) -> Result<Result<(), Fail>, Trouble> {
    let p = A::proto();
    let before = rig.agent.state();
    rig.inject(&Inj { kind: m, bad: None }).await?;
    rig.used.insert("recv_message");
    let out = net::within("recv_message", rig.agent.raw_recv()).await?;
    let seen = rig.observe();
    let after = seen.state;
    let legal = p.legal_coarse(from, m, A::ROLE.other());
    let here = format!("{} {} in {from}: recv_message() after the peer sent {m}", A::NAME, A::ROLE.name());
    let fail = |what: String| Ok(Err(Fail { sig: sig::<A>(from, m, "recv"), msg: format!("{here}: {what}") }));
    if p.is_unjudged(from, m) {
        return Ok(Ok(()));
    }
    match (&out, legal) {
        (Ok(k), true) => {
            if *k != m {
                return fail(format!("returned a {k}"));
            }
        }
        (Err(_), false) => {}
        (Ok(k), false) => return fail(format!("accepted ({k}) although the spec does not let the {} send it in {from}", A::ROLE.other().name())),
        (Err(e), true) => return fail(format!("rejected ({e}) although the spec lets the {} send it in {from}", A::ROLE.other().name())),
    }
    if after != before {
        return fail(format!("state() changed from {before} to {after} in a low-level receive"));
    }
    Ok(judge_observers::<A>(&seen, &here))
}

// ------------------------------------------------------------------------- reachability / paths

#[derive(Clone, Debug)]
pub struct Move {
    pub op: usize,
    pub inject: Vec<&'static str>,
    pub to: &'static str,
}

/// legal moves of one state; `groups`: indices of moves that are the same exchange in the spec
/// (same steps, same injected messages), so that walks choose an exchange first and a method second
pub struct MoveSet {
    pub moves: Vec<Move>,
    pub groups: Vec<Vec<usize>>,
}

/// legal moves available to the harness in spec state `s` (ops meant for `s`, legal injections)
fn compute_moves<A: Agent>(s: &'static str) -> MoveSet {
    let p = A::proto();
    let mut moves = vec![];
    for (i, op) in A::OPS.iter().enumerate() {
        if !op.from.is_empty() && !op.from.contains(&s) {
            continue;
        }
        for inj in flows(p, op) {
            let sim = simulate::<A>(s, op, &inj);
            if sim.legal && !sim.evs.is_empty() && !sim.evs.iter().any(|e| p.is_unjudged(e.state, e.msg)) {
                moves.push(Move { op: i, inject: inj, to: sim.end });
            }
        }
    }
    let mut groups: Vec<Vec<usize>> = vec![];
    for (i, m) in moves.iter().enumerate() {
        let same = |g: &Vec<usize>| {
            let o = &moves[g[0]];
            A::OPS[o.op].steps == A::OPS[m.op].steps && o.inject == m.inject && o.to == m.to
        };
        match groups.iter_mut().find(|g| same(g)) {
            Some(g) => g.push(i),
            None => groups.push(vec![i]),
        }
    }
    MoveSet { moves, groups }
}

type Paths = Vec<(&'static str, Vec<Move>)>;

#[derive(Default)]
struct Cache {
    moves: HashMap<(&'static str, &'static str), Arc<MoveSet>>,
    paths: HashMap<&'static str, Arc<Paths>>,
}

fn cache() -> &'static Mutex<Cache> {
    static C: OnceLock<Mutex<Cache>> = OnceLock::new();
    C.get_or_init(Default::default)
}

pub fn moves<A: Agent>(s: &'static str) -> Arc<MoveSet> {
    if let Some(m) = cache().lock().unwrap().moves.get(&(A::NAME, s)) {
        return m.clone();
    }
    let m = Arc::new(compute_moves::<A>(s));
    cache().lock().unwrap().moves.insert((A::NAME, s), m.clone());
    m
}

/// shortest sequences of moves from the initial state (BFS, single-step ops preferred)
pub fn paths<A: Agent>() -> Arc<Paths> {
    if let Some(p) = cache().lock().unwrap().paths.get(A::NAME) {
        return p.clone();
    }
    let p = A::proto();
    let mut found: Paths = vec![(p.initial, vec![])];
    let mut frontier = vec![p.initial];
    while !frontier.is_empty() {
        let mut next = vec![];
        for s in frontier {
            let base = found.iter().find(|(t, _)| *t == s).unwrap().1.clone();
            let mut ms = moves::<A>(s).moves.clone();
            ms.sort_by_key(|m| A::OPS[m.op].steps.len());
            for m in ms {
                if found.iter().all(|(t, _)| *t != m.to) {
                    let mut path = base.clone();
                    let to = m.to;
                    path.push(m);
                    found.push((to, path));
                    next.push(to);
                }
            }
        }
        frontier = next;
    }
    let found = Arc::new(found);
    cache().lock().unwrap().paths.insert(A::NAME, found.clone());
    found
}

async fn walk_prefix<A: Agent>(rig: &mut Rig<A>, path: &[Move]) -> Result<Result<(), Fail>, Trouble> {
    let mut cur = A::proto().initial;
    let first = rig.observe();
    if let Err(f) = judge_observers::<A>(&first, "new()") {
        return Ok(Err(f));
    }
    for m in path {
        let op = &A::OPS[m.op];
        let ex = exec_op(rig, op, &plain(&m.inject)).await?;
        if let Err(f) = judge_op::<A>(cur, op, &m.inject, &ex, true) {
            return Ok(Err(f));
        }
        cur = m.to;
    }
    let _ = cur;
    Ok(Ok(()))
}

// -------------------------------------------------------------------------------------- triples

#[derive(Debug, Clone, Serialize, Deserialize, PartialEq)]
pub struct Triple {
    pub agent: String,
    pub state: String,
    /// "raw-send" | "raw-recv" | "op"
    pub mode: String,
    /// op name for mode "op"
    pub op: String,
    /// the message (raw modes) or the messages injected for the op's Recv steps
    pub msgs: Vec<String>,
}

pub fn triples<A: Agent>() -> (Vec<Triple>, Vec<&'static str>) {
    let p = A::proto();
    let reach = paths::<A>();
    let mut out = vec![];
    let t = |state: &str, mode: &str, op: &str, msgs: Vec<&str>| Triple {
        agent: A::NAME.to_string(),
        state: state.to_string(),
        mode: mode.to_string(),
        op: op.to_string(),
        msgs: msgs.into_iter().map(String::from).collect(),
    };
    for (s, _) in reach.iter() {
        for m in p.messages {
            if A::RAW_SEND {
                out.push(t(s, "raw-send", "", vec![m]));
            }
            if A::RAW_RECV {
                out.push(t(s, "raw-recv", "", vec![m]));
            }
        }
        for op in A::OPS {
            let meant = op.from.is_empty() || op.from.contains(s);
            if !meant && (op.steps.len() > 1 || op.only_from) {
                continue;
            }
            for inj in flows(p, op) {
                out.push(t(s, "op", op.name, inj));
            }
        }
    }
    let unreachable = p.states.iter().filter(|s| reach.iter().all(|(r, _)| r != *s)).copied().collect();
    (out, unreachable)
}

fn intern(p: &Proto, name: &str) -> Option<&'static str> {
    p.messages.iter().chain(p.states.iter()).find(|m| **m == name).copied()
}

struct TripleOut {
    rare: bool,
    verdict: Verdict,
    used: BTreeSet<&'static str>,
}

async fn run_triple_async<A: Agent>(t: &Triple) -> Result<Result<TripleOut, Fail>, Trouble> {
    let p = A::proto();
    let Some(state) = intern(p, &t.state) else { return Err(Trouble::Io(format!("unknown state {}", t.state))) };
    let msgs: Option<Vec<&'static str>> = t.msgs.iter().map(|m| intern(p, m)).collect();
    let Some(msgs) = msgs else { return Err(Trouble::Io("unknown message".into())) };
    let reach = paths::<A>();
    let Some((_, path)) = reach.iter().find(|(s, _)| *s == state) else {
        return Err(Trouble::Io(format!("state {state} is not reachable through the agent's API")));
    };
    let mut rig = Rig::<A>::new()?;
    let res: Result<Result<(bool, Verdict), Fail>, Trouble> = async {
        if let Err(f) = walk_prefix(&mut rig, path).await? {
            return Ok(Err(f));
        }
        match t.mode.as_str() {
            "raw-send" => Ok(test_raw_send(&mut rig, state, msgs[0]).await?.map(|_| (!p.legal_coarse(state, msgs[0], A::ROLE) || !p.happy.contains(&msgs[0]), Verdict::Agrees))),
            "raw-recv" => Ok(test_raw_recv(&mut rig, state, msgs[0]).await?.map(|_| (!p.legal_coarse(state, msgs[0], A::ROLE.other()) || !p.happy.contains(&msgs[0]), Verdict::Agrees))),
            _ => {
                let Some(op) = A::OPS.iter().find(|o| o.name == t.op) else { return Err(Trouble::Io(format!("unknown op {}", t.op))) };
                let meant = op.from.is_empty() || op.from.contains(&state);
                let ex = exec_op(&mut rig, op, &plain(&msgs)).await?;
                let sim = simulate::<A>(state, op, &msgs);
                let rare = !sim.legal || sim.evs.iter().any(|e| !p.happy.contains(&e.msg));
                Ok(judge_op::<A>(state, op, &msgs, &ex, meant).map(|v| (rare, v)))
            }
        }
    }
    .await;
    let used = std::mem::take(&mut rig.used);
    rig.stop().await;
    res.map(|r| r.map(|(rare, verdict)| TripleOut { rare, verdict, used }))
}

fn note_used<A: Agent>(obs: &mut Obs, used: &BTreeSet<&'static str>) {
    for m in used {
        obs.class(format!("m:{}:{m}", A::NAME));
    }
}

fn run_triple<A: Agent>(s: &Session, t: &Triple, obs: &mut Obs) -> Result<(), Fail> {
    let rt = net::rt_current();
    let r = rt.block_on(run_triple_async::<A>(t));
    drop(rt);
    obs.class(format!("{}:{}", A::NAME, t.mode));
    match r {
        Err(tr) => {
            s.health(false, &format!("{} {} {} {}({}): {tr}", t.agent, t.state, t.mode, t.op, t.msgs.join(",")));
            obs.discard();
            Ok(())
        }
        Ok(Err(f)) => Err(f),
        Ok(Ok(o)) => {
            note_used::<A>(obs, &o.used);
            if o.rare {
                obs.nontrivial();
            }
            match o.verdict {
                Verdict::Noop => obs.class(format!("tolerated:{}:{}:ok-without-sending-or-state-change", A::NAME, t.op)),
                Verdict::Refused => obs.class(format!("method-level-refusal:{}:{}", A::NAME, t.op)),
                Verdict::Starved => obs.class("harness:op-table-reads-more-than-injected"),
                _ => {}
            }
            Ok(())
        }
    }
}

// ---------------------------------------------------------------------------------------- walks

#[derive(Debug, Clone, Serialize, Deserialize)]
pub struct Walk {
    pub agent: u16,
    /// (kind selector: 0..=5 legal move, 6 illegal raw send, 7 illegal raw recv; choice)
    pub steps: Vec<(u8, u16)>,
}

fn walk() -> impl Strategy<Value = Walk> {
    (any::<u16>(), prop::collection::vec((0u8..8, any::<u16>()), 1..=40)).prop_map(|(agent, steps)| Walk { agent, steps })
}

async fn run_walk_async<A: Agent>(w: &Walk) -> Result<Result<(usize, usize, BTreeSet<&'static str>), Fail>, Trouble> {
    let p = A::proto();
    let mut rig = Rig::<A>::new()?;
    let res: Result<Result<(usize, usize), Fail>, Trouble> = async {
        let mut cur = p.initial;
        let mut n_legal = 0;
        let mut n_illegal = 0;
        let first = rig.observe();
        if let Err(f) = judge_observers::<A>(&first, "new()") {
            return Ok(Err(f));
        }
        for (kind, choice) in &w.steps {
            if rig.agent.state() != p.pallas_state(cur) {
                break; // a known deviation moved the agent off the spec path
            }
            match kind {
                6 if A::RAW_SEND => {
                    let bad: Vec<&'static str> = p.messages.iter().filter(|m| !p.legal_coarse(cur, m, A::ROLE)).copied().collect();
                    if bad.is_empty() {
                        continue;
                    }
                    let m = bad[pick_idx(*choice, bad.len())];
                    if let Err(f) = test_raw_send(&mut rig, cur, m).await? {
                        return Ok(Err(f));
                    }
                    n_illegal += 1;
                }
                // only where the peer holds agency: the agent then reads (and thereby consumes) the
                // injected message before rejecting it, so the stream stays in step
                7 if A::RAW_RECV && p.agency(cur) == Some(A::ROLE.other()) => {
                    let bad: Vec<&'static str> = p.messages.iter().filter(|m| !p.legal_coarse(cur, m, A::ROLE.other())).copied().collect();
                    if bad.is_empty() {
                        continue;
                    }
                    let m = bad[pick_idx(*choice, bad.len())];
                    if let Err(f) = test_raw_recv(&mut rig, cur, m).await? {
                        return Ok(Err(f));
                    }
                    n_illegal += 1;
                }
                _ => {
                    let ms = moves::<A>(cur);
                    if ms.groups.is_empty() {
                        break;
                    }
                    // the exchange first, then one of the methods that perform it
                    let g = &ms.groups[pick_idx(*choice, ms.groups.len())];
                    let m = &ms.moves[g[*choice as usize % g.len()]];
                    let op = &A::OPS[m.op];
                    let ex = exec_op(&mut rig, op, &plain(&m.inject)).await?;
                    if let Err(f) = judge_op::<A>(cur, op, &m.inject, &ex, true) {
                        return Ok(Err(f));
                    }
                    cur = m.to;
                    n_legal += 1;
                }
            }
        }
        Ok(Ok((n_legal, n_illegal)))
    }
    .await;
    let used = std::mem::take(&mut rig.used);
    rig.stop().await;
    res.map(|r| r.map(|(a, b)| (a, b, used)))
}

fn run_walk<A: Agent>(s: &Session, w: &Walk, obs: &mut Obs) -> Result<(), Fail> {
    let rt = net::rt_current();
    let r = rt.block_on(run_walk_async::<A>(w));
    drop(rt);
    obs.class(format!("walk:{}", A::NAME));
    match r {
        Err(tr) => {
            s.health(false, &format!("walk on {}: {tr}", A::NAME));
            obs.discard();
            Ok(())
        }
        Ok(Err(f)) => Err(f),
        Ok(Ok((legal, illegal, _used))) => {
            if legal >= 4 && illegal >= 1 {
                obs.nontrivial();
            }
            Ok(())
        }
    }
}

// ------------------------------------------------------------------------- payload-level refusals

/// One payload case: a fresh agent is brought to `from`, then `via` is called (the low-level
/// receive, or a high-level method whose sends up to its first receive are legal from `from`) and the
/// peer's message of kind `kind` arrives with content `variant` ("valid": the control).
#[derive(Debug, Clone, Serialize, Deserialize, PartialEq)]
pub struct PayloadCase {
    pub agent: String,
    pub from: String,
    pub via: String,
    pub kind: String,
    pub variant: String,
}

/// (spec state in which the op's first receive happens, messages sent before it), if the sends are legal
fn first_recv<A: Agent>(from: &'static str, op: &OpDef) -> Option<(&'static str, Vec<&'static str>)> {
    let p = A::proto();
    let mut cur = from;
    let mut sends = vec![];
    for st in op.steps {
        match st {
            Step::Send(m) => {
                cur = p.legal(cur, m, A::ROLE)?;
                sends.push(*m);
            }
            _ => return Some((cur, sends)),
        }
    }
    None
}

pub fn payload_cases<A: Agent>() -> Vec<PayloadCase> {
    let p = A::proto();
    let mut out = vec![];
    let mut kinds: Vec<&'static str> = vec![];
    for (k, _, _) in A::BAD {
        if !kinds.contains(k) {
            kinds.push(k);
        }
    }
    let case = |from: &str, via: &str, kind: &str, variant: &str| PayloadCase {
        agent: A::NAME.into(),
        from: from.into(),
        via: via.into(),
        kind: kind.into(),
        variant: variant.into(),
    };
    for (s, _) in paths::<A>().iter() {
        if A::RAW_RECV {
            for k in &kinds {
                if p.legal(s, k, A::ROLE.other()).is_some() && !p.is_unjudged(s, k) {
                    out.push(case(s, "raw-recv", k, "valid"));
                    for (_, v, high_only) in A::BAD.iter().filter(|b| b.0 == *k) {
                        if !high_only {
                            out.push(case(s, "raw-recv", k, v));
                        }
                    }
                }
            }
        }
        for op in A::OPS {
            if !(op.from.is_empty() || op.from.contains(s)) {
                continue;
            }
            let Some((at, _)) = first_recv::<A>(s, op) else { continue };
            for k in &kinds {
                if p.legal(at, k, A::ROLE.other()).is_none() || p.is_unjudged(at, k) {
                    continue;
                }
                // control only where the valid message completes the call
                if op.n_recv() == 1 && !matches!(op.steps.last(), Some(Step::Send(_))) {
                    out.push(case(s, op.name, k, "valid"));
                }
                for (_, v, _) in A::BAD.iter().filter(|b| b.0 == *k) {
                    out.push(case(s, op.name, k, v));
                }
            }
        }
    }
    out
}

async fn run_payload_async<A: Agent>(c: &PayloadCase) -> Result<Result<BTreeSet<&'static str>, Fail>, Trouble> {
    let p = A::proto();
    let Some(from) = intern(p, &c.from) else { return Err(Trouble::Io(format!("unknown state {}", c.from))) };
    let Some(kind) = intern(p, &c.kind) else { return Err(Trouble::Io(format!("unknown message {}", c.kind))) };
    let bad: Option<&'static str> = if c.variant == "valid" {
        None
    } else {
        match A::BAD.iter().find(|b| b.0 == kind && b.1 == c.variant) {
            Some(b) => Some(b.1),
            None => return Err(Trouble::Io(format!("unknown payload variant {}", c.variant))),
        }
    };
    let reach = paths::<A>();
    let Some((_, path)) = reach.iter().find(|(s, _)| *s == from) else {
        return Err(Trouble::Io(format!("state {from} is not reachable through the agent's API")));
    };
    let class = c.variant.split('+').next().unwrap_or("").to_string();
    let mut rig = Rig::<A>::new()?;
    let res: Result<Result<(), Fail>, Trouble> = async {
        if let Err(f) = walk_prefix(&mut rig, path).await? {
            return Ok(Err(f));
        }
        let inj = Inj { kind, bad };
        // (accepted?, what the call said, wire, observers, state in which the message arrives, sends before it)
        let (accepted, said, sent, seen, at, sends) = if c.via == "raw-recv" {
            rig.inject(&inj).await?;
            rig.used.insert("recv_message");
            let out = net::within("recv_message", rig.agent.raw_recv()).await?;
            let sent = rig.wire().await?;
            (out.is_ok(), format!("{out:?}"), sent, rig.observe(), from, vec![])
        } else {
            let Some(op) = A::OPS.iter().find(|o| o.name == c.via) else { return Err(Trouble::Io(format!("unknown op {}", c.via))) };
            let Some((at, sends)) = first_recv::<A>(from, op) else { return Err(Trouble::Io(format!("{} does not receive from {from}", c.via))) };
            let ex = exec_op(&mut rig, op, &[inj]).await?;
            if bad.is_none() {
                // the control: the ordinary oracle
                return Ok(judge_op::<A>(from, op, &[kind], &ex, true).map(|_| ()));
            }
            (matches!(ex.out, OpOut::Accepted), format!("{:?}", ex.out), ex.sent, ex.seen, at, sends)
        };
        let here = format!("{} {} in {from}: {} with a {kind} whose content is '{}'", A::NAME, A::ROLE.name(), c.via, c.variant);
        if bad.is_none() {
            if !accepted {
                return Ok(Err(Fail { sig: sig::<A>(at, kind, "recv"), msg: format!("{here}: rejected ({said})") }));
            }
            return Ok(Ok(()));
        }
        if accepted {
            return Ok(Err(Fail {
                sig: sig::<A>(at, kind, &format!("payload:{class}:accepted")),
                msg: format!("{here}: accepted; state() = {}", seen.state),
            }));
        }
        if sent != sends {
            return Ok(Err(Fail {
                sig: sig::<A>(at, kind, &format!("payload:{class}:sent")),
                msg: format!("{here}: refused ({said}), but the wire shows {:?} instead of {:?}", sent, sends),
            }));
        }
        if seen.state != p.pallas_state(at) {
            return Ok(Err(Fail {
                sig: sig::<A>(at, kind, &format!("payload:{class}:state-changed")),
                msg: format!("{here}: refused ({said}), yet state() moved from {} to {}", p.pallas_state(at), seen.state),
            }));
        }
        Ok(judge_observers::<A>(&seen, &here))
    }
    .await;
    let used = std::mem::take(&mut rig.used);
    rig.stop().await;
    res.map(|r| r.map(|_| used))
}

fn run_payload<A: Agent>(s: &Session, c: &PayloadCase, obs: &mut Obs) -> Result<(), Fail> {
    let rt = net::rt_current();
    let r = rt.block_on(run_payload_async::<A>(c));
    drop(rt);
    let class = c.variant.split('+').next().unwrap_or("");
    obs.class(format!("payload:{}:{}:{}", A::NAME, c.kind, class));
    match r {
        Err(tr) => {
            s.health(false, &format!("payload case {} {} {} {} {}: {tr}", c.agent, c.from, c.via, c.kind, c.variant));
            obs.discard();
            Ok(())
        }
        Ok(Err(f)) => Err(f),
        Ok(Ok(used)) => {
            note_used::<A>(obs, &used);
            obs.nontrivial_if(c.variant != "valid");
            Ok(())
        }
    }
}

// --------------------------------------------------------------------------- method coverage table

/// names of the public functions of a pallas source file (`async_only`: only `pub async fn`), plus the
/// functions the `block_query_*_args!` macros of the local-state query module generate
fn scan_source(text: &str, async_only: bool) -> Vec<String> {
    let mut out = vec![];
    let mut in_macro_call = false;
    for line in text.lines() {
        let l = line.trim_start();
        if l.starts_with("block_query_with_args! {") || l.starts_with("block_query_no_args! {") {
            in_macro_call = true;
            continue;
        }
        if in_macro_call {
            if l.starts_with("#[") || l.is_empty() {
                continue;
            }
            in_macro_call = false;
            if let Some(name) = l.strip_suffix(',') {
                if name.chars().all(|c| c.is_ascii_alphanumeric() || c == '_') {
                    out.push(name.to_string());
                }
            }
            continue;
        }
        let rest = l.strip_prefix("pub async fn ").or_else(|| if async_only { None } else { l.strip_prefix("pub fn ") });
        if let Some(rest) = rest {
            let name: String = rest.chars().take_while(|c| c.is_ascii_alphanumeric() || *c == '_').collect();
            if !name.is_empty() && !rest.starts_with('$') {
                out.push(name);
            }
        }
    }
    out
}

/// constructors / destructors: neither send, receive nor observe
const NOT_PROTOCOL: &[&str] = &["new", "unwrap"];

fn check_methods<A: Agent>(s: &Session) {
    // 1. the hand-made table against the sources of the tree under test
    let mut in_source: Vec<String> = vec![];
    for (rel, async_only) in A::SOURCES {
        let path = pvkit::session::repo_dir().join(rel);
        match std::fs::read_to_string(&path) {
            Ok(text) => in_source.extend(scan_source(&text, *async_only)),
            Err(e) => s.health(false, &format!("{}: cannot read {} to compare the method table: {e}", A::NAME, path.display())),
        }
    }
    for m in &in_source {
        if !NOT_PROTOCOL.contains(&m.as_str()) && !A::METHODS.contains(&m.as_str()) {
            s.health(false, &format!("{}: public method `{m}` of the sources is not in the harness' method table (add it to METHODS and OPS)", A::NAME));
        }
    }
    for m in A::METHODS {
        if !in_source.iter().any(|x| x == m) {
            s.health(false, &format!("{}: method `{m}` of the harness' table is not a public method of the sources", A::NAME));
        }
    }
    // 2. the adapter against the table
    for op in A::OPS {
        if !A::METHODS.contains(&op.method()) {
            s.health(false, &format!("{}: op `{}` is not in the method table", A::NAME, op.name));
        }
    }
    // 3. every method of the table was called in at least one evaluated case
    if !s.replaying() {
        for m in A::METHODS {
            if s.class_count(&format!("m:{}:{m}", A::NAME)) == 0 {
                s.health(false, &format!("{}: public method `{m}` was not called in any evaluated case", A::NAME));
            }
        }
    }
}

// ------------------------------------------------------------------------------------- dispatch

macro_rules! for_agents {
    ($m:ident) => {
        $m! {
            ag::HsClient<ag::N2N>, ag::HsClient<ag::N2C>, ag::HsServer<ag::N2N>, ag::HsServer<ag::N2C>,
            ag::CsClient<ag::Hdr>, ag::CsClient<ag::Blk>, ag::CsServer<ag::Hdr>, ag::CsServer<ag::Blk>,
            ag::BfClient, ag::BfServer, ag::TxsClient, ag::TxsServer, ag::KaClient, ag::KaServer,
            ag::PsClient, ag::PsServer, ag::LsClient, ag::LsServer, ag::LtClient, ag::LtServer, ag::TmClient
        }
    };
}

macro_rules! all_triples {
    ($($a:ty),*) => {
        fn collect_triples() -> (Vec<Triple>, Vec<String>) {
            let mut all: Vec<Triple> = vec![];
            let mut unreachable: Vec<String> = vec![];
            $( { let (t, u) = triples::<$a>(); all.extend(t); unreachable.extend(u.into_iter().map(|s| format!("{}:{}", <$a as Agent>::NAME, s))); } )*
            (all, unreachable)
        }
        fn collect_payload_cases() -> Vec<PayloadCase> {
            let mut all: Vec<PayloadCase> = vec![];
            $( all.extend(payload_cases::<$a>()); )*
            all
        }
        fn check_all_methods(s: &Session) -> usize {
            let mut n = 0;
            $( check_methods::<$a>(s); n += <$a as Agent>::METHODS.len(); )*
            n
        }
    };
}
for_agents! { all_triples }

macro_rules! dispatch_triple {
    ($($a:ty),*) => {
        fn dispatch_triple(s: &Session, t: &Triple, obs: &mut Obs) -> Result<(), Fail> {
            $( if t.agent == <$a as Agent>::NAME { return run_triple::<$a>(s, t, obs); } )*
            s.health(false, &format!("unknown agent {}", t.agent));
            Ok(())
        }
        fn dispatch_payload(s: &Session, c: &PayloadCase, obs: &mut Obs) -> Result<(), Fail> {
            $( if c.agent == <$a as Agent>::NAME { return run_payload::<$a>(s, c, obs); } )*
            s.health(false, &format!("unknown agent {}", c.agent));
            Ok(())
        }
    };
}
for_agents! { dispatch_triple }

macro_rules! dispatch_walk {
    ($($a:ty),*) => {
        fn dispatch_walk(s: &Session, w: &Walk, obs: &mut Obs) -> Result<(), Fail> {
            let names: Vec<&'static str> = vec![$(<$a as Agent>::NAME),*];
            let pick = names[pick_idx(w.agent, names.len())];
            $( if pick == <$a as Agent>::NAME { return run_walk::<$a>(s, w, obs); } )*
            Ok(())
        }
    };
}
for_agents! { dispatch_walk }

/// The peer-sharing exchange for one requested amount (every value of the word8 is a legal request, 0 included): the
/// server must be in `Busy` after the request and back in `Idle` after its reply; the client likewise.
fn peersharing_amount(s: &Session, amount: &u8, obs: &mut Obs) -> Result<(), Fail> {
    const HINTS: [&str; 7] = ["amount:0", "amount:1", "amount:2", "amount:3", "amount:127", "amount:128", "amount:255"];
    let Some(hint) = HINTS.iter().copied().find(|h| h.strip_prefix("amount:").and_then(|n| n.parse::<u8>().ok()) == Some(*amount)) else {
        obs.discard();
        return Ok(());
    };
    let rt = net::rt_current();
    let r: Result<Result<(), Fail>, Trouble> = rt.block_on(async move {
        // server side
        let mut rig = Rig::<ag::PsServer>::new()?;
        rig.ctx.hint = hint;
        let res: Result<Result<(), Fail>, Trouble> = async {
            for round in 0..2 {
                rig.inject(&Inj { kind: "ShareRequest", bad: None }).await?;
                let ctx = Ctx { cookie: rig.ctx.cookie, hint };
                let out = rig.agent.op("recv_share_request", &ctx).await;
                let st = rig.agent.state();
                if !matches!(out, OpOut::Accepted) || st != "Busy" {
                    return Ok(Err(Fail { sig: "c23:peersharing:server:Idle:ShareRequest:not-busy-after-request".into(), msg: format!("{hint} round {round}: recv_share_request -> {out:?}, state {st} (specification: StBusy)") }));
                }
                let out = rig.agent.op("send_peer_addresses", &ctx).await;
                let st = rig.agent.state();
                if !matches!(out, OpOut::Accepted) || st != "Idle" {
                    return Ok(Err(Fail { sig: "c23:peersharing:server:Busy:SharePeers:reply-refused".into(), msg: format!("{hint} round {round}: send_peer_addresses -> {out:?}, state {st} (specification: StIdle)") }));
                }
                let _ = rig.wire().await?;
            }
            Ok(Ok(()))
        }
        .await;
        rig.stop().await;
        match res {
            Ok(Ok(())) => {}
            other => return other,
        }
        // client side
        let mut rig = Rig::<ag::PsClient>::new()?;
        rig.ctx.hint = hint;
        let res: Result<Result<(), Fail>, Trouble> = async {
            for round in 0..2 {
                let ctx = Ctx { cookie: rig.ctx.cookie, hint };
                let out = rig.agent.op("send_share_request", &ctx).await;
                let st = rig.agent.state();
                if !matches!(out, OpOut::Accepted) || st != "Busy" {
                    return Ok(Err(Fail { sig: "c23:peersharing:client:Idle:ShareRequest:not-busy-after-request".into(), msg: format!("{hint} round {round}: send_share_request -> {out:?}, state {st} (specification: StBusy)") }));
                }
                let _ = rig.wire().await?;
                rig.inject(&Inj { kind: "SharePeers", bad: None }).await?;
                let out = rig.agent.op("recv_peer_addresses", &ctx).await;
                let st = rig.agent.state();
                if !matches!(out, OpOut::Accepted) || st != "Idle" {
                    return Ok(Err(Fail { sig: "c23:peersharing:client:Busy:SharePeers:reply-refused".into(), msg: format!("{hint} round {round}: recv_peer_addresses -> {out:?}, state {st} (specification: StIdle)") }));
                }
            }
            Ok(Ok(()))
        }
        .await;
        rig.stop().await;
        res
    });
    drop(rt);
    obs.class(format!("peersharing:{hint}"));
    match r {
        Err(tr) => {
            s.health(false, &format!("peersharing amount case: {tr}"));
            obs.discard();
            Ok(())
        }
        Ok(Err(f)) => Err(f),
        Ok(Ok(())) => {
            obs.nontrivial();
            Ok(())
        }
    }
}

/// A reply that is legal by its kind but wrong in its content: the keep-alive server answers with another cookie than
/// the one requested. The client must report an error *and stay where it was* (state `Server`, no agency), as the
/// statement says for everything it rejects.
fn keepalive_cookie_mismatch(s: &Session, delta: &u16, obs: &mut Obs) -> Result<(), Fail> {
    let rt = net::rt_current();
    let delta = *delta;
    let r: Result<Result<(), Fail>, Trouble> = rt.block_on(async move {
        let mut rig = Rig::<ag::KaClient>::new()?;
        let res = async {
            let ctx0 = Ctx { cookie: rig.ctx.cookie, hint: "" };
            let out = rig.agent.op("send_keepalive_request", &ctx0).await;
            if let OpOut::Rejected(e) = &out {
                return Ok(Err(Fail { sig: "c23:keepalive:client:Client:KeepAlive:send-refused".into(), msg: format!("send_keepalive_request failed: {e}") }));
            }
            let _ = rig.wire().await?; // learns the cookie the client put on the wire
            let before = rig.agent.state();
            rig.ctx.cookie = rig.ctx.cookie.wrapping_add(delta);
            rig.inject(&Inj { kind: "ResponseKeepAlive", bad: None }).await?;
            let ctx1 = Ctx { cookie: rig.ctx.cookie, hint: "" };
            let out = rig.agent.op("recv_keepalive_response", &ctx1).await;
            let ok = matches!(out, OpOut::Accepted);
            let after = rig.agent.state();
            if delta == 0 {
                if !ok || after != "Client" {
                    return Ok(Err(Fail { sig: "c23:keepalive:client:Server:ResponseKeepAlive:matching-cookie-refused".into(), msg: format!("ok = {ok}, state {before} -> {after}") }));
                }
            } else {
                if ok {
                    return Ok(Err(Fail { sig: "c23:keepalive:client:Server:ResponseKeepAlive:wrong-cookie-accepted".into(), msg: format!("cookie off by {delta} accepted, state {before} -> {after}") }));
                }
                if after != before {
                    return Ok(Err(Fail {
                        sig: "c23:keepalive:client:Server:ResponseKeepAlive:rejected-but-state-changed".into(),
                        msg: format!("a response with a cookie off by {delta} was rejected, yet the client moved from {before} to {after}"),
                    }));
                }
            }
            Ok(Ok(()))
        }
        .await;
        rig.stop().await;
        res
    });
    drop(rt);
    obs.class(if delta == 0 { "keepalive:matching-cookie" } else { "keepalive:wrong-cookie" });
    match r {
        Err(tr) => {
            s.health(false, &format!("keepalive cookie case: {tr}"));
            obs.discard();
            Ok(())
        }
        Ok(Err(f)) => Err(f),
        Ok(Ok(())) => {
            obs.nontrivial_if(delta != 0);
            Ok(())
        }
    }
}

pub fn run(s: &Session) {
    s.set_rule(
        "triples: every (agent, reachable spec state, action) with action = low-level send of each message variant, low-level \
         receive of each injected message variant, each public high-level method with each sequence of injected peer messages the \
         method can read (loops up to 2 repetitions); after every action has_agency()/is_done() are compared with the spec; \
         non-trivial = the action is illegal in that state or involves a message outside the protocol's usual exchange; \
         payload-refusals: every (agent, state, receiving method or low-level receive, message kind legal there, content that \
         must be refused); non-trivial = the content is not the valid control; \
         walks: random walks (<=40 steps) over the spec graph through high-level methods with interleaved illegal low-level \
         sends/receives; non-trivial = >=4 legal steps and >=1 illegal attempt",
    );
    s.assume("spec tables in src/spec.rs transcribe network-spec.pdf chapter 3; injected messages are encoded with the pallas codec of the same protocol (C22 judges the codecs)");
    s.assume("tx-monitor: pallas has one Busy state for the spec's three; low-level receive is judged with the three merged, high-level methods with the spec's states");
    s.assume("a composite method that has consumed a spec-legal message it has no use for (fetch_single: empty batch, second block) may return anything; its state must be the spec state after that message");
    s.assume("domain-level error values after a legal exchange (NoBlocks, IntersectionNotFound, AcquirePoint*, InvalidCbor of a typed query result) count as the exchange having been accepted");
    for p in crate::spec::ALL {
        if let Err(e) = p.check() {
            s.health(false, &format!("spec table inconsistent: {e}"));
            return;
        }
        // states that pallas merges must agree on who has the agency (the observers are judged per pallas state)
        for (a, pa) in p.alias {
            for (b, pb) in p.alias {
                if pa == pb && p.agency(a) != p.agency(b) {
                    s.health(false, &format!("spec table {}: merged states {a}/{b} differ in agency", p.name));
                    return;
                }
            }
        }
    }
    let (all, unreachable) = collect_triples();
    s.note("unreachable_states", serde_json::json!(unreachable));
    s.note("triples", serde_json::json!(all.len()));
    s.foreach("triples", all, true, |t, obs| dispatch_triple(s, t, obs));
    s.foreach("keepalive-cookie-mismatch", vec![0u16, 1, 2, 0x00ff, 0x0100, 0x8000, 0xffff], true, |d, obs| keepalive_cookie_mismatch(s, d, obs));
    s.foreach("peersharing-amounts", vec![0u8, 1, 2, 3, 127, 128, 255], true, |a, obs| peersharing_amount(s, a, obs));
    let payload = collect_payload_cases();
    s.note("payload_cases", serde_json::json!(payload.len()));
    s.foreach("payload-refusals", payload, true, |c, obs| dispatch_payload(s, c, obs));
    // 50 000 (was 60 000): the exhaustive lists above grew by ~2 600 cases; keeps the quick tier at its previous cost
    s.forall("walks", s.pick(50_000, 1_000_000), walk, |w, obs| dispatch_walk(s, w, obs));
    let decoded = ag::ls_decoded();
    s.note("typed_query_results_decoded", serde_json::json!(decoded));
    if !s.replaying() {
        for h in ag::LS_DECODABLE {
            s.health(decoded.contains(h), &format!("localstate: the harness' result for `{h}` was never decoded by the helper (update its payload in ls_result)"));
        }
    }
    let n = check_all_methods(s);
    s.note("public_methods_in_table", serde_json::json!(n));
    if !s.replaying() {
        s.health(s.class_count("harness:op-table-reads-more-than-injected") == 0, "an op table reads more peer messages than its flows inject");
        for (a, m, k) in PAYLOAD_CLASSES {
            s.health(s.class_count(&format!("payload:{a}:{m}:{k}")) > 0, &format!("payload-refusals never produced a '{k}' {m} for {a}"));
        }
    }
}

/// (agent, kind, class) of payload cases that must have been evaluated (coverage of the generator)
const PAYLOAD_CLASSES: &[(&str, &str, &str)] = &[
    ("keepalive", "ResponseKeepAlive", "cookie"),
    ("keepalive", "ResponseKeepAlive", "cookie-range"),
    ("keepalive-server", "KeepAlive", "field1-type"),
    ("handshake-n2n", "Refuse", "reason-tag"),
    ("handshake-n2c", "Accept", "version-data"),
    ("handshake-server-n2n", "Propose", "version-data"),
    ("localstate", "Failure", "reason-code"),
    ("peersharing-server", "ShareRequest", "amount-range"),
    ("chainsync-n2n", "RollForward", "field1-type"),
    ("blockfetch", "Block", "field1-type"),
    ("txsubmission", "RequestTxs", "field1-type"),
    ("txmonitor", "Acquired", "field1-type"),
    ("localtxsubmission", "RejectTx", "field1-type"),
];
