//! C23 — net1 client/server agents follow the Ouroboros mini-protocol state machines (DESIGN §C23).
//!
//! Agent under test on one side of a Plexer pair; on the other side a raw peer that injects
//! encoded messages and reads what the agent puts on the wire. The oracle is `spec.rs`.
//!
//! Observations per (agent, spec state S, action), always on a fresh agent brought to S by a
//! shortest prefix of high-level calls (each prefix step is judged by the same oracle):
//!  * raw-send m:  `send_message(m)` is Ok and m appears on the wire  ⇔  the spec lets this role
//!    send m in S; otherwise Err, nothing on the wire, `state()` unchanged;
//!  * raw-recv m:  after injecting m, `recv_message()` is Ok(m)  ⇔  the peer may send m in S;
//!    otherwise Err and `state()` unchanged;
//!  * op:          a high-level method = a fixed sequence of Send(m)/Recv steps. With the peer's
//!    messages for the Recv steps injected beforehand, the call is Ok ⇔ every step is a spec edge;
//!    `state()` afterwards is the spec state after the last legal step; the wire shows exactly the
//!    messages of the legal Send steps. ("Ok with nothing sent and no state change" is tolerated
//!    for an illegal send: nothing was accepted for sending.)
use crate::c23_agents as ag;
use crate::net::{self, RawPeer, Sentinel, Trouble};
use crate::spec::{Proto, Role};
use pallas_network::multiplexer::AgentChannel;
use proptest::prelude::*;
use pvkit::{pick_idx, Fail, Obs, Session};
use serde::{Deserialize, Serialize};

#[derive(Debug, Clone, Copy, PartialEq, Eq)]
pub enum Step {
    Send(&'static str),
    Recv,
}

#[derive(Debug)]
pub struct OpDef {
    pub name: &'static str,
    pub steps: &'static [Step],
    /// spec states the method is meant for (empty: any state)
    pub from: &'static [&'static str],
    /// the method does something else outside `from` (state-dependent dispatch): never call it there
    pub only_from: bool,
}

pub struct Ctx {
    /// cookie of the last KeepAlive seen on the wire / used for injected KeepAlive messages
    pub cookie: u16,
}

#[derive(Debug, Clone)]
pub enum OpOut {
    Accepted,
    Rejected(String),
}

/// What an adapter reports about a message it decoded from the wire.
pub struct Seen {
    pub kind: &'static str,
    pub cookie: Option<u16>,
}

#[allow(async_fn_in_trait)]
pub trait Agent: Sized {
    const NAME: &'static str;
    const ROLE: Role;
    const PROTOCOL_ID: u16;
    const RAW_SEND: bool;
    const RAW_RECV: bool;
    const OPS: &'static [OpDef];
    fn proto() -> &'static Proto;
    fn new(ch: AgentChannel) -> Self;
    /// name of the pallas state (payload dropped)
    fn state(&self) -> &'static str;
    /// bytes of a representative message of this kind (for injection by the raw peer)
    fn encode(kind: &str, ctx: &Ctx) -> Vec<u8>;
    fn decode(bytes: &[u8]) -> Option<Seen>;
    async fn raw_send(&mut self, kind: &str, ctx: &Ctx) -> OpOut;
    async fn raw_recv(&mut self) -> Result<&'static str, String>;
    async fn op(&mut self, name: &str, ctx: &Ctx) -> OpOut;
}

// ------------------------------------------------------------------------------------------ rig

pub struct Rig<A: Agent> {
    pub agent: A,
    raw: RawPeer,
    sentinel: Sentinel,
    running: Option<net::Running>,
    pub ctx: Ctx,
}

impl<A: Agent> Rig<A> {
    pub fn new() -> Result<Self, Trouble> {
        let (mut pa, mut pb) = net::plexer_pair()?;
        let (agent_ch, raw_ch) = match A::ROLE {
            Role::Client => (pa.subscribe_client(A::PROTOCOL_ID), pb.subscribe_server(A::PROTOCOL_ID)),
            Role::Server => (pa.subscribe_server(A::PROTOCOL_ID), pb.subscribe_client(A::PROTOCOL_ID)),
        };
        let sentinel = Sentinel::subscribe(&mut pa, &mut pb);
        let running = net::Running(pa.spawn(), pb.spawn());
        Ok(Rig { agent: A::new(agent_ch), raw: RawPeer::new(raw_ch), sentinel, running: Some(running), ctx: Ctx { cookie: 0x5a17 } })
    }

    pub async fn stop(mut self) {
        if let Some(r) = self.running.take() {
            r.stop().await;
        }
    }

    pub async fn inject(&mut self, kind: &str) -> Result<(), Trouble> {
        let bytes = A::encode(kind, &self.ctx);
        self.raw.send(&bytes).await
    }

    /// Everything the agent has put on the wire so far (deterministic, see `net::Sentinel`).
    pub async fn wire(&mut self) -> Result<Vec<&'static str>, Trouble> {
        self.sentinel.flush().await?;
        let mut bytes = vec![];
        while let Some(c) = self.raw.pending().await {
            bytes.extend(c);
        }
        let mut kinds = vec![];
        let mut rest = &bytes[..];
        while !rest.is_empty() {
            match pvkit::cborx::read_prefix(rest) {
                Ok((_, n)) => {
                    match A::decode(&rest[..n]) {
                        Some(seen) => {
                            if let Some(c) = seen.cookie {
                                self.ctx.cookie = c;
                            }
                            kinds.push(seen.kind);
                        }
                        None => kinds.push("<undecodable>"),
                    }
                    rest = &rest[n..];
                }
                Err(_) => {
                    kinds.push("<malformed>");
                    break;
                }
            }
        }
        Ok(kinds)
    }
}

// --------------------------------------------------------------------------------------- oracle

fn sig<A: Agent>(state: &str, msg: &str, what: &str) -> String {
    format!("c23:{}:{}:{}:{}:{}", A::proto().name, A::ROLE.name(), state, msg, what)
}

/// Spec simulation of an op: (legal?, spec state after the last legal step, messages the legal
/// Send steps put on the wire, index of the first illegal step, spec state at that step).
struct Sim {
    legal: bool,
    end: &'static str,
    sends: Vec<&'static str>,
    /// (step index, spec state at that step)
    trace: Vec<&'static str>,
    bad: Option<usize>,
}

fn step_msg(op: &OpDef, inject: &[&'static str], idx: usize) -> (&'static str, bool) {
    let mut r = 0;
    for (i, st) in op.steps.iter().enumerate() {
        match st {
            Step::Send(m) => {
                if i == idx {
                    return (m, true);
                }
            }
            Step::Recv => {
                if i == idx {
                    return (inject.get(r).copied().unwrap_or("?"), false);
                }
                r += 1;
            }
        }
    }
    ("?", true)
}

fn simulate<A: Agent>(from: &'static str, op: &OpDef, inject: &[&'static str]) -> Sim {
    let p = A::proto();
    let mut cur = from;
    let mut sends = vec![];
    let mut trace = vec![];
    for i in 0..op.steps.len() {
        trace.push(cur);
        let (m, is_send) = step_msg(op, inject, i);
        let by = if is_send { A::ROLE } else { A::ROLE.other() };
        match p.legal(cur, m, by) {
            Some(to) => {
                if is_send {
                    sends.push(m);
                }
                cur = to;
            }
            None => return Sim { legal: false, end: cur, sends, trace, bad: Some(i) },
        }
    }
    Sim { legal: true, end: cur, sends, trace, bad: None }
}

pub struct Exec {
    pub out: OpOut,
    pub sent: Vec<&'static str>,
    pub state: &'static str,
}

async fn exec_op<A: Agent>(rig: &mut Rig<A>, op: &OpDef, inject: &[&'static str]) -> Result<Exec, Trouble> {
    for m in inject {
        rig.inject(m).await?;
    }
    let out = net::within("a high-level agent call", rig.agent.op(op.name, &rig.ctx)).await?;
    let sent = rig.wire().await?;
    Ok(Exec { out, sent, state: rig.agent.state() })
}

/// `full`: the op is meant for this state, so a legal exchange must be accepted; otherwise only
/// "never accepts an illegal exchange, never changes state on rejection" is asserted.
fn judge_op<A: Agent>(from: &'static str, op: &OpDef, inject: &[&'static str], ex: &Exec, full: bool) -> Result<bool, Fail> {
    let p = A::proto();
    let sim = simulate::<A>(from, op, inject);
    let here = format!("{} {} in {from}: {}({})", A::NAME, A::ROLE.name(), op.name, inject.join(","));
    let accepted = matches!(ex.out, OpOut::Accepted);
    // an unjudged (state, message) pair anywhere in the exchange: skip
    for i in 0..op.steps.len().min(sim.trace.len()) {
        if p.is_unjudged(sim.trace[i], step_msg(op, inject, i).0) {
            return Ok(false);
        }
    }
    if accepted && !sim.legal {
        let i = sim.bad.unwrap();
        let (m, is_send) = step_msg(op, inject, i);
        // tolerated: Ok, but nothing illegal was sent and the state did not move past the legal prefix
        let noop = is_send && ex.sent == sim.sends && ex.state == p.pallas_state(sim.end);
        if noop {
            return Ok(true);
        }
        return Err(Fail {
            sig: sig::<A>(sim.trace[i], m, if is_send { "send" } else { "recv" }),
            msg: format!("{here}: accepted although the spec has no edge ({}, {m}) for the {}; wire {:?}, state() = {}",
                sim.trace[i], if is_send { A::ROLE.name() } else { A::ROLE.other().name() }, ex.sent, ex.state),
        });
    }
    if !accepted && sim.legal {
        if !full {
            // rejection allowed; the state must not have moved
            if ex.state != p.pallas_state(from) && op.steps.len() == 1 {
                let (m, is_send) = step_msg(op, inject, 0);
                return Err(Fail {
                    sig: sig::<A>(from, m, if is_send { "send" } else { "recv" }),
                    msg: format!("{here}: rejected ({:?}) but state() moved to {}", ex.out, ex.state),
                });
            }
            return Ok(false);
        }
        // which step failed: the one after the last message seen on the wire
        let k = ex.sent.len();
        let mut sends_seen = 0;
        let mut idx = op.steps.len() - 1;
        for (i, st) in op.steps.iter().enumerate() {
            match st {
                Step::Send(_) => {
                    if sends_seen == k {
                        idx = i;
                        break;
                    }
                    sends_seen += 1;
                }
                Step::Recv => {
                    if sends_seen == k && op.steps[i..].iter().all(|s| matches!(s, Step::Recv)) {
                        idx = i;
                        break;
                    }
                }
            }
        }
        let (m, is_send) = step_msg(op, inject, idx);
        return Err(Fail {
            sig: sig::<A>(sim.trace[idx], m, if is_send { "send" } else { "recv" }),
            msg: format!("{here}: rejected ({:?}) although the spec has the edge ({}, {m}); wire {:?}, state() = {}",
                ex.out, sim.trace[idx], ex.sent, ex.state),
        });
    }
    // result agrees with the spec: wire and state
    if ex.sent != sim.sends {
        let i = sim.bad.unwrap_or(op.steps.len() - 1);
        let (m, _) = step_msg(op, inject, i);
        return Err(Fail {
            sig: sig::<A>(sim.trace[i.min(sim.trace.len() - 1)], m, "send"),
            msg: format!("{here}: the wire shows {:?}, the spec exchange sends {:?}", ex.sent, sim.sends),
        });
    }
    if ex.state != p.pallas_state(sim.end) {
        // the last legal step is the one whose next state is wrong
        let last = match sim.bad {
            Some(0) | None if !sim.legal => 0,
            Some(i) => i - 1,
            None => op.steps.len() - 1,
        };
        let (m, _) = step_msg(op, inject, last);
        return Err(Fail {
            sig: sig::<A>(sim.trace[last.min(sim.trace.len() - 1)], m, "next-state"),
            msg: format!("{here}: state() = {} afterwards, the spec says {}", ex.state, sim.end),
        });
    }
    Ok(false)
}

async fn test_raw_send<A: Agent>(rig: &mut Rig<A>, from: &'static str, m: &'static str) -> Result<Result<(), Fail>, Trouble> {
    let p = A::proto();
    let before = rig.agent.state();
    let out = net::within("send_message", rig.agent.raw_send(m, &rig.ctx)).await?;
    let sent = rig.wire().await?;
    let after = rig.agent.state();
    let legal = p.legal_coarse(from, m, A::ROLE);
    let here = format!("{} {} in {from}: send_message({m})", A::NAME, A::ROLE.name());
    let fail = |what: String| Ok(Err(Fail { sig: sig::<A>(from, m, "send"), msg: format!("{here}: {what}") }));
    if p.is_unjudged(from, m) {
        return Ok(Ok(()));
    }
    match (&out, legal) {
        (OpOut::Accepted, true) => {
            if sent != vec![m] {
                return fail(format!("Ok, but the wire shows {:?}", sent));
            }
        }
        (OpOut::Rejected(_), false) => {
            if !sent.is_empty() {
                return fail(format!("Err, but the wire shows {:?}", sent));
            }
        }
        (OpOut::Accepted, false) => return fail(format!("accepted although the spec has no such edge; wire {:?}", sent)),
        (OpOut::Rejected(e), true) => return fail(format!("rejected ({e}) although the spec lets the {} send {m} in {from}", A::ROLE.name())),
    }
    if after != before {
        return fail(format!("state() changed from {before} to {after} in a low-level send"));
    }
    Ok(Ok(()))
}

async fn test_raw_recv<A: Agent>(rig: &mut Rig<A>, from: &'static str, m: &'static str) -> Result<Result<(), Fail>, Trouble> {
    let p = A::proto();
    let before = rig.agent.state();
    rig.inject(m).await?;
    let out = net::within("recv_message", rig.agent.raw_recv()).await?;
    let after = rig.agent.state();
    let legal = p.legal_coarse(from, m, A::ROLE.other());
    let here = format!("{} {} in {from}: recv_message() after the peer sent {m}", A::NAME, A::ROLE.name());
    let fail = |what: String| Ok(Err(Fail { sig: sig::<A>(from, m, "recv"), msg: format!("{here}: {what}") }));
    if p.is_unjudged(from, m) {
        return Ok(Ok(()));
    }
    match (&out, legal) {
        (Ok(k), true) => {
            if *k != m {
                return fail(format!("returned a {k}"));
            }
        }
        (Err(_), false) => {}
        (Ok(k), false) => return fail(format!("accepted ({k}) although the spec does not let the {} send it in {from}", A::ROLE.other().name())),
        (Err(e), true) => return fail(format!("rejected ({e}) although the spec lets the {} send it in {from}", A::ROLE.other().name())),
    }
    if after != before {
        return fail(format!("state() changed from {before} to {after} in a low-level receive"));
    }
    Ok(Ok(()))
}

// ------------------------------------------------------------------------- reachability / paths

#[derive(Clone, Debug)]
pub struct Move {
    pub op: usize,
    pub inject: Vec<&'static str>,
    pub to: &'static str,
}

fn injections(p: &Proto, n: usize) -> Vec<Vec<&'static str>> {
    let mut out: Vec<Vec<&'static str>> = vec![vec![]];
    for _ in 0..n {
        out = out.into_iter().flat_map(|v| p.messages.iter().map(move |m| { let mut w = v.clone(); w.push(*m); w })).collect();
    }
    out
}

fn n_recv(op: &OpDef) -> usize {
    op.steps.iter().filter(|s| matches!(s, Step::Recv)).count()
}

/// legal moves available to the harness in spec state `s` (ops meant for `s`, legal injections)
pub fn moves<A: Agent>(s: &'static str) -> Vec<Move> {
    let p = A::proto();
    let mut out = vec![];
    for (i, op) in A::OPS.iter().enumerate() {
        if !op.from.is_empty() && !op.from.contains(&s) {
            continue;
        }
        for inj in injections(p, n_recv(op)) {
            let sim = simulate::<A>(s, op, &inj);
            if sim.legal && !(0..op.steps.len()).any(|k| p.is_unjudged(sim.trace[k], step_msg(op, &inj, k).0)) {
                out.push(Move { op: i, inject: inj, to: sim.end });
            }
        }
    }
    out
}

/// shortest sequences of moves from the initial state (BFS, single-step ops preferred)
pub fn paths<A: Agent>() -> Vec<(&'static str, Vec<Move>)> {
    let p = A::proto();
    let mut found: Vec<(&'static str, Vec<Move>)> = vec![(p.initial, vec![])];
    let mut frontier = vec![p.initial];
    while !frontier.is_empty() {
        let mut next = vec![];
        for s in frontier {
            let base = found.iter().find(|(t, _)| *t == s).unwrap().1.clone();
            let mut ms = moves::<A>(s);
            ms.sort_by_key(|m| A::OPS[m.op].steps.len());
            for m in ms {
                if found.iter().all(|(t, _)| *t != m.to) {
                    let mut path = base.clone();
                    let to = m.to;
                    path.push(m);
                    found.push((to, path));
                    next.push(to);
                }
            }
        }
        frontier = next;
    }
    found
}

async fn walk_prefix<A: Agent>(rig: &mut Rig<A>, path: &[Move]) -> Result<Result<(), Fail>, Trouble> {
    let mut cur = A::proto().initial;
    for m in path {
        let op = &A::OPS[m.op];
        let ex = exec_op(rig, op, &m.inject).await?;
        if let Err(f) = judge_op::<A>(cur, op, &m.inject, &ex, true) {
            return Ok(Err(f));
        }
        cur = m.to;
    }
    let _ = cur;
    Ok(Ok(()))
}

// -------------------------------------------------------------------------------------- triples

#[derive(Debug, Clone, Serialize, Deserialize, PartialEq)]
pub struct Triple {
    pub agent: String,
    pub state: String,
    /// "raw-send" | "raw-recv" | "op"
    pub mode: String,
    /// op name for mode "op"
    pub op: String,
    /// the message (raw modes) or the messages injected for the op's Recv steps
    pub msgs: Vec<String>,
}

pub fn triples<A: Agent>() -> (Vec<Triple>, Vec<&'static str>) {
    let p = A::proto();
    let reach = paths::<A>();
    let mut out = vec![];
    let t = |state: &str, mode: &str, op: &str, msgs: Vec<&str>| Triple {
        agent: A::NAME.to_string(),
        state: state.to_string(),
        mode: mode.to_string(),
        op: op.to_string(),
        msgs: msgs.into_iter().map(String::from).collect(),
    };
    for (s, _) in &reach {
        for m in p.messages {
            if A::RAW_SEND {
                out.push(t(s, "raw-send", "", vec![m]));
            }
            if A::RAW_RECV {
                out.push(t(s, "raw-recv", "", vec![m]));
            }
        }
        for op in A::OPS {
            let meant = op.from.is_empty() || op.from.contains(s);
            if !meant && (op.steps.len() > 1 || op.only_from) {
                continue;
            }
            for inj in injections(p, n_recv(op)) {
                out.push(t(s, "op", op.name, inj));
            }
        }
    }
    let unreachable = p.states.iter().filter(|s| reach.iter().all(|(r, _)| r != *s)).copied().collect();
    (out, unreachable)
}

fn intern(p: &Proto, name: &str) -> Option<&'static str> {
    p.messages.iter().chain(p.states.iter()).find(|m| **m == name).copied()
}

async fn run_triple_async<A: Agent>(t: &Triple) -> Result<Result<(bool, bool), Fail>, Trouble> {
    let p = A::proto();
    let Some(state) = intern(p, &t.state) else { return Err(Trouble::Io(format!("unknown state {}", t.state))) };
    let msgs: Option<Vec<&'static str>> = t.msgs.iter().map(|m| intern(p, m)).collect();
    let Some(msgs) = msgs else { return Err(Trouble::Io("unknown message".into())) };
    let reach = paths::<A>();
    let Some((_, path)) = reach.iter().find(|(s, _)| *s == state) else {
        return Err(Trouble::Io(format!("state {state} is not reachable through the agent's API")));
    };
    let mut rig = Rig::<A>::new()?;
    let res = async {
        if let Err(f) = walk_prefix(&mut rig, path).await? {
            return Ok(Err(f));
        }
        match t.mode.as_str() {
            "raw-send" => Ok(test_raw_send(&mut rig, state, msgs[0]).await?.map(|_| (!p.legal_coarse(state, msgs[0], A::ROLE) || !p.happy.contains(&msgs[0]), false))),
            "raw-recv" => Ok(test_raw_recv(&mut rig, state, msgs[0]).await?.map(|_| (!p.legal_coarse(state, msgs[0], A::ROLE.other()) || !p.happy.contains(&msgs[0]), false))),
            _ => {
                let Some(op) = A::OPS.iter().find(|o| o.name == t.op) else { return Err(Trouble::Io(format!("unknown op {}", t.op))) };
                let meant = op.from.is_empty() || op.from.contains(&state);
                let ex = exec_op(&mut rig, op, &msgs).await?;
                let sim = simulate::<A>(state, op, &msgs);
                let rare = !sim.legal || (0..op.steps.len()).any(|k| !p.happy.contains(&step_msg(op, &msgs, k).0));
                Ok(judge_op::<A>(state, op, &msgs, &ex, meant).map(|noop| (rare, noop)))
            }
        }
    }
    .await;
    rig.stop().await;
    res
}

fn run_triple<A: Agent>(s: &Session, t: &Triple, obs: &mut Obs) -> Result<(), Fail> {
    let rt = net::rt_current();
    let r = rt.block_on(run_triple_async::<A>(t));
    drop(rt);
    obs.class(format!("{}:{}", A::NAME, t.mode));
    match r {
        Err(tr) => {
            s.health(false, &format!("{} {} {} {}({}): {tr}", t.agent, t.state, t.mode, t.op, t.msgs.join(",")));
            obs.discard();
            Ok(())
        }
        Ok(Err(f)) => Err(f),
        Ok(Ok((rare, noop))) => {
            if rare {
                obs.nontrivial();
            }
            if noop {
                obs.class(format!("tolerated:{}:{}:ok-without-sending-or-state-change", A::NAME, t.op));
            }
            Ok(())
        }
    }
}

// ---------------------------------------------------------------------------------------- walks

#[derive(Debug, Clone, Serialize, Deserialize)]
pub struct Walk {
    pub agent: u16,
    /// (kind selector: 0..=5 legal move, 6 illegal raw send, 7 illegal raw recv; choice)
    pub steps: Vec<(u8, u16)>,
}

fn walk() -> impl Strategy<Value = Walk> {
    (any::<u16>(), prop::collection::vec((0u8..8, any::<u16>()), 1..=40)).prop_map(|(agent, steps)| Walk { agent, steps })
}

async fn run_walk_async<A: Agent>(w: &Walk) -> Result<Result<(usize, usize), Fail>, Trouble> {
    let p = A::proto();
    let mut rig = Rig::<A>::new()?;
    let res = async {
        let mut cur = p.initial;
        let mut n_legal = 0;
        let mut n_illegal = 0;
        for (kind, choice) in &w.steps {
            if rig.agent.state() != p.pallas_state(cur) {
                break; // a known deviation moved the agent off the spec path
            }
            match kind {
                6 if A::RAW_SEND => {
                    let bad: Vec<&'static str> = p.messages.iter().filter(|m| !p.legal_coarse(cur, m, A::ROLE)).copied().collect();
                    if bad.is_empty() {
                        continue;
                    }
                    let m = bad[pick_idx(*choice, bad.len())];
                    if let Err(f) = test_raw_send(&mut rig, cur, m).await? {
                        return Ok(Err(f));
                    }
                    n_illegal += 1;
                }
                // only where the peer holds agency: the agent then reads (and thereby consumes) the
                // injected message before rejecting it, so the stream stays in step
                7 if A::RAW_RECV && p.agency(cur) == Some(A::ROLE.other()) => {
                    let bad: Vec<&'static str> = p.messages.iter().filter(|m| !p.legal_coarse(cur, m, A::ROLE.other())).copied().collect();
                    if bad.is_empty() {
                        continue;
                    }
                    let m = bad[pick_idx(*choice, bad.len())];
                    if let Err(f) = test_raw_recv(&mut rig, cur, m).await? {
                        return Ok(Err(f));
                    }
                    n_illegal += 1;
                }
                _ => {
                    let ms = moves::<A>(cur);
                    if ms.is_empty() {
                        break;
                    }
                    let m = &ms[pick_idx(*choice, ms.len())];
                    let op = &A::OPS[m.op];
                    let ex = exec_op(&mut rig, op, &m.inject).await?;
                    if let Err(f) = judge_op::<A>(cur, op, &m.inject, &ex, true) {
                        return Ok(Err(f));
                    }
                    cur = m.to;
                    n_legal += 1;
                }
            }
        }
        Ok(Ok((n_legal, n_illegal)))
    }
    .await;
    rig.stop().await;
    res
}

fn run_walk<A: Agent>(s: &Session, w: &Walk, obs: &mut Obs) -> Result<(), Fail> {
    let rt = net::rt_current();
    let r = rt.block_on(run_walk_async::<A>(w));
    drop(rt);
    obs.class(format!("walk:{}", A::NAME));
    match r {
        Err(tr) => {
            s.health(false, &format!("walk on {}: {tr}", A::NAME));
            obs.discard();
            Ok(())
        }
        Ok(Err(f)) => Err(f),
        Ok(Ok((legal, illegal))) => {
            if legal >= 4 && illegal >= 1 {
                obs.nontrivial();
            }
            Ok(())
        }
    }
}

// ------------------------------------------------------------------------------------- dispatch

macro_rules! for_agents {
    ($m:ident) => {
        $m! {
            ag::HsClient<ag::N2N>, ag::HsClient<ag::N2C>, ag::HsServer<ag::N2N>, ag::HsServer<ag::N2C>,
            ag::CsClient<ag::Hdr>, ag::CsClient<ag::Blk>, ag::CsServer<ag::Hdr>, ag::CsServer<ag::Blk>,
            ag::BfClient, ag::BfServer, ag::TxsClient, ag::TxsServer, ag::KaClient, ag::KaServer,
            ag::PsClient, ag::PsServer, ag::LsClient, ag::LsServer, ag::LtClient, ag::LtServer, ag::TmClient
        }
    };
}

macro_rules! all_triples {
    ($($a:ty),*) => {
        fn collect_triples() -> (Vec<Triple>, Vec<String>) {
            let mut all: Vec<Triple> = vec![];
            let mut unreachable: Vec<String> = vec![];
            $( { let (t, u) = triples::<$a>(); all.extend(t); unreachable.extend(u.into_iter().map(|s| format!("{}:{}", <$a as Agent>::NAME, s))); } )*
            (all, unreachable)
        }
    };
}
for_agents! { all_triples }

macro_rules! dispatch_triple {
    ($($a:ty),*) => {
        fn dispatch_triple(s: &Session, t: &Triple, obs: &mut Obs) -> Result<(), Fail> {
            $( if t.agent == <$a as Agent>::NAME { return run_triple::<$a>(s, t, obs); } )*
            s.health(false, &format!("unknown agent {}", t.agent));
            Ok(())
        }
    };
}
for_agents! { dispatch_triple }

macro_rules! dispatch_walk {
    ($($a:ty),*) => {
        fn dispatch_walk(s: &Session, w: &Walk, obs: &mut Obs) -> Result<(), Fail> {
            let names: Vec<&'static str> = vec![$(<$a as Agent>::NAME),*];
            let pick = names[pick_idx(w.agent, names.len())];
            $( if pick == <$a as Agent>::NAME { return run_walk::<$a>(s, w, obs); } )*
            Ok(())
        }
    };
}
for_agents! { dispatch_walk }

/// A reply that is legal by its kind but wrong in its content: the keep-alive server answers with another cookie than
/// the one requested. The client must report an error *and stay where it was* (state `Server`, no agency), as the
/// statement says for everything it rejects.
fn keepalive_cookie_mismatch(s: &Session, delta: &u16, obs: &mut Obs) -> Result<(), Fail> {
    let rt = net::rt_current();
    let delta = *delta;
    let r: Result<Result<(), Fail>, Trouble> = rt.block_on(async move {
        let mut rig = Rig::<ag::KaClient>::new()?;
        let res = async {
            let ctx0 = Ctx { cookie: rig.ctx.cookie };
            let out = rig.agent.op("send_keepalive_request", &ctx0).await;
            if let OpOut::Rejected(e) = &out {
                return Ok(Err(Fail { sig: "c23:keepalive:client:Client:KeepAlive:send-refused".into(), msg: format!("send_keepalive_request failed: {e}") }));
            }
            let _ = rig.wire().await?; // learns the cookie the client put on the wire
            let before = rig.agent.state();
            rig.ctx.cookie = rig.ctx.cookie.wrapping_add(delta);
            rig.inject("ResponseKeepAlive").await?;
            let ctx1 = Ctx { cookie: rig.ctx.cookie };
            let out = rig.agent.op("recv_keepalive_response", &ctx1).await;
            let ok = matches!(out, OpOut::Accepted);
            let after = rig.agent.state();
            if delta == 0 {
                if !ok || after != "Client" {
                    return Ok(Err(Fail { sig: "c23:keepalive:client:Server:ResponseKeepAlive:matching-cookie-refused".into(), msg: format!("ok = {ok}, state {before} -> {after}") }));
                }
            } else {
                if ok {
                    return Ok(Err(Fail { sig: "c23:keepalive:client:Server:ResponseKeepAlive:wrong-cookie-accepted".into(), msg: format!("cookie off by {delta} accepted, state {before} -> {after}") }));
                }
                if after != before {
                    return Ok(Err(Fail {
                        sig: "c23:keepalive:client:Server:ResponseKeepAlive:rejected-but-state-changed".into(),
                        msg: format!("a response with a cookie off by {delta} was rejected, yet the client moved from {before} to {after}"),
                    }));
                }
            }
            Ok(Ok(()))
        }
        .await;
        rig.stop().await;
        res
    });
    drop(rt);
    obs.class(if delta == 0 { "keepalive:matching-cookie" } else { "keepalive:wrong-cookie" });
    match r {
        Err(tr) => {
            s.health(false, &format!("keepalive cookie case: {tr}"));
            obs.discard();
            Ok(())
        }
        Ok(Err(f)) => Err(f),
        Ok(Ok(())) => {
            obs.nontrivial_if(delta != 0);
            Ok(())
        }
    }
}

pub fn run(s: &Session) {
    s.set_rule(
        "triples: every (agent, reachable spec state, action) with action = low-level send of each message variant, low-level \
         receive of each injected message variant, each high-level method with each combination of injected peer messages; \
         non-trivial = the action is illegal in that state or involves a message outside the protocol's usual exchange; \
         walks: random walks (<=40 steps) over the spec graph through high-level methods with interleaved illegal low-level \
         sends/receives; non-trivial = >=4 legal steps and >=1 illegal attempt",
    );
    s.assume("spec tables in src/spec.rs transcribe network-spec.pdf chapter 3; injected messages are encoded with the pallas codec of the same protocol (C22 judges the codecs)");
    s.assume("tx-monitor: pallas has one Busy state for the spec's three; low-level receive is judged with the three merged, high-level methods with the spec's states");
    for p in crate::spec::ALL {
        if let Err(e) = p.check() {
            s.health(false, &format!("spec table inconsistent: {e}"));
            return;
        }
    }
    let (all, unreachable) = collect_triples();
    s.note("unreachable_states", serde_json::json!(unreachable));
    s.note("triples", serde_json::json!(all.len()));
    s.foreach("triples", all, true, |t, obs| dispatch_triple(s, t, obs));
    s.foreach("keepalive-cookie-mismatch", vec![0u16, 1, 2, 0x00ff, 0x0100, 0x8000, 0xffff], true, |d, obs| keepalive_cookie_mismatch(s, d, obs));
    s.forall("walks", s.pick(60_000, 1_000_000), walk, |w, obs| dispatch_walk(s, w, obs));
}
