//! Adapters of the pallas-network (net1) mini-protocol agents for the C23 harness: for each agent
//! its public low-level calls, its high-level methods as sequences of Send/Recv steps, and
//! representative payloads for every message variant.
use crate::c23::{corrupt, Agent, BadDef, Ctx, Next, OpDef, OpOut, Seen, Step};
use crate::spec::{self, Proto, Role};
use pallas_codec::minicbor;
use pallas_codec::utils::AnyCbor;
use pallas_network::miniprotocols::{
    blockfetch as bf, chainsync as cs, handshake as hs, keepalive as ka, localstate as ls, localtxsubmission as lt, peersharing as ps,
    txmonitor as tm, txsubmission as txs, Point,
};
use pallas_network::multiplexer::AgentChannel;
use pallas_codec::utils::TagWrap;
use pallas_network::miniprotocols::localstate::queries_v16 as q;
use pallas_network::miniprotocols::localtxsubmission::SMaybe;
use std::collections::BTreeSet;
use std::fmt::Debug;
use std::marker::PhantomData;

use Step::{Recv, RecvMap, Send};

fn out<T, E: Debug>(r: Result<T, E>) -> OpOut {
    match r {
        Ok(_) => OpOut::Accepted,
        Err(e) => OpOut::Rejected(format!("{e:?}")),
    }
}

fn seen(kind: &'static str) -> Seen {
    Seen { kind, cookie: None }
}

fn pt() -> Point {
    Point::Specific(7, vec![7; 32])
}

const fn op(name: &'static str, steps: &'static [Step], from: &'static [&'static str]) -> OpDef {
    OpDef { name, steps, from, only_from: false, reactive: false }
}

const fn op_only(name: &'static str, steps: &'static [Step], from: &'static [&'static str]) -> OpDef {
    OpDef { name, steps, from, only_from: true, reactive: false }
}

/// the peer can only answer after it has seen what the agent sends in the same call
const fn op_reactive(name: &'static str, steps: &'static [Step], from: &'static [&'static str]) -> OpDef {
    OpDef { name, steps, from, only_from: false, reactive: true }
}

/// `[label, item]` built with the independent CBOR kit
fn two(label: u64, item: pvkit::cborx::Node) -> Vec<u8> {
    use pvkit::cborx;
    cborx::write(&cborx::array(vec![cborx::uint(label), item]))
}

/// observers of an agent that publishes `is_done()` and `has_agency()`
macro_rules! observers {
    (both) => {
        fn has_agency(&self) -> Option<bool> {
            Some(self.0.has_agency())
        }
        fn is_done(&self) -> Option<bool> {
            Some(self.0.is_done())
        }
    };
    (done) => {
        fn has_agency(&self) -> Option<bool> {
            None // private
        }
        fn is_done(&self) -> Option<bool> {
            Some(self.0.is_done())
        }
    };
    (none) => {
        fn has_agency(&self) -> Option<bool> {
            None // private
        }
        fn is_done(&self) -> Option<bool> {
            None // not offered
        }
    };
}

macro_rules! codec_fns {
    ($msg:ty, $build:path, $seen:path) => {
        fn encode(kind: &str, ctx: &Ctx) -> Vec<u8> {
            let m: $msg = $build(kind, ctx);
            minicbor::to_vec(&m).expect("harness message encodes")
        }
        fn decode(bytes: &[u8]) -> Option<Seen> {
            minicbor::decode::<$msg>(bytes).ok().map(|m| $seen(&m))
        }
    };
}

macro_rules! raw_fns {
    ($build:path, $seen:path) => {
        async fn raw_send(&mut self, kind: &str, ctx: &Ctx) -> OpOut {
            out(self.0.send_message(&$build(kind, ctx)).await)
        }
        async fn raw_recv(&mut self) -> Result<&'static str, String> {
            self.0.recv_message().await.map(|m| $seen(&m).kind).map_err(|e| format!("{e:?}"))
        }
    };
}

// ------------------------------------------------------------------------------------ handshake

pub trait HsFlavour: 'static {
    type D: Debug + Clone + PartialEq + minicbor::Encode<()> + for<'b> minicbor::Decode<'b, ()>;
    const N2N: bool;
    fn data() -> Self::D;
    /// version data of another network
    fn other_data() -> Self::D;
}
pub struct N2N;
pub struct N2C;
impl HsFlavour for N2N {
    type D = hs::n2n::VersionData;
    const N2N: bool = true;
    fn data() -> Self::D {
        hs::n2n::VersionData::new(764824073, false, Some(0), Some(false))
    }
    fn other_data() -> Self::D {
        hs::n2n::VersionData::new(1, false, Some(0), Some(false))
    }
}
impl HsFlavour for N2C {
    type D = hs::n2c::VersionData;
    const N2N: bool = false;
    fn data() -> Self::D {
        hs::n2c::VersionData::new(764824073, Some(false))
    }
    fn other_data() -> Self::D {
        hs::n2c::VersionData::new(1, Some(false))
    }
}

fn hs_table<F: HsFlavour>() -> hs::VersionTable<F::D> {
    hs::VersionTable { values: [(13u64, F::data()), (14u64, F::data())].into_iter().collect() }
}

fn hs_build<F: HsFlavour>(kind: &str, _ctx: &Ctx) -> hs::Message<F::D> {
    match kind {
        "Propose" => hs::Message::Propose(hs_table::<F>()),
        "Accept" => hs::Message::Accept(14, F::data()),
        "Refuse" => hs::Message::Refuse(hs::RefuseReason::VersionMismatch(vec![13, 14])),
        "QueryReply" => hs::Message::QueryReply(hs_table::<F>()),
        k => panic!("harness: unknown handshake message {k}"),
    }
}

fn hs_seen<D: Debug + Clone>(m: &hs::Message<D>) -> Seen {
    seen(match m {
        hs::Message::Propose(_) => "Propose",
        hs::Message::Accept(..) => "Accept",
        hs::Message::Refuse(_) => "Refuse",
        hs::Message::QueryReply(_) => "QueryReply",
    })
}

/// handshake content that must be refused: version data that is a text string, a refuse reason with an
/// unknown tag (CDDL: refuseReason = [0, [*versionNumber]] / [1, versionNumber, tstr] / [2, versionNumber, tstr])
fn hs_bad<F: HsFlavour>(kind: &str, variant: &str, ctx: &Ctx) -> Vec<u8> {
    use pvkit::cborx::{array, map, text, uint, write};
    match (kind, variant) {
        ("Accept", "version-data") => write(&array(vec![uint(1), uint(14), text("bad")])),
        ("Refuse", "reason-tag") => write(&array(vec![uint(2), array(vec![uint(9), uint(14), text("x")])])),
        ("Propose", "version-data") => two(0, map(vec![(uint(13), text("bad"))])),
        _ => corrupt(&minicbor::to_vec(&hs_build::<F>(kind, ctx)).expect("harness message encodes"), variant),
    }
}

fn hs_state(s: &hs::State) -> &'static str {
    match s {
        hs::State::Propose => "Propose",
        hs::State::Confirm => "Confirm",
        hs::State::Done => "Done",
    }
}

pub struct HsClient<F: HsFlavour>(hs::Client<F::D>);
pub struct HsServer<F: HsFlavour>(hs::Server<F::D>);

impl<F: HsFlavour> Agent for HsClient<F> {
    const NAME: &'static str = if F::N2N { "handshake-n2n" } else { "handshake-n2c" };
    const ROLE: Role = Role::Client;
    const PROTOCOL_ID: u16 = 0;
    const RAW_SEND: bool = true;
    const RAW_RECV: bool = true;
    const OPS: &'static [OpDef] = &[
        op("send_propose", &[Send("Propose")], &[]),
        op("recv_while_confirm", &[Recv], &["Confirm"]),
        op("handshake", &[Send("Propose"), Recv], &[]),
    ];
    const METHODS: &'static [&'static str] =
        &["state", "is_done", "has_agency", "send_message", "recv_message", "send_propose", "recv_while_confirm", "handshake"];
    const SOURCES: &'static [(&'static str, bool)] = &[("pallas-network/src/miniprotocols/handshake/client.rs", false)];
    const BAD: &'static [BadDef] = &[
        ("Accept", "field1-type", false),
        ("Accept", "version-data", false),
        ("Refuse", "field1-type", false),
        ("Refuse", "reason-tag", false),
        ("QueryReply", "field1-type", false),
    ];
    fn proto() -> &'static Proto {
        &spec::HANDSHAKE
    }
    fn new(ch: AgentChannel) -> Self {
        HsClient(hs::Client::new(ch))
    }
    fn state(&self) -> &'static str {
        hs_state(self.0.state())
    }
    observers!(both);
    fn bad_payload(kind: &str, variant: &str, ctx: &Ctx) -> Vec<u8> {
        hs_bad::<F>(kind, variant, ctx)
    }
    fn encode(kind: &str, ctx: &Ctx) -> Vec<u8> {
        minicbor::to_vec(&hs_build::<F>(kind, ctx)).expect("harness message encodes")
    }
    fn decode(bytes: &[u8]) -> Option<Seen> {
        minicbor::decode::<hs::Message<F::D>>(bytes).ok().map(|m| hs_seen(&m))
    }
    async fn raw_send(&mut self, kind: &str, ctx: &Ctx) -> OpOut {
        out(self.0.send_message(&hs_build::<F>(kind, ctx)).await)
    }
    async fn raw_recv(&mut self) -> Result<&'static str, String> {
        self.0.recv_message().await.map(|m| hs_seen(&m).kind).map_err(|e| format!("{e:?}"))
    }
    async fn op(&mut self, name: &str, _ctx: &Ctx) -> OpOut {
        match name {
            "send_propose" => out(self.0.send_propose(hs_table::<F>()).await),
            "recv_while_confirm" => out(self.0.recv_while_confirm().await),
            "handshake" => out(self.0.handshake(hs_table::<F>()).await),
            n => panic!("harness: unknown op {n}"),
        }
    }
}

impl<F: HsFlavour> Agent for HsServer<F> {
    const NAME: &'static str = if F::N2N { "handshake-server-n2n" } else { "handshake-server-n2c" };
    const ROLE: Role = Role::Server;
    const PROTOCOL_ID: u16 = 0;
    const RAW_SEND: bool = true;
    const RAW_RECV: bool = true;
    const OPS: &'static [OpDef] = &[
        op("receive_proposed_versions", &[Recv], &["Propose"]),
        op("accept_version", &[Send("Accept")], &[]),
        op("refuse", &[Send("Refuse")], &[]),
        // the composite: the peer's proposal is the harness table {13, 14}; the responder's own table decides the answer
        op("handshake(common-version)", &[Recv, Send("Accept")], &[]),
        op("handshake(other-data)", &[Recv, Send("Refuse")], &[]),
        op("handshake(no-common-version)", &[Recv, Send("Refuse")], &[]),
    ];
    const METHODS: &'static [&'static str] = &[
        "state", "is_done", "has_agency", "send_message", "recv_message", "receive_proposed_versions", "accept_version", "refuse", "handshake",
    ];
    const SOURCES: &'static [(&'static str, bool)] = &[("pallas-network/src/miniprotocols/handshake/server.rs", false)];
    const BAD: &'static [BadDef] = &[("Propose", "field1-type", false), ("Propose", "version-data", false)];
    fn proto() -> &'static Proto {
        &spec::HANDSHAKE
    }
    fn new(ch: AgentChannel) -> Self {
        HsServer(hs::Server::new(ch))
    }
    fn state(&self) -> &'static str {
        hs_state(self.0.state())
    }
    observers!(both);
    fn bad_payload(kind: &str, variant: &str, ctx: &Ctx) -> Vec<u8> {
        hs_bad::<F>(kind, variant, ctx)
    }
    fn encode(kind: &str, ctx: &Ctx) -> Vec<u8> {
        minicbor::to_vec(&hs_build::<F>(kind, ctx)).expect("harness message encodes")
    }
    fn decode(bytes: &[u8]) -> Option<Seen> {
        minicbor::decode::<hs::Message<F::D>>(bytes).ok().map(|m| hs_seen(&m))
    }
    async fn raw_send(&mut self, kind: &str, ctx: &Ctx) -> OpOut {
        out(self.0.send_message(&hs_build::<F>(kind, ctx)).await)
    }
    async fn raw_recv(&mut self) -> Result<&'static str, String> {
        self.0.recv_message().await.map(|m| hs_seen(&m).kind).map_err(|e| format!("{e:?}"))
    }
    async fn op(&mut self, name: &str, _ctx: &Ctx) -> OpOut {
        match name {
            "receive_proposed_versions" => out(self.0.receive_proposed_versions().await),
            "accept_version" => out(self.0.accept_version(14, F::data()).await),
            "refuse" => out(self.0.refuse(hs::RefuseReason::Refused(14, "no".into())).await),
            "handshake(common-version)" => out(self.0.handshake(hs_table::<F>()).await),
            "handshake(other-data)" => out(self.0.handshake(hs::VersionTable { values: [(14u64, F::other_data())].into_iter().collect() }).await),
            "handshake(no-common-version)" => out(self.0.handshake(hs::VersionTable { values: [(7u64, F::data())].into_iter().collect() }).await),
            n => panic!("harness: unknown op {n}"),
        }
    }
}

// ------------------------------------------------------------------------------------ chainsync

pub trait CsContent: 'static {
    type C: Debug + Clone + minicbor::Encode<()> + for<'b> minicbor::Decode<'b, ()>;
    const N2N: bool;
    fn content() -> Self::C;
}
pub struct Hdr;
pub struct Blk;
impl CsContent for Hdr {
    type C = cs::HeaderContent;
    const N2N: bool = true;
    fn content() -> Self::C {
        cs::HeaderContent { variant: 1, byron_prefix: None, cbor: vec![0x80] }
    }
}
impl CsContent for Blk {
    type C = cs::BlockContent;
    const N2N: bool = false;
    fn content() -> Self::C {
        cs::BlockContent(vec![0x80])
    }
}

fn tip() -> cs::Tip {
    cs::Tip(pt(), 9)
}

fn cs_build<K: CsContent>(kind: &str, _ctx: &Ctx) -> cs::Message<K::C> {
    match kind {
        "RequestNext" => cs::Message::RequestNext,
        "AwaitReply" => cs::Message::AwaitReply,
        "RollForward" => cs::Message::RollForward(K::content(), tip()),
        "RollBackward" => cs::Message::RollBackward(pt(), tip()),
        "FindIntersect" => cs::Message::FindIntersect(vec![pt(), Point::Origin]),
        "IntersectFound" => cs::Message::IntersectFound(pt(), tip()),
        "IntersectNotFound" => cs::Message::IntersectNotFound(tip()),
        "Done" => cs::Message::Done,
        k => panic!("harness: unknown chainsync message {k}"),
    }
}

fn cs_seen<C>(m: &cs::Message<C>) -> Seen {
    seen(match m {
        cs::Message::RequestNext => "RequestNext",
        cs::Message::AwaitReply => "AwaitReply",
        cs::Message::RollForward(..) => "RollForward",
        cs::Message::RollBackward(..) => "RollBackward",
        cs::Message::FindIntersect(_) => "FindIntersect",
        cs::Message::IntersectFound(..) => "IntersectFound",
        cs::Message::IntersectNotFound(_) => "IntersectNotFound",
        cs::Message::Done => "Done",
    })
}

fn cs_state(s: &cs::State) -> &'static str {
    match s {
        cs::State::Idle => "Idle",
        cs::State::CanAwait => "CanAwait",
        cs::State::MustReply => "MustReply",
        cs::State::Intersect => "Intersect",
        cs::State::Done => "Done",
    }
}

pub struct CsClient<K: CsContent>(cs::Client<K::C>, PhantomData<K>);
pub struct CsServer<K: CsContent>(cs::Server<K::C>, PhantomData<K>);

impl<K: CsContent> Agent for CsClient<K> {
    const NAME: &'static str = if K::N2N { "chainsync-n2n" } else { "chainsync-n2c" };
    const ROLE: Role = Role::Client;
    const PROTOCOL_ID: u16 = if K::N2N { 2 } else { 5 };
    const RAW_SEND: bool = true;
    const RAW_RECV: bool = true;
    const OPS: &'static [OpDef] = &[
        op("send_find_intersect", &[Send("FindIntersect")], &[]),
        op("recv_intersect_response", &[Recv], &["Intersect"]),
        op("find_intersect", &[Send("FindIntersect"), Recv], &[]),
        op("intersect_origin", &[Send("FindIntersect"), Recv], &[]),
        op("send_request_next", &[Send("RequestNext")], &[]),
        op("recv_while_can_await", &[Recv], &["CanAwait"]),
        op("recv_while_must_reply", &[Recv], &["MustReply"]),
        op("request_next", &[Send("RequestNext"), Recv], &[]),
        op_only("request_or_await_next@idle", &[Send("RequestNext"), Recv], &["Idle"]),
        op_only("request_or_await_next@wait", &[Recv], &["MustReply"]),
        op("send_done", &[Send("Done")], &[]),
        // two find-intersect rounds: for the origin (to learn the tip), then for the tip
        op("intersect_tip", &[Send("FindIntersect"), Recv, Send("FindIntersect"), Recv], &[]),
    ];
    const METHODS: &'static [&'static str] = &[
        "state", "is_done", "has_agency", "send_message", "recv_message", "send_find_intersect", "recv_intersect_response", "find_intersect",
        "send_request_next", "recv_while_can_await", "recv_while_must_reply", "request_next", "request_or_await_next", "intersect_origin",
        "intersect_tip", "send_done",
    ];
    const SOURCES: &'static [(&'static str, bool)] = &[("pallas-network/src/miniprotocols/chainsync/client.rs", false)];
    const BAD: &'static [BadDef] = &[
        ("RollForward", "field1-type", false),
        ("RollBackward", "field1-type", false),
        ("IntersectFound", "field1-type", false),
        ("IntersectNotFound", "field1-type", false),
    ];
    fn proto() -> &'static Proto {
        &spec::CHAINSYNC
    }
    fn new(ch: AgentChannel) -> Self {
        CsClient(cs::Client::new(ch), PhantomData)
    }
    fn state(&self) -> &'static str {
        cs_state(self.0.state())
    }
    observers!(both);
    fn encode(kind: &str, ctx: &Ctx) -> Vec<u8> {
        minicbor::to_vec(&cs_build::<K>(kind, ctx)).expect("harness message encodes")
    }
    fn decode(bytes: &[u8]) -> Option<Seen> {
        minicbor::decode::<cs::Message<K::C>>(bytes).ok().map(|m| cs_seen(&m))
    }
    async fn raw_send(&mut self, kind: &str, ctx: &Ctx) -> OpOut {
        out(self.0.send_message(&cs_build::<K>(kind, ctx)).await)
    }
    async fn raw_recv(&mut self) -> Result<&'static str, String> {
        self.0.recv_message().await.map(|m| cs_seen(&m).kind).map_err(|e| format!("{e:?}"))
    }
    async fn op(&mut self, name: &str, _ctx: &Ctx) -> OpOut {
        match name {
            "send_find_intersect" => out(self.0.send_find_intersect(vec![pt()]).await),
            "recv_intersect_response" => out(self.0.recv_intersect_response().await),
            "find_intersect" => out(self.0.find_intersect(vec![pt()]).await),
            // "no intersection" is reported as an error value after the legal exchange
            "intersect_origin" => match self.0.intersect_origin().await {
                Err(cs::ClientError::IntersectionNotFound) => OpOut::Accepted,
                r => out(r),
            },
            "intersect_tip" => match self.0.intersect_tip().await {
                Err(cs::ClientError::IntersectionNotFound) => OpOut::Accepted,
                r => out(r),
            },
            "send_request_next" => out(self.0.send_request_next().await),
            "recv_while_can_await" => out(self.0.recv_while_can_await().await),
            "recv_while_must_reply" => out(self.0.recv_while_must_reply().await),
            "request_next" => out(self.0.request_next().await),
            "request_or_await_next@idle" | "request_or_await_next@wait" => out(self.0.request_or_await_next().await),
            "send_done" => out(self.0.send_done().await),
            n => panic!("harness: unknown op {n}"),
        }
    }
}

impl<K: CsContent> Agent for CsServer<K> {
    const NAME: &'static str = if K::N2N { "chainsync-server-n2n" } else { "chainsync-server-n2c" };
    const ROLE: Role = Role::Server;
    const PROTOCOL_ID: u16 = if K::N2N { 2 } else { 5 };
    const RAW_SEND: bool = true;
    const RAW_RECV: bool = false; // recv_message is private
    const OPS: &'static [OpDef] = &[
        op("recv_while_idle", &[Recv], &["Idle"]),
        op("send_intersect_not_found", &[Send("IntersectNotFound")], &[]),
        op("send_intersect_found", &[Send("IntersectFound")], &[]),
        op("send_roll_forward", &[Send("RollForward")], &[]),
        op("send_roll_backward", &[Send("RollBackward")], &[]),
        op("send_await_reply", &[Send("AwaitReply")], &[]),
    ];
    const METHODS: &'static [&'static str] = &[
        "state", "is_done", "has_agency", "send_message", "recv_while_idle", "send_intersect_not_found", "send_intersect_found",
        "send_roll_forward", "send_roll_backward", "send_await_reply",
    ];
    const SOURCES: &'static [(&'static str, bool)] = &[("pallas-network/src/miniprotocols/chainsync/server.rs", false)];
    const BAD: &'static [BadDef] = &[("FindIntersect", "field1-type", false)];
    fn proto() -> &'static Proto {
        &spec::CHAINSYNC
    }
    fn new(ch: AgentChannel) -> Self {
        CsServer(cs::Server::new(ch), PhantomData)
    }
    fn state(&self) -> &'static str {
        cs_state(self.0.state())
    }
    observers!(both);
    fn encode(kind: &str, ctx: &Ctx) -> Vec<u8> {
        minicbor::to_vec(&cs_build::<K>(kind, ctx)).expect("harness message encodes")
    }
    fn decode(bytes: &[u8]) -> Option<Seen> {
        minicbor::decode::<cs::Message<K::C>>(bytes).ok().map(|m| cs_seen(&m))
    }
    async fn raw_send(&mut self, kind: &str, ctx: &Ctx) -> OpOut {
        out(self.0.send_message(&cs_build::<K>(kind, ctx)).await)
    }
    async fn raw_recv(&mut self) -> Result<&'static str, String> {
        Err("not public".into())
    }
    async fn op(&mut self, name: &str, _ctx: &Ctx) -> OpOut {
        match name {
            "recv_while_idle" => out(self.0.recv_while_idle().await),
            "send_intersect_not_found" => out(self.0.send_intersect_not_found(tip()).await),
            "send_intersect_found" => out(self.0.send_intersect_found(pt(), tip()).await),
            "send_roll_forward" => out(self.0.send_roll_forward(K::content(), tip()).await),
            "send_roll_backward" => out(self.0.send_roll_backward(pt(), tip()).await),
            "send_await_reply" => out(self.0.send_await_reply().await),
            n => panic!("harness: unknown op {n}"),
        }
    }
}

// ----------------------------------------------------------------------------------- blockfetch

fn bf_build(kind: &str, _ctx: &Ctx) -> bf::Message {
    match kind {
        "RequestRange" => bf::Message::RequestRange { range: (pt(), pt()) },
        "ClientDone" => bf::Message::ClientDone,
        "StartBatch" => bf::Message::StartBatch,
        "NoBlocks" => bf::Message::NoBlocks,
        "Block" => bf::Message::Block { body: vec![0x80] },
        "BatchDone" => bf::Message::BatchDone,
        k => panic!("harness: unknown blockfetch message {k}"),
    }
}
fn bf_seen(m: &bf::Message) -> Seen {
    seen(match m {
        bf::Message::RequestRange { .. } => "RequestRange",
        bf::Message::ClientDone => "ClientDone",
        bf::Message::StartBatch => "StartBatch",
        bf::Message::NoBlocks => "NoBlocks",
        bf::Message::Block { .. } => "Block",
        bf::Message::BatchDone => "BatchDone",
    })
}
fn bf_state(s: &bf::State) -> &'static str {
    match s {
        bf::State::Idle => "Idle",
        bf::State::Busy => "Busy",
        bf::State::Streaming => "Streaming",
        bf::State::Done => "Done",
    }
}

pub struct BfClient(bf::Client);
pub struct BfServer(bf::Server);

impl Agent for BfClient {
    const NAME: &'static str = "blockfetch";
    const ROLE: Role = Role::Client;
    const PROTOCOL_ID: u16 = 3;
    const RAW_SEND: bool = true;
    const RAW_RECV: bool = true;
    const OPS: &'static [OpDef] = &[
        op("send_request_range", &[Send("RequestRange")], &[]),
        op("recv_while_busy", &[Recv], &["Busy"]),
        op("request_range", &[Send("RequestRange"), Recv], &[]),
        op("recv_while_streaming", &[Recv], &["Streaming"]),
        op("send_done", &[Send("ClientDone")], &[]),
        // exactly one block: NoBlocks ends the call (error value NoBlocks); an empty batch or a second block are
        // spec-legal messages the method has no use for
        op(
            "fetch_single",
            &[
                Send("RequestRange"),
                RecvMap(&[("StartBatch", Next::Cont), ("NoBlocks", Next::Stop)]),
                RecvMap(&[("Block", Next::Cont), ("BatchDone", Next::Refuse)]),
                RecvMap(&[("BatchDone", Next::Stop), ("Block", Next::Refuse)]),
            ],
            &[],
        ),
        // collects blocks until BatchDone
        op(
            "fetch_range",
            &[
                Send("RequestRange"),
                RecvMap(&[("StartBatch", Next::Cont), ("NoBlocks", Next::Stop)]),
                RecvMap(&[("Block", Next::Again), ("BatchDone", Next::Stop)]),
            ],
            &[],
        ),
    ];
    const METHODS: &'static [&'static str] = &[
        "state", "is_done", "send_message", "recv_message", "send_request_range", "recv_while_busy", "request_range", "recv_while_streaming",
        "fetch_single", "fetch_range", "send_done",
    ];
    const SOURCES: &'static [(&'static str, bool)] = &[("pallas-network/src/miniprotocols/blockfetch/client.rs", false)];
    const BAD: &'static [BadDef] = &[("Block", "field1-type", false)];
    fn proto() -> &'static Proto {
        &spec::BLOCKFETCH
    }
    fn new(ch: AgentChannel) -> Self {
        BfClient(bf::Client::new(ch))
    }
    fn state(&self) -> &'static str {
        bf_state(self.0.state())
    }
    observers!(done);
    codec_fns!(bf::Message, bf_build, bf_seen);
    raw_fns!(bf_build, bf_seen);
    async fn op(&mut self, name: &str, _ctx: &Ctx) -> OpOut {
        match name {
            "send_request_range" => out(self.0.send_request_range((pt(), pt())).await),
            "recv_while_busy" => out(self.0.recv_while_busy().await),
            "request_range" => out(self.0.request_range((pt(), pt())).await),
            "recv_while_streaming" => out(self.0.recv_while_streaming().await),
            "send_done" => out(self.0.send_done().await),
            // "no blocks" is reported as an error value after the legal exchange
            "fetch_single" => match self.0.fetch_single(pt()).await {
                Err(bf::ClientError::NoBlocks) => OpOut::Accepted,
                r => out(r),
            },
            "fetch_range" => match self.0.fetch_range((pt(), pt())).await {
                Err(bf::ClientError::NoBlocks) => OpOut::Accepted,
                r => out(r),
            },
            n => panic!("harness: unknown op {n}"),
        }
    }
}

impl Agent for BfServer {
    const NAME: &'static str = "blockfetch-server";
    const ROLE: Role = Role::Server;
    const PROTOCOL_ID: u16 = 3;
    const RAW_SEND: bool = true;
    const RAW_RECV: bool = true;
    const OPS: &'static [OpDef] = &[
        op("recv_while_idle", &[Recv], &["Idle"]),
        op("send_start_batch", &[Send("StartBatch")], &[]),
        op("send_no_blocks", &[Send("NoBlocks")], &[]),
        op("send_block", &[Send("Block")], &[]),
        op("send_batch_done", &[Send("BatchDone")], &[]),
        op("send_block_range(empty)", &[Send("NoBlocks")], &[]),
        op("send_block_range(2)", &[Send("StartBatch"), Send("Block"), Send("Block"), Send("BatchDone")], &[]),
    ];
    const METHODS: &'static [&'static str] = &[
        "state", "is_done", "send_message", "recv_message", "send_start_batch", "send_no_blocks", "send_block", "send_batch_done",
        "recv_while_idle", "send_block_range",
    ];
    const SOURCES: &'static [(&'static str, bool)] = &[("pallas-network/src/miniprotocols/blockfetch/server.rs", false)];
    const BAD: &'static [BadDef] = &[("RequestRange", "field1-type", false)];
    fn proto() -> &'static Proto {
        &spec::BLOCKFETCH
    }
    fn new(ch: AgentChannel) -> Self {
        BfServer(bf::Server::new(ch))
    }
    fn state(&self) -> &'static str {
        bf_state(self.0.state())
    }
    observers!(done);
    codec_fns!(bf::Message, bf_build, bf_seen);
    raw_fns!(bf_build, bf_seen);
    async fn op(&mut self, name: &str, _ctx: &Ctx) -> OpOut {
        match name {
            "recv_while_idle" => out(self.0.recv_while_idle().await),
            "send_start_batch" => out(self.0.send_start_batch().await),
            "send_no_blocks" => out(self.0.send_no_blocks().await),
            "send_block" => out(self.0.send_block(vec![0x80]).await),
            "send_batch_done" => out(self.0.send_batch_done().await),
            "send_block_range(empty)" => out(self.0.send_block_range(vec![]).await),
            "send_block_range(2)" => out(self.0.send_block_range(vec![vec![0x80], vec![0x81, 0x00]]).await),
            n => panic!("harness: unknown op {n}"),
        }
    }
}

// --------------------------------------------------------------------------------- txsubmission

type TxsMsg = txs::Message<txs::EraTxId, txs::EraTxBody>;

fn txid() -> txs::EraTxId {
    txs::EraTxId(6, vec![1; 32])
}

fn txs_build(kind: &str, _ctx: &Ctx) -> TxsMsg {
    match kind {
        "Init" => txs::Message::Init,
        "RequestTxIdsBlocking" => txs::Message::RequestTxIds(true, 0, 3),
        "RequestTxIdsNonBlocking" => txs::Message::RequestTxIds(false, 0, 3),
        // one id: legal in both the blocking (non-empty required) and the non-blocking case
        "ReplyTxIds" => txs::Message::ReplyTxIds(vec![txs::TxIdAndSize(txid(), 100)]),
        "RequestTxs" => txs::Message::RequestTxs(vec![txid()]),
        "ReplyTxs" => txs::Message::ReplyTxs(vec![txs::EraTxBody(6, vec![0x80])]),
        "Done" => txs::Message::Done,
        k => panic!("harness: unknown txsubmission message {k}"),
    }
}
fn txs_seen(m: &TxsMsg) -> Seen {
    seen(match m {
        txs::Message::Init => "Init",
        txs::Message::RequestTxIds(true, ..) => "RequestTxIdsBlocking",
        txs::Message::RequestTxIds(false, ..) => "RequestTxIdsNonBlocking",
        txs::Message::ReplyTxIds(_) => "ReplyTxIds",
        txs::Message::RequestTxs(_) => "RequestTxs",
        txs::Message::ReplyTxs(_) => "ReplyTxs",
        txs::Message::Done => "Done",
    })
}
fn txs_state(s: &txs::State) -> &'static str {
    match s {
        txs::State::Init => "Init",
        txs::State::Idle => "Idle",
        txs::State::TxIdsNonBlocking => "TxIdsNonBlocking",
        txs::State::TxIdsBlocking => "TxIdsBlocking",
        txs::State::Txs => "Txs",
        txs::State::Done => "Done",
    }
}

pub struct TxsClient(txs::Client);
pub struct TxsServer(txs::Server);

impl Agent for TxsClient {
    const NAME: &'static str = "txsubmission";
    const ROLE: Role = Role::Client;
    const PROTOCOL_ID: u16 = 4;
    const RAW_SEND: bool = true;
    const RAW_RECV: bool = true;
    const OPS: &'static [OpDef] = &[
        op("send_init", &[Send("Init")], &[]),
        op("reply_tx_ids", &[Send("ReplyTxIds")], &[]),
        op("reply_txs", &[Send("ReplyTxs")], &[]),
        op("next_request", &[Recv], &["Idle"]),
        op("send_done", &[Send("Done")], &[]),
    ];
    const METHODS: &'static [&'static str] =
        &["state", "is_done", "send_message", "recv_message", "send_init", "reply_tx_ids", "reply_txs", "next_request", "send_done"];
    const SOURCES: &'static [(&'static str, bool)] = &[("pallas-network/src/miniprotocols/txsubmission/client.rs", false)];
    const BAD: &'static [BadDef] = &[
        ("RequestTxIdsBlocking", "field1-type", false),
        ("RequestTxIdsNonBlocking", "field1-type", false),
        ("RequestTxs", "field1-type", false),
    ];
    fn proto() -> &'static Proto {
        &spec::TXSUBMISSION
    }
    fn new(ch: AgentChannel) -> Self {
        TxsClient(txs::Client::new(ch))
    }
    fn state(&self) -> &'static str {
        txs_state(self.0.state())
    }
    observers!(done);
    codec_fns!(TxsMsg, txs_build, txs_seen);
    raw_fns!(txs_build, txs_seen);
    async fn op(&mut self, name: &str, _ctx: &Ctx) -> OpOut {
        match name {
            "send_init" => out(self.0.send_init().await),
            "reply_tx_ids" => out(self.0.reply_tx_ids(vec![txs::TxIdAndSize(txid(), 100)]).await),
            "reply_txs" => out(self.0.reply_txs(vec![txs::EraTxBody(6, vec![0x80])]).await),
            "next_request" => out(self.0.next_request().await),
            "send_done" => out(self.0.send_done().await),
            n => panic!("harness: unknown op {n}"),
        }
    }
}

impl Agent for TxsServer {
    const NAME: &'static str = "txsubmission-server";
    const ROLE: Role = Role::Server;
    const PROTOCOL_ID: u16 = 4;
    const RAW_SEND: bool = true;
    const RAW_RECV: bool = true;
    const OPS: &'static [OpDef] = &[
        op("wait_for_init", &[Recv], &["Init"]),
        op("acknowledge_and_request_tx_ids(blocking)", &[Send("RequestTxIdsBlocking")], &[]),
        op("acknowledge_and_request_tx_ids(non-blocking)", &[Send("RequestTxIdsNonBlocking")], &[]),
        op("request_txs", &[Send("RequestTxs")], &[]),
        op("receive_next_reply", &[Recv], &["TxIdsBlocking", "TxIdsNonBlocking", "Txs"]),
    ];
    const METHODS: &'static [&'static str] = &[
        "state", "is_done", "send_message", "recv_message", "wait_for_init", "acknowledge_and_request_tx_ids", "request_txs", "receive_next_reply",
    ];
    const SOURCES: &'static [(&'static str, bool)] = &[("pallas-network/src/miniprotocols/txsubmission/server.rs", false)];
    const BAD: &'static [BadDef] = &[("ReplyTxIds", "field1-type", false), ("ReplyTxs", "field1-type", false)];
    fn proto() -> &'static Proto {
        &spec::TXSUBMISSION
    }
    fn new(ch: AgentChannel) -> Self {
        TxsServer(txs::Server::new(ch))
    }
    fn state(&self) -> &'static str {
        txs_state(self.0.state())
    }
    observers!(done);
    codec_fns!(TxsMsg, txs_build, txs_seen);
    raw_fns!(txs_build, txs_seen);
    async fn op(&mut self, name: &str, _ctx: &Ctx) -> OpOut {
        match name {
            "wait_for_init" => out(self.0.wait_for_init().await),
            "acknowledge_and_request_tx_ids(blocking)" => out(self.0.acknowledge_and_request_tx_ids(true, 0, 3).await),
            "acknowledge_and_request_tx_ids(non-blocking)" => out(self.0.acknowledge_and_request_tx_ids(false, 0, 3).await),
            "request_txs" => out(self.0.request_txs(vec![txid()]).await),
            "receive_next_reply" => out(self.0.receive_next_reply().await),
            n => panic!("harness: unknown op {n}"),
        }
    }
}

// ------------------------------------------------------------------------------------ keepalive

fn ka_build(kind: &str, ctx: &Ctx) -> ka::Message {
    match kind {
        "KeepAlive" => ka::Message::KeepAlive(ctx.cookie),
        // a conformant peer echoes the cookie of the request
        "ResponseKeepAlive" => ka::Message::ResponseKeepAlive(ctx.cookie),
        "Done" => ka::Message::Done,
        k => panic!("harness: unknown keepalive message {k}"),
    }
}
fn ka_seen(m: &ka::Message) -> Seen {
    match m {
        ka::Message::KeepAlive(c) => Seen { kind: "KeepAlive", cookie: Some(*c) },
        ka::Message::ResponseKeepAlive(_) => seen("ResponseKeepAlive"),
        ka::Message::Done => seen("Done"),
    }
}
/// keep-alive content that must be refused: a reply with another cookie than the one requested
/// (`cookie+n`), a cookie that does not fit the spec's word16
fn ka_bad(kind: &str, variant: &str, ctx: &Ctx) -> Vec<u8> {
    let label = if kind == "KeepAlive" { 0 } else { 1 };
    match variant {
        "cookie-range" => two(label, pvkit::cborx::uint(65536)),
        v if v.starts_with("cookie+") => {
            let n: u16 = v["cookie+".len()..].parse().expect("harness: cookie offset");
            minicbor::to_vec(ka::Message::ResponseKeepAlive(ctx.cookie.wrapping_add(n))).expect("harness message encodes")
        }
        v => corrupt(&minicbor::to_vec(ka_build(kind, ctx)).expect("harness message encodes"), v),
    }
}

fn ka_state(s: &ka::State) -> &'static str {
    match s {
        ka::State::Client => "Client",
        ka::State::Server(_) => "Server",
        ka::State::Done => "Done",
    }
}

pub struct KaClient(ka::Client);
pub struct KaServer(ka::Server);

impl Agent for KaClient {
    const NAME: &'static str = "keepalive";
    const ROLE: Role = Role::Client;
    const PROTOCOL_ID: u16 = 8;
    const RAW_SEND: bool = true;
    const RAW_RECV: bool = true;
    const OPS: &'static [OpDef] = &[
        op("send_keepalive_request", &[Send("KeepAlive")], &[]),
        op("recv_keepalive_response", &[Recv], &["Server"]),
        // the cookie is drawn inside the call: the peer can only echo it once the request is on the wire
        op_reactive("keepalive_roundtrip", &[Send("KeepAlive"), Recv], &[]),
    ];
    const METHODS: &'static [&'static str] = &[
        "state", "is_done", "send_message", "recv_message", "send_keepalive_request", "recv_keepalive_response", "keepalive_roundtrip",
    ];
    const SOURCES: &'static [(&'static str, bool)] = &[("pallas-network/src/miniprotocols/keepalive/client.rs", false)];
    // the low-level receive hands the message over without looking at the cookie: cookie cases only through the methods
    const BAD: &'static [BadDef] = &[
        ("ResponseKeepAlive", "cookie+1", true),
        ("ResponseKeepAlive", "cookie+2", true),
        ("ResponseKeepAlive", "cookie+255", true),
        ("ResponseKeepAlive", "cookie+256", true),
        ("ResponseKeepAlive", "cookie+32768", true),
        ("ResponseKeepAlive", "cookie+65535", true),
        ("ResponseKeepAlive", "cookie-range", false),
        ("ResponseKeepAlive", "field1-type", false),
    ];
    fn proto() -> &'static Proto {
        &spec::KEEPALIVE
    }
    fn new(ch: AgentChannel) -> Self {
        KaClient(ka::Client::new(ch))
    }
    fn state(&self) -> &'static str {
        ka_state(self.0.state())
    }
    observers!(done);
    fn bad_payload(kind: &str, variant: &str, ctx: &Ctx) -> Vec<u8> {
        ka_bad(kind, variant, ctx)
    }
    codec_fns!(ka::Message, ka_build, ka_seen);
    raw_fns!(ka_build, ka_seen);
    async fn op(&mut self, name: &str, _ctx: &Ctx) -> OpOut {
        match name {
            "send_keepalive_request" => out(self.0.send_keepalive_request().await),
            "recv_keepalive_response" => out(self.0.recv_keepalive_response().await),
            "keepalive_roundtrip" => out(self.0.keepalive_roundtrip().await),
            n => panic!("harness: unknown op {n}"),
        }
    }
}

impl Agent for KaServer {
    const NAME: &'static str = "keepalive-server";
    const ROLE: Role = Role::Server;
    const PROTOCOL_ID: u16 = 8;
    const RAW_SEND: bool = true;
    const RAW_RECV: bool = true;
    const OPS: &'static [OpDef] = &[
        op("recv_keepalive_request", &[Recv], &["Client"]),
        op("send_keepalive_response", &[Send("ResponseKeepAlive")], &[]),
        // after the client's Done there is nothing to answer
        op("keepalive_roundtrip", &[RecvMap(&[("KeepAlive", Next::Cont), ("Done", Next::Stop)]), Send("ResponseKeepAlive")], &[]),
    ];
    const METHODS: &'static [&'static str] = &[
        "state", "is_done", "send_message", "recv_message", "recv_keepalive_request", "send_keepalive_response", "keepalive_roundtrip",
    ];
    const SOURCES: &'static [(&'static str, bool)] = &[("pallas-network/src/miniprotocols/keepalive/server.rs", false)];
    const BAD: &'static [BadDef] = &[("KeepAlive", "field1-type", false), ("KeepAlive", "cookie-range", false)];
    fn proto() -> &'static Proto {
        &spec::KEEPALIVE
    }
    fn new(ch: AgentChannel) -> Self {
        KaServer(ka::Server::new(ch))
    }
    fn state(&self) -> &'static str {
        ka_state(self.0.state())
    }
    observers!(done);
    fn bad_payload(kind: &str, variant: &str, ctx: &Ctx) -> Vec<u8> {
        ka_bad(kind, variant, ctx)
    }
    codec_fns!(ka::Message, ka_build, ka_seen);
    raw_fns!(ka_build, ka_seen);
    async fn op(&mut self, name: &str, _ctx: &Ctx) -> OpOut {
        match name {
            "recv_keepalive_request" => out(self.0.recv_keepalive_request().await),
            "send_keepalive_response" => out(self.0.send_keepalive_response().await),
            "keepalive_roundtrip" => out(self.0.keepalive_roundtrip().await),
            n => panic!("harness: unknown op {n}"),
        }
    }
}

// ---------------------------------------------------------------------------------- peersharing

/// The amount a directed case asks for (hint `amount:<n>`); 3 otherwise.
fn ps_amount(ctx: &Ctx) -> u8 {
    ctx.hint.strip_prefix("amount:").and_then(|n| n.parse().ok()).unwrap_or(3)
}

/// A reply of at most `amount` addresses (one address unless nothing was asked for).
fn ps_peers(ctx: &Ctx) -> Vec<ps::PeerAddress> {
    if ps_amount(ctx) == 0 {
        vec![]
    } else {
        vec![ps::PeerAddress::V4(std::net::Ipv4Addr::new(10, 0, 0, 1), 3001)]
    }
}

fn ps_build(kind: &str, ctx: &Ctx) -> ps::Message {
    match kind {
        "ShareRequest" => ps::Message::ShareRequest(ps_amount(ctx)),
        "SharePeers" => ps::Message::SharePeers(ps_peers(ctx)),
        "Done" => ps::Message::Done,
        k => panic!("harness: unknown peersharing message {k}"),
    }
}
fn ps_seen(m: &ps::Message) -> Seen {
    seen(match m {
        ps::Message::ShareRequest(_) => "ShareRequest",
        ps::Message::SharePeers(_) => "SharePeers",
        ps::Message::Done => "Done",
    })
}
fn ps_state(s: &ps::State) -> &'static str {
    match s {
        ps::State::Idle => "Idle",
        ps::State::Busy(_) => "Busy",
        ps::State::Done => "Done",
    }
}

pub struct PsClient(ps::Client);
pub struct PsServer(ps::Server);

impl Agent for PsClient {
    const NAME: &'static str = "peersharing";
    const ROLE: Role = Role::Client;
    const PROTOCOL_ID: u16 = 10;
    const RAW_SEND: bool = true;
    const RAW_RECV: bool = true;
    const OPS: &'static [OpDef] = &[
        op("send_share_request", &[Send("ShareRequest")], &[]),
        op("recv_peer_addresses", &[Recv], &["Busy"]),
        op("send_done", &[Send("Done")], &[]),
    ];
    const METHODS: &'static [&'static str] =
        &["state", "is_done", "has_agency", "send_message", "recv_message", "send_share_request", "recv_peer_addresses", "send_done"];
    const SOURCES: &'static [(&'static str, bool)] = &[("pallas-network/src/miniprotocols/peersharing/client.rs", false)];
    const BAD: &'static [BadDef] = &[("SharePeers", "field1-type", false)];
    fn proto() -> &'static Proto {
        &spec::PEERSHARING
    }
    fn new(ch: AgentChannel) -> Self {
        PsClient(ps::Client::new(ch))
    }
    fn state(&self) -> &'static str {
        ps_state(self.0.state())
    }
    observers!(both);
    codec_fns!(ps::Message, ps_build, ps_seen);
    raw_fns!(ps_build, ps_seen);
    async fn op(&mut self, name: &str, ctx: &Ctx) -> OpOut {
        match name {
            "send_share_request" => out(self.0.send_share_request(ps_amount(ctx)).await),
            "recv_peer_addresses" => out(self.0.recv_peer_addresses().await),
            "send_done" => out(self.0.send_done().await),
            n => panic!("harness: unknown op {n}"),
        }
    }
}

impl Agent for PsServer {
    const NAME: &'static str = "peersharing-server";
    const ROLE: Role = Role::Server;
    const PROTOCOL_ID: u16 = 10;
    const RAW_SEND: bool = true;
    const RAW_RECV: bool = true;
    const OPS: &'static [OpDef] = &[
        op("recv_share_request", &[Recv], &["Idle"]),
        op("send_peer_addresses", &[Send("SharePeers")], &[]),
    ];
    const METHODS: &'static [&'static str] =
        &["state", "is_done", "send_message", "recv_message", "recv_share_request", "send_peer_addresses"];
    const SOURCES: &'static [(&'static str, bool)] = &[("pallas-network/src/miniprotocols/peersharing/server.rs", false)];
    // the amount is a word8 in the spec
    const BAD: &'static [BadDef] = &[("ShareRequest", "field1-type", false), ("ShareRequest", "amount-range", false)];
    fn proto() -> &'static Proto {
        &spec::PEERSHARING
    }
    fn new(ch: AgentChannel) -> Self {
        PsServer(ps::Server::new(ch))
    }
    fn state(&self) -> &'static str {
        ps_state(self.0.state())
    }
    observers!(done);
    fn bad_payload(kind: &str, variant: &str, ctx: &Ctx) -> Vec<u8> {
        match variant {
            "amount-range" => two(0, pvkit::cborx::uint(256)),
            v => corrupt(&Self::encode(kind, ctx), v),
        }
    }
    codec_fns!(ps::Message, ps_build, ps_seen);
    raw_fns!(ps_build, ps_seen);
    async fn op(&mut self, name: &str, ctx: &Ctx) -> OpOut {
        match name {
            "recv_share_request" => out(self.0.recv_share_request().await),
            "send_peer_addresses" => out(self.0.send_peer_addresses(ps_peers(ctx)).await),
            n => panic!("harness: unknown op {n}"),
        }
    }
}

// ----------------------------------------------------------------------------------- localstate

fn any() -> AnyCbor {
    AnyCbor::from_encode(0u8)
}

/// A result the typed helper named by `hint` can decode (built with the independent CBOR kit from the
/// helper's documented result type: empty maps / lists, small numbers); any other caller gets `0`.
/// What matters to C23 is that the helper runs to its end; the codecs of the result types are C22's.
fn ls_result(hint: &str) -> AnyCbor {
    use pvkit::cborx::{array, bytes, map, null, text, uint, write, Node};
    let one = |n: Node| array(vec![n]);
    let m = || map(vec![]);
    let l = || array(vec![]);
    let node = match hint {
        "get_chain_point" | "get_cbor" => l(),
        "get_system_start" => array(vec![uint(2020), uint(1), uint(0)]),
        "get_chain_block_no" => array(vec![uint(1), uint(5)]),
        "get_block_epoch_number" => one(uint(5)),
        "get_utxo_by_address" | "get_utxo_by_txin" | "get_utxo_whole" | "get_stake_pool_params" | "get_pool_distr" | "get_pool_distr_v2"
        | "get_non_myopic_member_rewards" | "get_stake_deleg_deposits" | "get_drep_state" | "get_drep_stake_distr"
        | "get_filtered_vote_delegatees" | "get_spo_stake_distr" | "get_stake_distribution" | "get_stake_distribution_v2"
        | "get_proposed_pparams_updates" => one(m()),
        "get_proposals" | "get_future_protocol_params" => one(l()),
        "get_big_ledger_snapshot" | "get_ledger_peer_snapshot" | "get_dreps_delegations" => one(uint(0)),
        "get_account_state" => one(array(vec![uint(1), uint(2)])),
        "get_filtered_delegations_rewards" => one(array(vec![m(), m()])),
        "get_committee_members_state" => one(array(vec![m(), l(), uint(1)])),
        "get_stake_snapshots" => one(array(vec![m(), uint(0), uint(0), uint(0)])),
        "get_pool_state" => one(array(vec![m(), m(), m(), m()])),
        "get_constitution" => one(array(vec![array(vec![text("u"), bytes(&[7; 32])]), null()])),
        _ => uint(0),
    };
    AnyCbor::from_raw_bytes(write(&node))
}

/// helpers for which `ls_result` is decodable (their whole body runs in the harness); the remaining four
/// (`get_current_pparams`, `get_genesis_config`, `get_gov_state`, `get_ratify_state`) end in InvalidCbor
pub const LS_DECODABLE: &[&str] = &[
    "query", "get_chain_point", "get_current_era", "get_system_start", "get_chain_block_no", "get_cbor", "get_block_epoch_number",
    "get_utxo_by_address", "get_utxo_by_txin", "get_utxo_whole", "get_stake_pool_params", "get_pool_distr", "get_pool_distr_v2",
    "get_non_myopic_member_rewards", "get_stake_deleg_deposits", "get_drep_state", "get_drep_stake_distr", "get_filtered_vote_delegatees",
    "get_spo_stake_distr", "get_stake_distribution", "get_stake_distribution_v2", "get_proposed_pparams_updates", "get_proposals",
    "get_future_protocol_params", "get_big_ledger_snapshot", "get_ledger_peer_snapshot", "get_dreps_delegations", "get_account_state",
    "get_filtered_delegations_rewards", "get_committee_members_state", "get_stake_snapshots", "get_pool_state", "get_constitution",
];

static LS_DECODED: std::sync::Mutex<BTreeSet<&'static str>> = std::sync::Mutex::new(BTreeSet::new());

/// typed helpers that decoded the harness' result at least once in this run
pub fn ls_decoded() -> Vec<&'static str> {
    LS_DECODED.lock().unwrap().iter().copied().collect()
}

fn ls_build(kind: &str, ctx: &Ctx) -> ls::Message {
    match kind {
        "Acquire" => ls::Message::Acquire(None),
        "Failure" => ls::Message::Failure(ls::AcquireFailure::PointTooOld),
        "Acquired" => ls::Message::Acquired,
        "Query" => ls::Message::Query(any()),
        "Result" => ls::Message::Result(ls_result(ctx.hint)),
        "ReAcquire" => ls::Message::ReAcquire(None),
        "Release" => ls::Message::Release,
        "Done" => ls::Message::Done,
        k => panic!("harness: unknown localstate message {k}"),
    }
}
fn ls_seen(m: &ls::Message) -> Seen {
    seen(match m {
        ls::Message::Acquire(_) => "Acquire",
        ls::Message::Failure(_) => "Failure",
        ls::Message::Acquired => "Acquired",
        ls::Message::Query(_) => "Query",
        ls::Message::Result(_) => "Result",
        ls::Message::ReAcquire(_) => "ReAcquire",
        ls::Message::Release => "Release",
        ls::Message::Done => "Done",
    })
}
fn ls_state(s: &ls::State) -> &'static str {
    match s {
        ls::State::Idle => "Idle",
        ls::State::Acquiring => "Acquiring",
        ls::State::Acquired => "Acquired",
        ls::State::Querying => "Querying",
        ls::State::Done => "Done",
    }
}

pub struct LsClient(ls::Client);
pub struct LsServer(ls::Server);

/// the client reports an acquire failure as an error value after the (legal) exchange
fn ls_acq<T>(r: Result<T, ls::ClientError>) -> OpOut {
    match r {
        Err(ls::ClientError::AcquirePointTooOld) | Err(ls::ClientError::AcquirePointNotFound) => OpOut::Accepted,
        r => out(r),
    }
}

/// a typed query reports a result it cannot decode as an error value after the (legal) exchange
fn ls_typed<T>(name: &str, r: Result<T, ls::ClientError>) -> OpOut {
    if r.is_ok() {
        if let Some(n) = LS_DECODABLE.iter().find(|n| **n == name) {
            LS_DECODED.lock().unwrap().insert(n);
        }
    }
    match r {
        Err(ls::ClientError::InvalidCbor(_)) => OpOut::Accepted,
        r => out(r),
    }
}

const QUERY: &[Step] = &[Send("Query"), Recv];
const ERA: u16 = 6;

impl Agent for LsClient {
    const NAME: &'static str = "localstate";
    const ROLE: Role = Role::Client;
    const PROTOCOL_ID: u16 = 7;
    const RAW_SEND: bool = true;
    const RAW_RECV: bool = true;
    const OPS: &'static [OpDef] = &[
        op("send_acquire", &[Send("Acquire")], &[]),
        op("send_reacquire", &[Send("ReAcquire")], &[]),
        op("send_release", &[Send("Release")], &[]),
        op("send_done", &[Send("Done")], &[]),
        op("recv_while_acquiring", &[Recv], &["Acquiring"]),
        op("acquire", &[Send("Acquire"), Recv], &[]),
        op("send_query", &[Send("Query")], &[]),
        op("recv_while_querying", &[Recv], &["Querying"]),
        op("query_any", &[Send("Query"), Recv], &[]),
        // the typed query and the query helpers of queries_v16: one Query / Result exchange each
        op("query", QUERY, &[]),
        op("get_chain_point", QUERY, &[]),
        op("get_current_era", QUERY, &[]),
        op("get_system_start", QUERY, &[]),
        op("get_chain_block_no", QUERY, &[]),
        op("get_cbor", QUERY, &[]),
        op("get_stake_snapshots", QUERY, &[]),
        op("get_utxo_by_address", QUERY, &[]),
        op("get_stake_pool_params", QUERY, &[]),
        op("get_pool_state", QUERY, &[]),
        op("get_pool_distr", QUERY, &[]),
        op("get_non_myopic_member_rewards", QUERY, &[]),
        op("get_filtered_delegations_rewards", QUERY, &[]),
        op("get_utxo_by_txin", QUERY, &[]),
        op("get_stake_deleg_deposits", QUERY, &[]),
        op("get_drep_state", QUERY, &[]),
        op("get_drep_stake_distr", QUERY, &[]),
        op("get_filtered_vote_delegatees", QUERY, &[]),
        op("get_spo_stake_distr", QUERY, &[]),
        op("get_proposals", QUERY, &[]),
        op("get_committee_members_state", QUERY, &[]),
        op("get_ledger_peer_snapshot", QUERY, &[]),
        op("get_pool_distr_v2", QUERY, &[]),
        op("get_dreps_delegations", QUERY, &[]),
        op("get_current_pparams", QUERY, &[]),
        op("get_block_epoch_number", QUERY, &[]),
        op("get_stake_distribution", QUERY, &[]),
        op("get_genesis_config", QUERY, &[]),
        op("get_utxo_whole", QUERY, &[]),
        op("get_constitution", QUERY, &[]),
        op("get_gov_state", QUERY, &[]),
        op("get_account_state", QUERY, &[]),
        op("get_future_protocol_params", QUERY, &[]),
        op("get_ratify_state", QUERY, &[]),
        op("get_big_ledger_snapshot", QUERY, &[]),
        op("get_proposed_pparams_updates", QUERY, &[]),
        op("get_stake_distribution_v2", QUERY, &[]),
    ];
    const METHODS: &'static [&'static str] = &[
        "state", "is_done", "send_message", "recv_message", "send_acquire", "send_reacquire", "send_release", "send_done", "recv_while_acquiring",
        "acquire", "send_query", "recv_while_querying", "query_any", "query",
        "get_chain_point", "get_current_era", "get_system_start", "get_chain_block_no", "get_cbor", "get_stake_snapshots", "get_utxo_by_address", "get_stake_pool_params", "get_pool_state", "get_pool_distr", "get_non_myopic_member_rewards", "get_filtered_delegations_rewards", "get_utxo_by_txin", "get_stake_deleg_deposits", "get_drep_state", "get_drep_stake_distr", "get_filtered_vote_delegatees", "get_spo_stake_distr", "get_proposals", "get_committee_members_state", "get_ledger_peer_snapshot", "get_pool_distr_v2", "get_dreps_delegations", "get_current_pparams", "get_block_epoch_number", "get_stake_distribution", "get_genesis_config", "get_utxo_whole", "get_constitution", "get_gov_state", "get_account_state", "get_future_protocol_params", "get_ratify_state", "get_big_ledger_snapshot", "get_proposed_pparams_updates", "get_stake_distribution_v2",
    ];
    const SOURCES: &'static [(&'static str, bool)] = &[
        ("pallas-network/src/miniprotocols/localstate/client.rs", false),
        ("pallas-network/src/miniprotocols/localstate/queries_v16/mod.rs", true),
    ];
    const BAD: &'static [BadDef] = &[("Failure", "field1-type", false), ("Failure", "reason-code", false)];
    fn proto() -> &'static Proto {
        &spec::LOCALSTATE
    }
    fn new(ch: AgentChannel) -> Self {
        LsClient(ls::Client::new(ch))
    }
    fn state(&self) -> &'static str {
        ls_state(self.0.state())
    }
    observers!(done);
    fn bad_payload(kind: &str, variant: &str, ctx: &Ctx) -> Vec<u8> {
        match variant {
            // CDDL: failure = 0 (point too old) / 1 (point not on chain)
            "reason-code" => two(2, pvkit::cborx::uint(9)),
            v => corrupt(&Self::encode(kind, ctx), v),
        }
    }
    codec_fns!(ls::Message, ls_build, ls_seen);
    raw_fns!(ls_build, ls_seen);
    async fn op(&mut self, name: &str, _ctx: &Ctx) -> OpOut {
        match name {
            "send_acquire" => out(self.0.send_acquire(None).await),
            "send_reacquire" => out(self.0.send_reacquire(None).await),
            "send_release" => out(self.0.send_release().await),
            "send_done" => out(self.0.send_done().await),
            "recv_while_acquiring" => ls_acq(self.0.recv_while_acquiring().await),
            "acquire" => ls_acq(self.0.acquire(None).await),
            "send_query" => out(self.0.send_query(any()).await),
            "recv_while_querying" => out(self.0.recv_while_querying().await),
            "query_any" => out(self.0.query_any(any()).await),
            "query" => ls_typed("query", self.0.query::<u8, u8>(0u8).await),
            "get_chain_point" => ls_typed("get_chain_point", q::get_chain_point(&mut self.0).await),
            "get_current_era" => ls_typed("get_current_era", q::get_current_era(&mut self.0).await),
            "get_system_start" => ls_typed("get_system_start", q::get_system_start(&mut self.0).await),
            "get_chain_block_no" => ls_typed("get_chain_block_no", q::get_chain_block_no(&mut self.0).await),
            "get_cbor" => ls_typed("get_cbor", q::get_cbor(&mut self.0, ERA, q::BlockQuery::GetEpochNo).await),
            "get_stake_snapshots" => ls_typed("get_stake_snapshots", q::get_stake_snapshots(&mut self.0, ERA, SMaybe::None).await),
            "get_utxo_by_address" => ls_typed("get_utxo_by_address", q::get_utxo_by_address(&mut self.0, ERA, vec![]).await),
            "get_stake_pool_params" => ls_typed("get_stake_pool_params", q::get_stake_pool_params(&mut self.0, ERA, TagWrap::new(BTreeSet::new())).await),
            "get_pool_state" => ls_typed("get_pool_state", q::get_pool_state(&mut self.0, ERA, SMaybe::None).await),
            "get_pool_distr" => ls_typed("get_pool_distr", q::get_pool_distr(&mut self.0, ERA, SMaybe::None).await),
            "get_non_myopic_member_rewards" => ls_typed("get_non_myopic_member_rewards", q::get_non_myopic_member_rewards(&mut self.0, ERA, TagWrap::new(BTreeSet::new())).await),
            "get_filtered_delegations_rewards" => ls_typed("get_filtered_delegations_rewards", q::get_filtered_delegations_rewards(&mut self.0, ERA, BTreeSet::new()).await),
            "get_utxo_by_txin" => ls_typed("get_utxo_by_txin", q::get_utxo_by_txin(&mut self.0, ERA, BTreeSet::new()).await),
            "get_stake_deleg_deposits" => ls_typed("get_stake_deleg_deposits", q::get_stake_deleg_deposits(&mut self.0, ERA, TagWrap::new(BTreeSet::new())).await),
            "get_drep_state" => ls_typed("get_drep_state", q::get_drep_state(&mut self.0, ERA, TagWrap::new(BTreeSet::new())).await),
            "get_drep_stake_distr" => ls_typed("get_drep_stake_distr", q::get_drep_stake_distr(&mut self.0, ERA, TagWrap::new(BTreeSet::new())).await),
            "get_filtered_vote_delegatees" => ls_typed("get_filtered_vote_delegatees", q::get_filtered_vote_delegatees(&mut self.0, ERA, BTreeSet::new()).await),
            "get_spo_stake_distr" => ls_typed("get_spo_stake_distr", q::get_spo_stake_distr(&mut self.0, ERA, TagWrap::new(BTreeSet::new())).await),
            "get_proposals" => ls_typed("get_proposals", q::get_proposals(&mut self.0, ERA, TagWrap::new(BTreeSet::new())).await),
            "get_committee_members_state" => ls_typed("get_committee_members_state", q::get_committee_members_state(&mut self.0, ERA, TagWrap::new(BTreeSet::new()), TagWrap::new(BTreeSet::new()), TagWrap::new(BTreeSet::new())).await),
            "get_ledger_peer_snapshot" => ls_typed("get_ledger_peer_snapshot", q::get_ledger_peer_snapshot(&mut self.0, ERA, q::LedgerPeerSnapshotKind::Big).await),
            "get_pool_distr_v2" => ls_typed("get_pool_distr_v2", q::get_pool_distr_v2(&mut self.0, ERA, SMaybe::None).await),
            "get_dreps_delegations" => ls_typed("get_dreps_delegations", q::get_dreps_delegations(&mut self.0, ERA, TagWrap::new(BTreeSet::new())).await),
            "get_current_pparams" => ls_typed("get_current_pparams", q::get_current_pparams(&mut self.0, ERA).await),
            "get_block_epoch_number" => ls_typed("get_block_epoch_number", q::get_block_epoch_number(&mut self.0, ERA).await),
            "get_stake_distribution" => ls_typed("get_stake_distribution", q::get_stake_distribution(&mut self.0, ERA).await),
            "get_genesis_config" => ls_typed("get_genesis_config", q::get_genesis_config(&mut self.0, ERA).await),
            "get_utxo_whole" => ls_typed("get_utxo_whole", q::get_utxo_whole(&mut self.0, ERA).await),
            "get_constitution" => ls_typed("get_constitution", q::get_constitution(&mut self.0, ERA).await),
            "get_gov_state" => ls_typed("get_gov_state", q::get_gov_state(&mut self.0, ERA).await),
            "get_account_state" => ls_typed("get_account_state", q::get_account_state(&mut self.0, ERA).await),
            "get_future_protocol_params" => ls_typed("get_future_protocol_params", q::get_future_protocol_params(&mut self.0, ERA).await),
            "get_ratify_state" => ls_typed("get_ratify_state", q::get_ratify_state(&mut self.0, ERA).await),
            "get_big_ledger_snapshot" => ls_typed("get_big_ledger_snapshot", q::get_big_ledger_snapshot(&mut self.0, ERA).await),
            "get_proposed_pparams_updates" => ls_typed("get_proposed_pparams_updates", q::get_proposed_pparams_updates(&mut self.0, ERA).await),
            "get_stake_distribution_v2" => ls_typed("get_stake_distribution_v2", q::get_stake_distribution_v2(&mut self.0, ERA).await),
            n => panic!("harness: unknown op {n}"),
        }
    }
}

impl Agent for LsServer {
    const NAME: &'static str = "localstate-server";
    const ROLE: Role = Role::Server;
    const PROTOCOL_ID: u16 = 7;
    const RAW_SEND: bool = true;
    const RAW_RECV: bool = true;
    const OPS: &'static [OpDef] = &[
        op("send_failure", &[Send("Failure")], &[]),
        op("send_acquired", &[Send("Acquired")], &[]),
        op("send_result", &[Send("Result")], &[]),
        op("recv_while_idle", &[Recv], &["Idle"]),
        op("recv_while_acquired", &[Recv], &["Acquired"]),
    ];
    const METHODS: &'static [&'static str] = &[
        "state", "is_done", "send_message", "recv_message", "send_failure", "send_acquired", "send_result", "recv_while_idle",
        "recv_while_acquired",
    ];
    const SOURCES: &'static [(&'static str, bool)] = &[("pallas-network/src/miniprotocols/localstate/server.rs", false)];
    const BAD: &'static [BadDef] = &[("Acquire", "field1-type", false), ("ReAcquire", "field1-type", false)];
    fn proto() -> &'static Proto {
        &spec::LOCALSTATE
    }
    fn new(ch: AgentChannel) -> Self {
        LsServer(ls::Server::new(ch))
    }
    fn state(&self) -> &'static str {
        ls_state(self.0.state())
    }
    observers!(done);
    fn bad_payload(kind: &str, variant: &str, _ctx: &Ctx) -> Vec<u8> {
        // the representative Acquire / ReAcquire carry no point; the corrupted ones are the forms with a point
        let with_point = match kind {
            "Acquire" => ls::Message::Acquire(Some(pt())),
            _ => ls::Message::ReAcquire(Some(pt())),
        };
        corrupt(&minicbor::to_vec(&with_point).expect("harness message encodes"), variant)
    }
    codec_fns!(ls::Message, ls_build, ls_seen);
    raw_fns!(ls_build, ls_seen);
    async fn op(&mut self, name: &str, _ctx: &Ctx) -> OpOut {
        match name {
            "send_failure" => out(self.0.send_failure(ls::AcquireFailure::PointNotOnChain).await),
            "send_acquired" => out(self.0.send_acquired().await),
            "send_result" => out(self.0.send_result(any()).await),
            "recv_while_idle" => out(self.0.recv_while_idle().await),
            "recv_while_acquired" => out(self.0.recv_while_acquired().await),
            n => panic!("harness: unknown op {n}"),
        }
    }
}

// ---------------------------------------------------------------------------- localtxsubmission

/// Reject reason used to instantiate the generic local-tx-submission agents (the production
/// `TxValidationError` codec is C22's business; the state machine code is the same generic code).
#[derive(Debug, Clone, PartialEq, Eq)]
pub struct Reason(pub String);
impl From<String> for Reason {
    fn from(s: String) -> Self {
        Reason(s)
    }
}
impl<C> minicbor::Encode<C> for Reason {
    fn encode<W: minicbor::encode::Write>(&self, e: &mut minicbor::Encoder<W>, _ctx: &mut C) -> Result<(), minicbor::encode::Error<W::Error>> {
        e.str(&self.0)?;
        Ok(())
    }
}
impl<'b, C> minicbor::Decode<'b, C> for Reason {
    fn decode(d: &mut minicbor::Decoder<'b>, _ctx: &mut C) -> Result<Self, minicbor::decode::Error> {
        Ok(Reason(d.str()?.to_string()))
    }
}

type LtMsg = lt::Message<lt::EraTx, Reason>;

fn lt_build(kind: &str, _ctx: &Ctx) -> LtMsg {
    match kind {
        "SubmitTx" => lt::Message::SubmitTx(lt::EraTx(6, vec![0x80])),
        "AcceptTx" => lt::Message::AcceptTx,
        "RejectTx" => lt::Message::RejectTx(Reason("no".into())),
        "Done" => lt::Message::Done,
        k => panic!("harness: unknown localtxsubmission message {k}"),
    }
}
fn lt_seen(m: &LtMsg) -> Seen {
    seen(match m {
        lt::Message::SubmitTx(_) => "SubmitTx",
        lt::Message::AcceptTx => "AcceptTx",
        lt::Message::RejectTx(_) => "RejectTx",
        lt::Message::Done => "Done",
    })
}
fn lt_state(s: &lt::State) -> &'static str {
    match s {
        lt::State::Idle => "Idle",
        lt::State::Busy => "Busy",
        lt::State::Done => "Done",
    }
}

pub struct LtClient(lt::GenericClient<lt::EraTx, Reason>);
pub struct LtServer(lt::GenericServer<lt::EraTx, Reason>);

impl Agent for LtClient {
    const NAME: &'static str = "localtxsubmission";
    const ROLE: Role = Role::Client;
    const PROTOCOL_ID: u16 = 6;
    const RAW_SEND: bool = false; // send_message / recv_message are private
    const RAW_RECV: bool = false;
    const OPS: &'static [OpDef] = &[
        op("send_submit_tx", &[Send("SubmitTx")], &[]),
        op("recv_submit_tx_response", &[Recv], &["Busy"]),
        op("submit_tx", &[Send("SubmitTx"), Recv], &[]),
        op("terminate_gracefully", &[Send("Done")], &[]),
    ];
    const METHODS: &'static [&'static str] = &["state", "send_submit_tx", "recv_submit_tx_response", "submit_tx", "terminate_gracefully"];
    const SOURCES: &'static [(&'static str, bool)] = &[("pallas-network/src/miniprotocols/localtxsubmission/client.rs", false)];
    const BAD: &'static [BadDef] = &[("RejectTx", "field1-type", false)];
    fn proto() -> &'static Proto {
        &spec::LOCALTXSUBMISSION
    }
    fn new(ch: AgentChannel) -> Self {
        LtClient(lt::GenericClient::new(ch))
    }
    fn state(&self) -> &'static str {
        lt_state(self.0.state())
    }
    observers!(none);
    codec_fns!(LtMsg, lt_build, lt_seen);
    async fn raw_send(&mut self, _kind: &str, _ctx: &Ctx) -> OpOut {
        OpOut::Rejected("not public".into())
    }
    async fn raw_recv(&mut self) -> Result<&'static str, String> {
        Err("not public".into())
    }
    async fn op(&mut self, name: &str, _ctx: &Ctx) -> OpOut {
        match name {
            "send_submit_tx" => out(self.0.send_submit_tx(lt::EraTx(6, vec![0x80])).await),
            "recv_submit_tx_response" => out(self.0.recv_submit_tx_response().await),
            "submit_tx" => out(self.0.submit_tx(lt::EraTx(6, vec![0x80])).await),
            "terminate_gracefully" => out(self.0.terminate_gracefully().await),
            n => panic!("harness: unknown op {n}"),
        }
    }
}

impl Agent for LtServer {
    const NAME: &'static str = "localtxsubmission-server";
    const ROLE: Role = Role::Server;
    const PROTOCOL_ID: u16 = 6;
    const RAW_SEND: bool = false;
    const RAW_RECV: bool = false;
    const OPS: &'static [OpDef] = &[
        op("recv_next_request", &[Recv], &["Idle"]),
        op("send_submit_tx_response(accepted)", &[Send("AcceptTx")], &[]),
        op("send_submit_tx_response(rejected)", &[Send("RejectTx")], &[]),
    ];
    const METHODS: &'static [&'static str] = &["state", "recv_next_request", "send_submit_tx_response"];
    const SOURCES: &'static [(&'static str, bool)] = &[("pallas-network/src/miniprotocols/localtxsubmission/server.rs", false)];
    const BAD: &'static [BadDef] = &[("SubmitTx", "field1-type", false)];
    fn proto() -> &'static Proto {
        &spec::LOCALTXSUBMISSION
    }
    fn new(ch: AgentChannel) -> Self {
        LtServer(lt::GenericServer::new(ch))
    }
    fn state(&self) -> &'static str {
        lt_state(self.0.state())
    }
    observers!(none);
    codec_fns!(LtMsg, lt_build, lt_seen);
    async fn raw_send(&mut self, _kind: &str, _ctx: &Ctx) -> OpOut {
        OpOut::Rejected("not public".into())
    }
    async fn raw_recv(&mut self) -> Result<&'static str, String> {
        Err("not public".into())
    }
    async fn op(&mut self, name: &str, _ctx: &Ctx) -> OpOut {
        match name {
            "recv_next_request" => out(self.0.recv_next_request().await),
            "send_submit_tx_response(accepted)" => out(self.0.send_submit_tx_response(lt::Response::Accepted).await),
            "send_submit_tx_response(rejected)" => out(self.0.send_submit_tx_response(lt::Response::Rejected(Reason("no".into()))).await),
            n => panic!("harness: unknown op {n}"),
        }
    }
}

// ------------------------------------------------------------------------------------ txmonitor

fn tm_build(kind: &str, _ctx: &Ctx) -> tm::Message {
    match kind {
        "Acquire" => tm::Message::Acquire,
        "AwaitAcquire" => tm::Message::AwaitAcquire,
        "Acquired" => tm::Message::Acquired(5),
        "RequestHasTx" => tm::Message::RequestHasTx("ab".into()),
        "RequestNextTx" => tm::Message::RequestNextTx,
        "RequestSizeAndCapacity" => tm::Message::RequestSizeAndCapacity,
        "ResponseHasTx" => tm::Message::ResponseHasTx(true),
        "ResponseNextTx" => tm::Message::ResponseNextTx(None),
        "ResponseSizeAndCapacity" => {
            tm::Message::ResponseSizeAndCapacity(tm::MempoolSizeAndCapacity { capacity_in_bytes: 3, size_in_bytes: 2, number_of_txs: 1 })
        }
        "Release" => tm::Message::Release,
        "Done" => tm::Message::Done,
        k => panic!("harness: unknown txmonitor message {k}"),
    }
}
fn tm_seen(m: &tm::Message) -> Seen {
    seen(match m {
        tm::Message::Acquire => "Acquire",
        tm::Message::AwaitAcquire => "AwaitAcquire",
        tm::Message::Acquired(_) => "Acquired",
        tm::Message::RequestHasTx(_) => "RequestHasTx",
        tm::Message::RequestNextTx => "RequestNextTx",
        tm::Message::RequestSizeAndCapacity => "RequestSizeAndCapacity",
        tm::Message::ResponseHasTx(_) => "ResponseHasTx",
        tm::Message::ResponseNextTx(_) => "ResponseNextTx",
        tm::Message::ResponseSizeAndCapacity(_) => "ResponseSizeAndCapacity",
        tm::Message::Release => "Release",
        tm::Message::Done => "Done",
    })
}

pub struct TmClient(tm::Client);

impl Agent for TmClient {
    const NAME: &'static str = "txmonitor";
    const ROLE: Role = Role::Client;
    const PROTOCOL_ID: u16 = 9;
    const RAW_SEND: bool = true;
    const RAW_RECV: bool = true;
    const OPS: &'static [OpDef] = &[
        op("acquire", &[Send("Acquire"), Recv], &[]),
        op("query_has_tx", &[Send("RequestHasTx"), Recv], &[]),
        op("query_next_tx", &[Send("RequestNextTx"), Recv], &[]),
        op("query_size_and_capacity", &[Send("RequestSizeAndCapacity"), Recv], &[]),
        op("release", &[Send("Release")], &[]),
    ];
    const METHODS: &'static [&'static str] = &[
        "state", "is_done", "send_message", "recv_message", "acquire", "query_has_tx", "query_next_tx", "query_size_and_capacity", "release",
    ];
    const SOURCES: &'static [(&'static str, bool)] = &[("pallas-network/src/miniprotocols/txmonitor/client.rs", false)];
    const BAD: &'static [BadDef] =
        &[("Acquired", "field1-type", false), ("ResponseHasTx", "field1-type", false), ("ResponseSizeAndCapacity", "field1-type", false)];
    fn proto() -> &'static Proto {
        &spec::TXMONITOR
    }
    fn new(ch: AgentChannel) -> Self {
        TmClient(tm::Client::new(ch))
    }
    fn state(&self) -> &'static str {
        match self.0.state() {
            tm::State::Idle => "Idle",
            tm::State::Acquiring => "Acquiring",
            tm::State::Acquired => "Acquired",
            tm::State::Busy => "Busy",
            tm::State::Done => "Done",
        }
    }
    observers!(done);
    codec_fns!(tm::Message, tm_build, tm_seen);
    raw_fns!(tm_build, tm_seen);
    async fn op(&mut self, name: &str, _ctx: &Ctx) -> OpOut {
        match name {
            "acquire" => out(self.0.acquire().await),
            "query_has_tx" => out(self.0.query_has_tx("ab".into()).await),
            "query_next_tx" => out(self.0.query_next_tx().await),
            "query_size_and_capacity" => out(self.0.query_size_and_capacity().await),
            "release" => out(self.0.release().await),
            n => panic!("harness: unknown op {n}"),
        }
    }
}
