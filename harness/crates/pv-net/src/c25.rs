//! C25 — handshake negotiation accepts only the highest common version (DESIGN §C25).
//!
//! Responders under test:
//!  * net1 `pallas_network::miniprotocols::handshake::Server::<D>::handshake(table)` with N2N and
//!    N2C version data, driven over a Plexer pair by a raw client that injects a `Propose` encoded
//!    by the harness (cborx, from the handshake CDDL) and reads the reply as bytes;
//!  * net2 `ResponderBehavior` with a custom `HandshakeResponderConfig`, driven with the events
//!    `Connected`, `Recv([Propose])`, outputs drained from its outbound queue.
//!
//! Oracle (from the statement / network spec §3.6.7, constrains accepts and the disjoint case only):
//!  * reply `Accept(v, d)`  ⇒ v ∈ responder table ∧ v ∈ proposed table ∧ no larger common version ∧
//!    magic(d) = magic(responder[v]) = magic(proposed[v]);
//!  * tables disjoint ⇒ reply is `Refuse(VersionMismatch(vs))` with set(vs) = responder's versions.
use crate::net::{self, RawPeer, RawRecv, Trouble};
use pallas_network::miniprotocols::handshake as hs1;
use pallas_network2::behavior::responder::handshake::{HandshakeResponder, HandshakeResponderConfig};
use pallas_network2::behavior::responder::ResponderBehavior;
use pallas_network2::behavior::AnyMessage;
use pallas_network2::protocol::handshake as hs2;
use pallas_network2::{Behavior, BehaviorOutput, InterfaceCommand, InterfaceEvent, PeerId};
use proptest::prelude::*;
use pvkit::cborx::{self, Node};
use pvkit::{pick_idx, pv_ensure, pv_fail, Fail, Obs, Session};
use serde::{Deserialize, Serialize};
use std::collections::{BTreeMap, BTreeSet};

pub const MAGICS: [u64; 3] = [764824073, 1, 2];
pub const N2N_VERSIONS: [u64; 20] =
    [0, 1, 4, 6, 7, 8, 9, 10, 11, 12, 13, 14, 15, 16, 23, 24, 255, 256, 65536, u64::MAX];
pub const N2C_VERSIONS: [u64; 20] = [
    1, 4097, 32770, 32775, 32776, 32777, 32778, 32779, 32780, 32781, 32782, 32783, 32784, 32785, 32786, 32787, 32788,
    32790, 32791, u64::MAX,
];

/// Version data as plain data. N2N uses all fields (`ext = Some((peer_sharing, query))` is the
/// 4-element form, `None` the 2-element form); N2C uses `magic` and `ext.1` as the query flag.
#[derive(Debug, Clone, PartialEq, Eq, Serialize, Deserialize)]
pub struct Data {
    pub magic: u8,
    pub iodm: bool,
    pub ext: Option<(u8, bool)>,
}

#[derive(Debug, Clone, Serialize, Deserialize)]
pub enum Proposed {
    /// the same data the responder has for this version (fresh default if it has none)
    Same,
    /// the responder's data with another magic
    OtherMagic(u8),
    /// unrelated data
    Other(Data),
}

#[derive(Debug, Clone, Serialize, Deserialize)]
pub struct HsCase {
    /// responder's table: (version selector, data); later duplicates of a version are dropped
    pub responder: Vec<(u16, Data)>,
    /// proposed table
    pub proposed: Vec<(u16, Proposed)>,
}

fn data() -> impl Strategy<Value = Data> {
    (
        prop_oneof![4 => Just(0u8), 1 => Just(1u8), 1 => Just(2u8)],
        prop_oneof![4 => Just(false), 1 => Just(true)],
        prop_oneof![1 => Just(None), 3 => (0u8..=1, prop_oneof![5 => Just(false), 1 => Just(true)]).prop_map(Some)],
    )
        .prop_map(|(magic, iodm, ext)| Data { magic, iodm, ext })
}

fn proposed() -> impl Strategy<Value = Proposed> {
    prop_oneof![
        5 => Just(Proposed::Same),
        2 => (0u8..3).prop_map(Proposed::OtherMagic),
        2 => data().prop_map(Proposed::Other),
    ]
}

/// version selectors: either anywhere in the alphabet or confined to a window (→ overlapping,
/// disjoint and nested tables all occur).
fn table<T: Strategy + 'static>(item: fn() -> T) -> impl Strategy<Value = Vec<(u16, T::Value)>>
where
    T::Value: Clone + std::fmt::Debug,
{
    (0u16..=3).prop_flat_map(move |mode| {
        let sel = match mode {
            0 => (0u16..=u16::MAX).boxed(),
            1 => (0u16..0x8000).boxed(),
            2 => (0x8000u16..=u16::MAX).boxed(),
            _ => (0x4000u16..0xC000).boxed(),
        };
        prop::collection::vec((sel, item()), 0..=16)
    })
}

pub fn hs_case() -> impl Strategy<Value = HsCase> {
    (table(data), table(proposed)).prop_map(|(responder, proposed)| HsCase { responder, proposed })
}

/// The two tables of a case as models (version → data), alphabet applied.
pub fn tables(case: &HsCase, alphabet: &[u64; 20]) -> (BTreeMap<u64, Data>, BTreeMap<u64, Data>) {
    let mut resp = BTreeMap::new();
    for (sel, d) in &case.responder {
        resp.entry(alphabet[pick_idx(*sel, 20)]).or_insert_with(|| d.clone());
    }
    let mut prop = BTreeMap::new();
    for (sel, p) in &case.proposed {
        let v = alphabet[pick_idx(*sel, 20)];
        let base = resp.get(&v).cloned().unwrap_or(Data { magic: 0, iodm: false, ext: Some((0, false)) });
        let d = match p {
            Proposed::Same => base,
            Proposed::OtherMagic(m) => Data { magic: if *m == base.magic { (*m + 1) % 3 } else { *m }, ..base },
            Proposed::Other(d) => d.clone(),
        };
        prop.entry(v).or_insert(d);
    }
    (resp, prop)
}

#[derive(Clone, Copy, PartialEq, Eq, Debug)]
pub enum Flavour {
    N2N,
    N2C,
}

fn encode_data(fl: Flavour, d: &Data) -> Node {
    let magic = cborx::uint(MAGICS[d.magic as usize % 3]);
    match (fl, d.ext) {
        (Flavour::N2N, None) => cborx::array(vec![magic, cborx::boolean(d.iodm)]),
        (Flavour::N2N, Some((ps, q))) => {
            cborx::array(vec![magic, cborx::boolean(d.iodm), cborx::uint(ps as u64), cborx::boolean(q)])
        }
        (Flavour::N2C, None) => magic,
        (Flavour::N2C, Some((_, q))) => cborx::array(vec![magic, cborx::boolean(q)]),
    }
}

/// `msgProposeVersions = [0, versionTable]`, keys ascending (handshake CDDL, spec §3.6.9).
pub fn encode_propose(fl: Flavour, t: &BTreeMap<u64, Data>) -> Vec<u8> {
    let entries = t.iter().map(|(v, d)| (cborx::uint(*v), encode_data(fl, d))).collect();
    cborx::write(&cborx::array(vec![cborx::uint(0), cborx::map(entries)]))
}

fn magic_of(fl: Flavour, d: &Node) -> Option<u64> {
    match fl {
        Flavour::N2N => d.as_array()?.first()?.as_u64(),
        Flavour::N2C => match d.as_array() {
            Some(a) => a.first()?.as_u64(),
            None => d.as_u64(),
        },
    }
}

/// What the responder answered, reduced to what the oracle needs.
#[derive(Debug, Clone, PartialEq)]
pub enum Reply {
    Accept { version: u64, magic: Option<u64> },
    VersionMismatch(Vec<u64>),
    RefuseOther(&'static str),
    QueryReply,
    Unparsed(String),
}

pub fn parse_reply(fl: Flavour, bytes: &[u8]) -> Reply {
    let un = || Reply::Unparsed(hex::encode(bytes));
    let Ok(n) = cborx::read(bytes) else { return un() };
    let Some(a) = n.as_array() else { return un() };
    match (a.first().and_then(|t| t.as_u64()), a.len()) {
        (Some(1), 3) => match a[1].as_u64() {
            Some(version) => Reply::Accept { version, magic: magic_of(fl, &a[2]) },
            None => un(),
        },
        (Some(2), 2) => {
            let Some(r) = a[1].as_array() else { return un() };
            match (r.first().and_then(|t| t.as_u64()), r.len()) {
                (Some(0), 2) => match r[1].as_array() {
                    Some(vs) => match vs.iter().map(|v| v.as_u64()).collect::<Option<Vec<u64>>>() {
                        Some(vs) => Reply::VersionMismatch(vs),
                        None => un(),
                    },
                    None => un(),
                },
                (Some(1), 3) => Reply::RefuseOther("HandshakeDecodeError"),
                (Some(2), 3) => Reply::RefuseOther("Refused"),
                _ => un(),
            }
        }
        (Some(3), 2) => Reply::QueryReply,
        _ => un(),
    }
}

/// The oracle. `who` prefixes the signatures (net1-n2n / net1-n2c / net2).
pub fn judge(
    who: &str,
    resp: &BTreeMap<u64, Data>,
    prop: &BTreeMap<u64, Data>,
    reply: &Reply,
    obs: &mut Obs,
) -> Result<(), Fail> {
    let common: BTreeSet<u64> = resp.keys().filter(|v| prop.contains_key(v)).copied().collect();
    let highest = common.iter().next_back().copied();
    obs.class(if common.is_empty() { "tables-disjoint" } else { "tables-overlap" });
    if resp.is_empty() {
        obs.class("responder-table-empty");
    }
    if prop.is_empty() {
        obs.class("proposed-table-empty");
    }
    match reply {
        Reply::Accept { version, magic } => {
            obs.class("reply-accept");
            pv_ensure!(resp.contains_key(version), format!("{who}:accepted-version-not-offered-by-responder"),
                "accepted {version}, responder table {:?}", resp.keys().collect::<Vec<_>>());
            pv_ensure!(prop.contains_key(version), format!("{who}:accepted-version-not-proposed"),
                "accepted {version}, proposed table {:?}", prop.keys().collect::<Vec<_>>());
            pv_ensure!(Some(*version) == highest, format!("{who}:accepted-version-not-highest-common"),
                "accepted {version} but the highest common version is {:?} (common {:?})", highest, common);
            let rm = MAGICS[resp[version].magic as usize % 3];
            let pm = MAGICS[prop[version].magic as usize % 3];
            pv_ensure!(rm == pm, format!("{who}:accepted-with-different-magics"),
                "accepted {version} although responder magic {rm} != proposed magic {pm}");
            pv_ensure!(*magic == Some(rm), format!("{who}:accepted-data-magic-differs"),
                "accepted {version} with data magic {:?}, both sides have {rm}", magic);
            if common.len() >= 2 {
                obs.class("accept-with-choice");
            }
        }
        Reply::VersionMismatch(vs) => {
            obs.class("reply-version-mismatch");
            if common.is_empty() {
                let got: BTreeSet<u64> = vs.iter().copied().collect();
                let want: BTreeSet<u64> = resp.keys().copied().collect();
                pv_ensure!(got == want, format!("{who}:version-mismatch-list-wrong"),
                    "disjoint tables: refusal lists {:?}, responder offers {:?}", vs, want);
            }
        }
        other => {
            obs.class(match other {
                Reply::RefuseOther("Refused") => "reply-refused",
                Reply::RefuseOther(_) => "reply-refuse-decode-error",
                Reply::QueryReply => "reply-query",
                _ => "reply-unparsed",
            });
            pv_ensure!(!common.is_empty(), format!("{who}:disjoint-not-version-mismatch"),
                "disjoint tables (responder {:?}, proposed {:?}) but the reply is {:?}",
                resp.keys().collect::<Vec<_>>(), prop.keys().collect::<Vec<_>>(), other);
        }
    }
    // non-triviality: both tables non-empty and either a real choice or a disjoint pair
    if !resp.is_empty() && !prop.is_empty() {
        obs.nontrivial();
    }
    Ok(())
}

// ---------------------------------------------------------------- net1

trait VData: Clone + std::fmt::Debug + PartialEq + Send + 'static {
    const FL: Flavour;
    fn build(d: &Data) -> Self;
}

impl VData for hs1::n2n::VersionData {
    const FL: Flavour = Flavour::N2N;
    fn build(d: &Data) -> Self {
        let (ps, q) = match d.ext {
            Some((ps, q)) => (Some(ps), Some(q)),
            None => (None, None),
        };
        hs1::n2n::VersionData::new(MAGICS[d.magic as usize % 3], d.iodm, ps, q)
    }
}

impl VData for hs1::n2c::VersionData {
    const FL: Flavour = Flavour::N2C;
    fn build(d: &Data) -> Self {
        hs1::n2c::VersionData::new(MAGICS[d.magic as usize % 3], d.ext.map(|(_, q)| q))
    }
}

enum Net1Outcome {
    Done { reply: Reply, returned: Result<Option<(u64, Vec<u8>)>, String> },
    Trouble(Trouble),
}

async fn net1_drive<D>(resp: &BTreeMap<u64, Data>, propose: Vec<u8>) -> Net1Outcome
where
    D: VData + pallas_codec::minicbor::Encode<()>,
    hs1::Message<D>: pallas_codec::Fragment,
{
    let (mut pa, mut pb) = match net::plexer_pair() {
        Ok(p) => p,
        Err(t) => return Net1Outcome::Trouble(t),
    };
    let mut server = hs1::Server::<D>::new(pa.subscribe_server(0));
    let mut raw = RawPeer::new(pb.subscribe_client(0));
    let running = net::Running(pa.spawn(), pb.spawn());
    let table = hs1::VersionTable { values: resp.iter().map(|(v, d)| (*v, D::build(d))).collect() };
    let out = async {
        raw.send(&propose).await?;
        let returned = net::within("server.handshake()", server.handshake(table)).await?;
        let returned = match returned {
            Ok(Some((v, d))) => Ok(Some((v, pallas_codec::minicbor::to_vec(&d).unwrap_or_default()))),
            Ok(None) => Ok(None),
            Err(e) => Err(format!("{e:?}")),
        };
        let reply = match raw.recv().await? {
            RawRecv::Item(b) => parse_reply(D::FL, &b),
            RawRecv::Malformed(b) => Reply::Unparsed(hex::encode(b)),
        };
        Ok::<_, Trouble>(Net1Outcome::Done { reply, returned })
    }
    .await;
    running.stop().await;
    match out {
        Ok(o) => o,
        Err(t) => Net1Outcome::Trouble(t),
    }
}

fn net1_case<D>(s: &Session, who: &str, alphabet: &[u64; 20], case: &HsCase, obs: &mut Obs) -> Result<(), Fail>
where
    D: VData + pallas_codec::minicbor::Encode<()>,
    hs1::Message<D>: pallas_codec::Fragment,
{
    let (resp, prop) = tables(case, alphabet);
    let propose = encode_propose(D::FL, &prop);
    let rt = net::rt_current();
    let outcome = rt.block_on(net1_drive::<D>(&resp, propose));
    drop(rt);
    match outcome {
        Net1Outcome::Trouble(t) => {
            s.health(false, &format!("{who}: harness could not complete a handshake: {t}"));
            obs.discard();
            Ok(())
        }
        Net1Outcome::Done { reply, returned } => {
            judge(who, &resp, &prop, &reply, obs)?;
            // the value `handshake()` hands to its caller is the responder's own view of what it
            // accepted: it must satisfy the same conditions, i.e. agree with what went on the wire
            match (&returned, &reply) {
                (Ok(Some((v, d))), Reply::Accept { version, magic }) => {
                    let dm = cborx::read(d).ok().and_then(|n| magic_of(D::FL, &n));
                    pv_ensure!(v == version && dm == *magic, format!("{who}:returned-accept-differs-from-wire"),
                        "handshake() returned ({v}, magic {:?}) but sent Accept({version}, magic {:?})", dm, magic);
                }
                (Ok(Some((v, _))), other) => pv_fail!(format!("{who}:returned-accept-without-accept-on-wire"),
                    "handshake() returned Some({v}, ..) but the message sent was {:?}", other),
                (Ok(None), Reply::Accept { version, .. }) => pv_fail!(format!("{who}:accept-on-wire-but-returned-none"),
                    "handshake() returned None but sent Accept({version})"),
                (Ok(None), _) => {}
                (Err(e), _) => {
                    s.health(false, &format!("{who}: handshake() returned an error: {e}"));
                }
            }
            Ok(())
        }
    }
}

// ---------------------------------------------------------------- net2

fn n2n2(d: &Data) -> hs2::n2n::VersionData {
    let (ps, q) = match d.ext {
        Some((ps, q)) => (Some(ps), Some(q)),
        None => (None, None),
    };
    hs2::n2n::VersionData::new(MAGICS[d.magic as usize % 3], d.iodm, ps, q)
}

fn drain(rt: &tokio::runtime::Runtime, b: &mut ResponderBehavior) -> Vec<BehaviorOutput<ResponderBehavior>> {
    let mut out = vec![];
    rt.block_on(async {
        while let Some(o) = b.outbound.poll_next().await {
            out.push(o);
        }
    });
    out
}

fn net2_case(s: &Session, case: &HsCase, obs: &mut Obs) -> Result<(), Fail> {
    let who = "net2";
    let (resp, prop) = tables(case, &N2N_VERSIONS);
    let rt = tokio::runtime::Builder::new_current_thread().enable_time().build().expect("rt");
    let _guard = rt.enter();
    let mut b = ResponderBehavior::default();
    b.handshake = HandshakeResponder::new(HandshakeResponderConfig {
        supported_version: hs2::n2n::VersionTable { values: resp.iter().map(|(v, d)| (*v, n2n2(d))).collect() },
    });
    let pid = PeerId { host: "10.0.0.1".into(), port: 3001 };
    b.handle_io(InterfaceEvent::Connected(pid.clone()));
    let first = drain(&rt, &mut b);
    if first.iter().any(|o| matches!(o, BehaviorOutput::InterfaceCommand(InterfaceCommand::Disconnect(_)))) {
        s.health(false, "net2: responder disconnected a fresh peer");
        obs.discard();
        return Ok(());
    }
    let table = hs2::VersionTable { values: prop.iter().map(|(v, d)| (*v, n2n2(d))).collect() };
    b.handle_io(InterfaceEvent::Recv(pid.clone(), vec![AnyMessage::Handshake(hs2::Message::Propose(table))]));
    let outs = drain(&rt, &mut b);
    let mut replies = vec![];
    for o in &outs {
        if let BehaviorOutput::InterfaceCommand(InterfaceCommand::Send(to, AnyMessage::Handshake(m))) = o {
            pv_ensure!(*to == pid, "net2:reply-to-wrong-peer", "reply addressed to {to}, proposer is {pid}");
            replies.push(match m {
                hs2::Message::Accept(v, d) => Reply::Accept { version: *v, magic: Some(d.network_magic) },
                hs2::Message::Refuse(hs2::RefuseReason::VersionMismatch(vs)) => Reply::VersionMismatch(vs.clone()),
                hs2::Message::Refuse(hs2::RefuseReason::Refused(..)) => Reply::RefuseOther("Refused"),
                hs2::Message::Refuse(hs2::RefuseReason::HandshakeDecodeError(..)) => Reply::RefuseOther("HandshakeDecodeError"),
                hs2::Message::QueryReply(_) => Reply::QueryReply,
                hs2::Message::Propose(_) => Reply::Unparsed("Propose".into()),
            });
        }
    }
    pv_ensure!(replies.len() <= 1, "net2:more-than-one-handshake-reply", "responder sent {} replies: {:?}", replies.len(), replies);
    let Some(reply) = replies.pop() else {
        // no reply at all: with disjoint tables the statement demands a refusal
        let disjoint = !resp.keys().any(|v| prop.contains_key(v));
        pv_ensure!(!disjoint, "net2:disjoint-not-version-mismatch", "disjoint tables but the responder sent nothing");
        obs.class("net2-no-reply");
        return Ok(());
    };
    judge(who, &resp, &prop, &reply, obs)
}

pub fn run(s: &Session) {
    s.set_rule(
        "random pairs of version tables (0..=16 versions each from a 20-number alphabet, windows give overlapping / \
         disjoint / nested tables; data = magic from 3 values + other fields, proposed data equal to / differing in magic \
         from / unrelated to the responder's); non-trivial = both tables non-empty; distinct = distinct serialised pairs",
    );
    s.assume("Propose is encoded by the harness from the handshake CDDL (keys ascending, definite map); replies are parsed with cborx");
    s.assume("net1 Server::handshake refuses whenever the highest common version's data differs at all (stricter than the statement; not judged)");
    let n = s.pick(5_000, 100_000);
    s.forall("net1-n2n", n, hs_case, |case, obs| net1_case::<hs1::n2n::VersionData>(s, "net1-n2n", &N2N_VERSIONS, case, obs));
    s.forall("net1-n2c", n, hs_case, |case, obs| net1_case::<hs1::n2c::VersionData>(s, "net1-n2c", &N2C_VERSIONS, case, obs));
    s.forall("net2", n, hs_case, |case, obs| net2_case(s, case, obs));
    if !s.replaying() {
        for c in ["reply-accept", "accept-with-choice", "reply-version-mismatch", "reply-refused", "tables-disjoint", "tables-overlap",
            "responder-table-empty", "proposed-table-empty"] {
            s.health(s.class_count(c) > 0, &format!("generator never produced class {c}"));
        }
        let acc = s.class_count("reply-accept") as f64;
        let tot = (s.class_count("tables-disjoint") + s.class_count("tables-overlap")).max(1) as f64;
        s.note("accept_rate", serde_json::json!((acc / tot * 1000.0).round() / 1000.0));
    }
}
