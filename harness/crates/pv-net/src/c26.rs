//! C26 — the chainsync rollback buffer behaves like a chain-suffix (list) model (DESIGN §C26).
//!
//! Oracle: a `Vec<usize>` (indices into a 6-point alphabet) written from the property statement.
//! Nothing of `RollbackBuffer` is reused: after every operation the *whole* content is read back
//! through `peek()` and compared with the model, plus `size/latest/oldest/position`.
use pallas_network::miniprotocols::chainsync::{RollbackBuffer, RollbackEffect};
use pallas_network::miniprotocols::Point;
use proptest::prelude::*;
use pvkit::{pv_ensure, Fail, Obs, Session};
use serde::{Deserialize, Serialize};

#[derive(Debug, Clone, Serialize, Deserialize, PartialEq)]
pub enum Op {
    /// roll_forward(alphabet[i])
    Fwd(u8),
    /// roll_back(&alphabet[i])
    Back(u8),
    /// pop_with_depth(d)
    Pop(u16),
}

pub const ALPHABET: usize = 6;

/// Small alphabet: forces duplicates and misses; contains Origin, two points with the same slot
/// and different hashes, an empty hash and a realistic 32-byte hash.
pub fn point(i: u8) -> Point {
    match i % ALPHABET as u8 {
        0 => Point::Origin,
        1 => Point::Specific(1, vec![1]),
        2 => Point::Specific(2, vec![2]),
        3 => Point::Specific(2, vec![3]),
        4 => Point::Specific(3, vec![]),
        _ => Point::Specific(4, vec![0xab; 32]),
    }
}

fn op() -> impl Strategy<Value = Op> {
    prop_oneof![
        6 => (0u8..ALPHABET as u8).prop_map(Op::Fwd),
        2 => (0u8..ALPHABET as u8).prop_map(Op::Back),
        2 => prop_oneof![
            4 => 0u16..8,
            2 => 0u16..40,
            1 => Just(u16::MAX),
        ].prop_map(Op::Pop),
    ]
}

fn ops(max: usize) -> impl Strategy<Value = Vec<Op>> {
    prop::collection::vec(op(), 0..=max)
}

fn content(b: &RollbackBuffer) -> Vec<Point> {
    b.peek().cloned().collect()
}

fn check_observers(b: &RollbackBuffer, model: &[u8], step: usize) -> Result<(), Fail> {
    let want: Vec<Point> = model.iter().map(|i| point(*i)).collect();
    let got = content(b);
    pv_ensure!(got == want, "content-mismatch", "step {step}: buffer holds {:?}, model holds {:?}", got, want);
    pv_ensure!(b.size() == model.len(), "size-mismatch", "step {step}: size() = {} but {} points are held", b.size(), model.len());
    pv_ensure!(b.latest() == want.last(), "latest-mismatch", "step {step}: latest() = {:?}, content {:?}", b.latest(), want);
    pv_ensure!(b.oldest() == want.first(), "oldest-mismatch", "step {step}: oldest() = {:?}, content {:?}", b.oldest(), want);
    for i in 0..ALPHABET as u8 {
        let p = point(i);
        match b.position(&p) {
            // with duplicates the statement does not say which occurrence: any index holding p
            Some(ix) => pv_ensure!(ix < want.len() && want[ix] == p, "position-wrong", "step {step}: position({:?}) = {ix} but content is {:?}", p, want),
            None => pv_ensure!(!want.contains(&p), "position-missed", "step {step}: position({:?}) = None but content is {:?}", p, want),
        }
    }
    Ok(())
}

pub fn run_ops(case: &[Op], obs: &mut Obs) -> Result<(), Fail> {
    // both constructors give the empty buffer: histories of odd length start from `Default`
    let mut buf = if case.len() % 2 == 1 { RollbackBuffer::default() } else { RollbackBuffer::new() };
    let mut model: Vec<u8> = vec![];
    let mut hit_then_pop = 0u8; // 0 nothing, 1 saw a hit, 2 saw a pop after a hit
    let mut miss = false;
    let mut dup = false;
    check_observers(&buf, &model, 0)?;
    for (n, op) in case.iter().enumerate() {
        let step = n + 1;
        match op {
            Op::Fwd(i) => {
                if model.contains(i) {
                    dup = true;
                }
                buf.roll_forward(point(*i));
                model.push(*i);
            }
            Op::Pop(d) => {
                let d = *d as usize;
                let n_ready = model.len().saturating_sub(d);
                let expect: Vec<Point> = model[..n_ready].iter().map(|i| point(*i)).collect();
                let got = buf.pop_with_depth(d);
                pv_ensure!(got == expect, "pop-mismatch", "step {step}: pop_with_depth({d}) on {:?} returned {:?}, model says {:?}",
                    model.iter().map(|i| point(*i)).collect::<Vec<_>>(), got, expect);
                model.drain(..n_ready);
                if hit_then_pop == 1 {
                    hit_then_pop = 2;
                }
                obs.class(if n_ready > 0 { "pop-some" } else { "pop-none" });
            }
            Op::Back(i) => {
                let p = point(*i);
                let present = model.contains(i);
                let before = model.clone();
                // where the buffer itself says the point is (its public `position`)
                let at = buf.position(&p);
                let eff = buf.roll_back(&p);
                let after = content(&buf);
                if !present {
                    miss = true;
                    pv_ensure!(matches!(eff, RollbackEffect::OutOfScope), "rollback-miss-not-out-of-scope",
                        "step {step}: roll_back({:?}) on a buffer without that point reported Handled", p);
                    pv_ensure!(after.is_empty(), "rollback-miss-not-emptied",
                        "step {step}: roll_back({:?}) to an unknown point left {:?}", p, after);
                    model.clear();
                    obs.class("rollback-miss");
                } else {
                    pv_ensure!(matches!(eff, RollbackEffect::Handled), "rollback-hit-out-of-scope",
                        "step {step}: roll_back({:?}) on a buffer holding that point reported OutOfScope", p);
                    let before_pts: Vec<Point> = before.iter().map(|i| point(*i)).collect();
                    let is_prefix = after.len() <= before_pts.len() && before_pts[..after.len()] == after[..];
                    pv_ensure!(is_prefix, "rollback-hit-not-prefix",
                        "step {step}: roll_back({:?}) turned {:?} into {:?} (not a prefix)", p, before_pts, after);
                    pv_ensure!(after.last() == Some(&p), "rollback-hit-does-not-end-at-point",
                        "step {step}: roll_back({:?}) turned {:?} into {:?} (does not end with the point)", p, before_pts, after);
                    // with duplicates "up to it" means up to the occurrence the buffer's own `position` reports (for a list
                    // model: the first one); an implementation that finds the point in one place and cuts in another
                    // is inconsistent with itself
                    pv_ensure!(at.map(|x| x + 1) == Some(after.len()), "rollback-hit-not-at-position",
                        "step {step}: position({:?}) was {:?} but roll_back kept {} points of {:?}", p, at, after.len(), before_pts);
                    model.truncate(after.len());
                    if hit_then_pop == 0 {
                        hit_then_pop = 1;
                    }
                    obs.class(if before.iter().filter(|x| *x == i).count() > 1 { "rollback-hit-dup" } else { "rollback-hit" });
                }
            }
        }
        check_observers(&buf, &model, step)?;
    }
    if dup {
        obs.class("has-duplicate-points");
    }
    if hit_then_pop == 2 && miss {
        obs.class("nontrivial");
        obs.nontrivial();
    }
    Ok(())
}

pub fn run(s: &Session) {
    s.set_rule(
        "random op sequences (roll_forward / roll_back / pop_with_depth, length 0..=200) over a 6-point alphabet; \
         non-trivial = the sequence contains a roll_back to a buffered point followed later by a pop, and a roll_back miss; \
         distinct = distinct serialised sequences",
    );
    s.assume("Point equality (derived PartialEq) is the notion of 'same point'");
    s.forall("ops-vs-list-model", s.pick(20_000, 400_000), || ops(200), |case, obs| run_ops(case, obs));
    // short sequences: dense coverage of the small cases (empty buffer, single element, depth edges)
    s.forall("short-ops-vs-list-model", s.pick(20_000, 400_000), || ops(12), |case, obs| run_ops(case, obs));
    if !s.replaying() {
        s.health(s.class_count("rollback-hit") > 0, "generator never rolled back to a buffered point");
        s.health(s.class_count("rollback-hit-dup") > 0, "generator never rolled back to a duplicated point");
        s.health(s.class_count("rollback-miss") > 0, "generator never rolled back to an unknown point");
        s.health(s.class_count("pop-some") > 0, "generator never popped a point");
        s.health(s.class_count("pop-none") > 0, "generator never popped with depth >= size");
    }
}
