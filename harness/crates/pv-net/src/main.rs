mod c20;
mod c20_net2;
mod c23;
mod c23_agents;
mod c25;
mod c26;
mod net;
mod spec;

use pvkit::session::CheckDef;

fn main() {
    pvkit::main(&[
        CheckDef { id: "C26", level: "exploration", run: c26::run },
        CheckDef { id: "C25", level: "exploration", run: c25::run },
        CheckDef { id: "C20", level: "exploration", run: c20::run },
        CheckDef { id: "C23", level: "exploration", run: c23::run },
    ]);
}
