//! Harness plumbing shared by C20/C23/C25: an in-memory connected pair of pallas-network
//! multiplexers (`Bearer::Unix(UnixStream::pair())`, no filesystem, no network), a raw peer that
//! moves CBOR items as bytes, and a deterministic "has the agent put anything on the wire?" probe.
use pallas_network::multiplexer::{AgentChannel, Bearer, Plexer, RunningPlexer};
use pvkit::cborx;
use std::future::Future;
use std::task::Poll;
use std::time::Duration;

/// Generous bound for every await that depends on the code under test. Expiry = inconclusive.
pub const WAIT: Duration = Duration::from_secs(10);

/// Protocol number used for the harness' own sentinel lane (never used by a pallas agent).
pub const SENTINEL_PROTOCOL: u16 = 0x7ffe;

#[derive(Debug, Clone)]
pub enum Trouble {
    /// the harness could not get an answer in time / the plexer went away: inconclusive
    Timeout(&'static str),
    Closed(&'static str),
    Io(String),
}

impl std::fmt::Display for Trouble {
    fn fmt(&self, f: &mut std::fmt::Formatter<'_>) -> std::fmt::Result {
        match self {
            Trouble::Timeout(w) => write!(f, "timeout while {w}"),
            Trouble::Closed(w) => write!(f, "channel closed while {w}"),
            Trouble::Io(e) => write!(f, "io: {e}"),
        }
    }
}

pub fn rt_current() -> tokio::runtime::Runtime {
    tokio::runtime::Builder::new_current_thread().enable_all().build().expect("tokio runtime")
}

pub fn rt_multi(workers: usize) -> tokio::runtime::Runtime {
    tokio::runtime::Builder::new_multi_thread()
        .worker_threads(workers)
        .enable_all()
        .build()
        .expect("tokio runtime")
}

/// Two connected plexers (not yet spawned: subscribe first). Must be called inside a runtime.
pub fn plexer_pair() -> Result<(Plexer, Plexer), Trouble> {
    let (x, y) = tokio::net::UnixStream::pair().map_err(|e| Trouble::Io(e.to_string()))?;
    Ok((Plexer::new(Bearer::Unix(x)), Plexer::new(Bearer::Unix(y))))
}

pub async fn within<F: Future>(what: &'static str, f: F) -> Result<F::Output, Trouble> {
    tokio::time::timeout(WAIT, f).await.map_err(|_| Trouble::Timeout(what))
}

/// Poll `dequeue_chunk` exactly once: Some(chunk) if one is already queued for this channel.
pub async fn try_dequeue(ch: &mut AgentChannel) -> Option<Vec<u8>> {
    let fut = tokio::task::unconstrained(ch.dequeue_chunk());
    let mut fut = std::pin::pin!(fut);
    std::future::poll_fn(|cx| match fut.as_mut().poll(cx) {
        Poll::Ready(Ok(c)) => Poll::Ready(Some(c)),
        Poll::Ready(Err(_)) => Poll::Ready(None),
        Poll::Pending => Poll::Ready(None),
    })
    .await
}

/// The harness side of one mini-protocol lane: sends and receives whole CBOR items as bytes.
pub struct RawPeer {
    pub ch: AgentChannel,
    pub buf: Vec<u8>,
}

#[derive(Debug)]
pub enum RawRecv {
    Item(Vec<u8>),
    /// bytes that are not a well-formed CBOR item
    Malformed(Vec<u8>),
}

impl RawPeer {
    pub fn new(ch: AgentChannel) -> Self {
        RawPeer { ch, buf: vec![] }
    }

    pub async fn send(&mut self, bytes: &[u8]) -> Result<(), Trouble> {
        for chunk in bytes.chunks(65535) {
            within("raw enqueue", self.ch.enqueue_chunk(chunk.to_vec()))
                .await?
                .map_err(|_| Trouble::Closed("raw enqueue"))?;
        }
        Ok(())
    }

    fn take_item(&mut self) -> Option<RawRecv> {
        if self.buf.is_empty() {
            return None;
        }
        match cborx::read_prefix(&self.buf) {
            Ok((_, n)) => Some(RawRecv::Item(self.buf.drain(..n).collect())),
            Err(cborx::Error::Eof(_)) => None,
            Err(_) => Some(RawRecv::Malformed(std::mem::take(&mut self.buf))),
        }
    }

    /// Wait (bounded) for the next complete CBOR item the agent sent.
    pub async fn recv(&mut self) -> Result<RawRecv, Trouble> {
        loop {
            if let Some(r) = self.take_item() {
                return Ok(r);
            }
            let chunk = within("waiting for the agent's message", self.ch.dequeue_chunk())
                .await?
                .map_err(|_| Trouble::Closed("raw dequeue"))?;
            self.buf.extend(chunk);
        }
    }

    /// Anything already delivered (non-blocking)?
    pub async fn pending(&mut self) -> Option<Vec<u8>> {
        if !self.buf.is_empty() {
            return Some(std::mem::take(&mut self.buf));
        }
        try_dequeue(&mut self.ch).await
    }
}

/// A sentinel lane next to the lane under test. The muxer writes segments in the order they were
/// enqueued and the demuxer dispatches them in the order read, so once the sentinel sent *after*
/// an agent action has arrived, everything the agent enqueued during that action is already in the
/// raw peer's queue: "nothing pending" is then a deterministic observation, not a timing guess.
pub struct Sentinel {
    agent_side: AgentChannel,
    raw_side: AgentChannel,
    n: u32,
}

impl Sentinel {
    pub fn subscribe(agent_plexer: &mut Plexer, raw_plexer: &mut Plexer) -> Self {
        Sentinel {
            agent_side: agent_plexer.subscribe_client(SENTINEL_PROTOCOL),
            raw_side: raw_plexer.subscribe_server(SENTINEL_PROTOCOL),
            n: 0,
        }
    }

    pub async fn flush(&mut self) -> Result<(), Trouble> {
        self.n += 1;
        let tag = self.n.to_be_bytes().to_vec();
        within("sentinel enqueue", self.agent_side.enqueue_chunk(tag.clone()))
            .await?
            .map_err(|_| Trouble::Closed("sentinel enqueue"))?;
        loop {
            let got = within("sentinel dequeue", self.raw_side.dequeue_chunk())
                .await?
                .map_err(|_| Trouble::Closed("sentinel dequeue"))?;
            if got == tag {
                return Ok(());
            }
        }
    }
}

pub struct Running(pub RunningPlexer, pub RunningPlexer);

impl Running {
    pub async fn stop(self) {
        self.0.abort().await;
        self.1.abort().await;
    }
}
