//! Mini-protocol state machines transcribed from the Ouroboros network specification
//! (`pallas-network2/network-spec.pdf`, chapter 3: the "state / agency" figures and the
//! "from state / message / to state" tables of §3.6 handshake, §3.7 chain-sync, §3.8 block-fetch,
//! §3.9 tx-submission v2, §3.10 keep-alive, §3.11 peer-sharing, §3.12 local-tx-submission,
//! §3.13 local-state-query, §3.14 local-tx-monitor).
//!
//! This file is the oracle of C23. It contains no pallas code. Message names follow the pallas
//! enum variants so that they can be matched with what the agents send/receive; the spec name is
//! given in the comment where it differs.

#[derive(Clone, Copy, PartialEq, Eq, Debug)]
pub enum Role {
    Client,
    Server,
}

impl Role {
    pub fn other(self) -> Role {
        match self {
            Role::Client => Role::Server,
            Role::Server => Role::Client,
        }
    }
    pub fn name(self) -> &'static str {
        match self {
            Role::Client => "client",
            Role::Server => "server",
        }
    }
}

#[derive(Debug)]
pub struct Edge {
    pub from: &'static str,
    pub msg: &'static str,
    pub by: Role,
    pub to: &'static str,
}

#[derive(Debug)]
pub struct Proto {
    pub name: &'static str,
    pub states: &'static [&'static str],
    pub initial: &'static str,
    /// every message variant the pallas codec of this protocol knows
    pub messages: &'static [&'static str],
    pub edges: &'static [Edge],
    /// messages of the protocol's usual exchange (everything else counts as a rare transition)
    pub happy: &'static [&'static str],
    /// spec states that pallas represents by one state: (spec state, pallas state)
    pub alias: &'static [(&'static str, &'static str)],
    /// (state, message) pairs that are deliberately not judged (documented in REPORT.md)
    pub unjudged: &'static [(&'static str, &'static str)],
}

const C: Role = Role::Client;
const S: Role = Role::Server;

const fn e(from: &'static str, msg: &'static str, by: Role, to: &'static str) -> Edge {
    Edge { from, msg, by, to }
}

impl Proto {
    pub fn edge(&self, from: &str, msg: &str) -> Option<&Edge> {
        self.edges.iter().find(|e| e.from == from && e.msg == msg)
    }
    /// who may send in this state (None: nobody, the protocol has terminated)
    pub fn agency(&self, state: &str) -> Option<Role> {
        self.edges.iter().find(|e| e.from == state).map(|e| e.by)
    }
    /// the name pallas uses for a spec state
    pub fn pallas_state(&self, state: &'static str) -> &'static str {
        self.alias.iter().find(|(s, _)| *s == state).map(|(_, p)| *p).unwrap_or(state)
    }
    /// may `by` send `msg` in `state`, when spec states that pallas cannot tell apart are merged?
    pub fn legal_coarse(&self, state: &'static str, msg: &str, by: Role) -> bool {
        let p = self.pallas_state(state);
        self.edges.iter().any(|e| self.pallas_state(e.from) == p && e.msg == msg && e.by == by)
    }
    pub fn legal(&self, state: &str, msg: &str, by: Role) -> Option<&'static str> {
        self.edges.iter().find(|e| e.from == state && e.msg == msg && e.by == by).map(|e| e.to)
    }
    pub fn is_unjudged(&self, state: &str, msg: &str) -> bool {
        self.unjudged.iter().any(|(s, m)| *s == state && *m == msg)
    }
    /// structural self-check of a table (run once at start-up)
    pub fn check(&self) -> Result<(), String> {
        if !self.states.contains(&self.initial) {
            return Err(format!("{}: initial state not listed", self.name));
        }
        for ed in self.edges {
            if !self.states.contains(&ed.from) || !self.states.contains(&ed.to) {
                return Err(format!("{}: edge {:?} uses an unknown state", self.name, ed));
            }
            if !self.messages.contains(&ed.msg) {
                return Err(format!("{}: edge {:?} uses an unknown message", self.name, ed));
            }
            // one agency per state
            if self.edges.iter().any(|o| o.from == ed.from && o.by != ed.by) {
                return Err(format!("{}: state {} has edges of both roles", self.name, ed.from));
            }
            // deterministic
            if self.edges.iter().filter(|o| o.from == ed.from && o.msg == ed.msg).count() != 1 {
                return Err(format!("{}: duplicate edge {:?}", self.name, ed));
            }
        }
        if !self.states.contains(&"Done") || self.agency("Done").is_some() {
            return Err(format!("{}: Done must exist and have no outgoing edge", self.name));
        }
        Ok(())
    }
}

/// §3.6.2. `QueryReply` is the spec's MsgQueryReply (CDDL msgQueryReply = [3, versionTable]):
/// StConfirm → StDone, sent by the server when the client proposed with the query flag.
/// MsgReplyVersion (TCP simultaneous open; same bytes as MsgProposeVersions, StConfirm → StDone) is
/// not supported by pallas at all and is left unjudged.
pub static HANDSHAKE: Proto = Proto {
    name: "handshake",
    states: &["Propose", "Confirm", "Done"],
    initial: "Propose",
    messages: &["Propose", "Accept", "Refuse", "QueryReply"],
    edges: &[
        e("Propose", "Propose", C, "Confirm"),
        e("Confirm", "Accept", S, "Done"),
        e("Confirm", "Refuse", S, "Done"),
        e("Confirm", "QueryReply", S, "Done"),
    ],
    happy: &["Propose", "Accept"],
    alias: &[],
    unjudged: &[("Confirm", "Propose")],
};

/// §3.7.2, figure 3.2 and the transition table.
pub static CHAINSYNC: Proto = Proto {
    name: "chainsync",
    states: &["Idle", "CanAwait", "MustReply", "Intersect", "Done"],
    initial: "Idle",
    messages: &["RequestNext", "AwaitReply", "RollForward", "RollBackward", "FindIntersect", "IntersectFound", "IntersectNotFound", "Done"],
    edges: &[
        e("Idle", "RequestNext", C, "CanAwait"),
        e("Idle", "FindIntersect", C, "Intersect"),
        e("Idle", "Done", C, "Done"),
        e("CanAwait", "AwaitReply", S, "MustReply"),
        e("CanAwait", "RollForward", S, "Idle"),
        e("CanAwait", "RollBackward", S, "Idle"),
        e("MustReply", "RollForward", S, "Idle"),
        e("MustReply", "RollBackward", S, "Idle"),
        e("Intersect", "IntersectFound", S, "Idle"),
        e("Intersect", "IntersectNotFound", S, "Idle"),
    ],
    happy: &["FindIntersect", "IntersectFound", "RequestNext", "RollForward"],
    alias: &[],
    unjudged: &[],
};

/// §3.8.2, table 3.7.
pub static BLOCKFETCH: Proto = Proto {
    name: "blockfetch",
    states: &["Idle", "Busy", "Streaming", "Done"],
    initial: "Idle",
    messages: &["RequestRange", "ClientDone", "StartBatch", "NoBlocks", "Block", "BatchDone"],
    edges: &[
        e("Idle", "ClientDone", C, "Done"),
        e("Idle", "RequestRange", C, "Busy"),
        e("Busy", "NoBlocks", S, "Idle"),
        e("Busy", "StartBatch", S, "Streaming"),
        e("Streaming", "Block", S, "Streaming"),
        e("Streaming", "BatchDone", S, "Idle"),
    ],
    happy: &["RequestRange", "StartBatch", "Block", "BatchDone"],
    alias: &[],
    unjudged: &[],
};

/// §3.9.1 (version 2), table 3.9. The "client" is the side that owns the transactions (it has
/// agency in StInit and answers the requests); `RequestTxIds(true/false, ..)` of pallas are the
/// spec's MsgRequestTxIdsBlocking / MsgRequestTxIdsNonBlocking.
pub static TXSUBMISSION: Proto = Proto {
    name: "txsubmission",
    states: &["Init", "Idle", "TxIdsBlocking", "TxIdsNonBlocking", "Txs", "Done"],
    initial: "Init",
    messages: &["Init", "RequestTxIdsBlocking", "RequestTxIdsNonBlocking", "ReplyTxIds", "RequestTxs", "ReplyTxs", "Done"],
    edges: &[
        e("Init", "Init", C, "Idle"),
        e("Idle", "RequestTxIdsNonBlocking", S, "TxIdsNonBlocking"),
        e("Idle", "RequestTxIdsBlocking", S, "TxIdsBlocking"),
        e("Idle", "RequestTxs", S, "Txs"),
        e("TxIdsNonBlocking", "ReplyTxIds", C, "Idle"),
        e("TxIdsBlocking", "ReplyTxIds", C, "Idle"),
        e("TxIdsBlocking", "Done", C, "Done"),
        e("Txs", "ReplyTxs", C, "Idle"),
    ],
    happy: &["Init", "RequestTxIdsNonBlocking", "ReplyTxIds", "RequestTxs", "ReplyTxs"],
    alias: &[],
    unjudged: &[],
};

/// §3.10.2.
pub static KEEPALIVE: Proto = Proto {
    name: "keepalive",
    states: &["Client", "Server", "Done"],
    initial: "Client",
    messages: &["KeepAlive", "ResponseKeepAlive", "Done"],
    edges: &[
        e("Client", "KeepAlive", C, "Server"),
        e("Client", "Done", C, "Done"),
        e("Server", "ResponseKeepAlive", S, "Client"),
    ],
    happy: &["KeepAlive", "ResponseKeepAlive"],
    alias: &[],
    unjudged: &[],
};

/// §3.11.2.
pub static PEERSHARING: Proto = Proto {
    name: "peersharing",
    states: &["Idle", "Busy", "Done"],
    initial: "Idle",
    messages: &["ShareRequest", "SharePeers", "Done"],
    edges: &[
        e("Idle", "ShareRequest", C, "Busy"),
        e("Idle", "Done", C, "Done"),
        e("Busy", "SharePeers", S, "Idle"),
    ],
    happy: &["ShareRequest", "SharePeers"],
    alias: &[],
    unjudged: &[],
};

/// §3.13.2 (transition table).
pub static LOCALSTATE: Proto = Proto {
    name: "localstate",
    states: &["Idle", "Acquiring", "Acquired", "Querying", "Done"],
    initial: "Idle",
    messages: &["Acquire", "Failure", "Acquired", "Query", "Result", "ReAcquire", "Release", "Done"],
    edges: &[
        e("Idle", "Acquire", C, "Acquiring"),
        e("Idle", "Done", C, "Done"),
        e("Acquiring", "Failure", S, "Idle"),
        e("Acquiring", "Acquired", S, "Acquired"),
        e("Acquired", "Query", C, "Querying"),
        e("Acquired", "ReAcquire", C, "Acquiring"),
        e("Acquired", "Release", C, "Idle"),
        e("Querying", "Result", S, "Acquired"),
    ],
    happy: &["Acquire", "Acquired", "Query", "Result"],
    alias: &[],
    unjudged: &[],
};

/// §3.12.2.
pub static LOCALTXSUBMISSION: Proto = Proto {
    name: "localtxsubmission",
    states: &["Idle", "Busy", "Done"],
    initial: "Idle",
    messages: &["SubmitTx", "AcceptTx", "RejectTx", "Done"],
    edges: &[
        e("Idle", "SubmitTx", C, "Busy"),
        e("Idle", "Done", C, "Done"),
        e("Busy", "AcceptTx", S, "Idle"),
        e("Busy", "RejectTx", S, "Idle"),
    ],
    happy: &["SubmitTx", "AcceptTx"],
    alias: &[],
    unjudged: &[],
};

/// §3.14.2 (transition table). The spec has one busy state per request kind; pallas has a single
/// `Busy` (alias). On the wire msgAwaitAcquire = msgAcquire = [1] (CDDL line 26), so pallas'
/// `Acquire` sent in Acquired *is* the spec's MsgAwaitAcquire. pallas' separate `AwaitAcquire`
/// variant (label 4) does not exist in the spec and is therefore legal nowhere.
/// MsgGetMeasures / MsgReplyGetMeasures are not implemented by pallas (no variant) and not listed.
pub static TXMONITOR: Proto = Proto {
    name: "txmonitor",
    states: &["Idle", "Acquiring", "Acquired", "BusyNextTx", "BusyHasTx", "BusySizes", "Done"],
    initial: "Idle",
    messages: &[
        "Acquire", "AwaitAcquire", "Acquired", "RequestHasTx", "RequestNextTx", "RequestSizeAndCapacity", "ResponseHasTx",
        "ResponseNextTx", "ResponseSizeAndCapacity", "Release", "Done",
    ],
    edges: &[
        e("Idle", "Acquire", C, "Acquiring"),
        e("Idle", "Done", C, "Done"),
        e("Acquiring", "Acquired", S, "Acquired"),
        e("Acquired", "Acquire", C, "Acquiring"),
        e("Acquired", "Release", C, "Idle"),
        e("Acquired", "RequestNextTx", C, "BusyNextTx"),
        e("BusyNextTx", "ResponseNextTx", S, "Acquired"),
        e("Acquired", "RequestHasTx", C, "BusyHasTx"),
        e("BusyHasTx", "ResponseHasTx", S, "Acquired"),
        e("Acquired", "RequestSizeAndCapacity", C, "BusySizes"),
        e("BusySizes", "ResponseSizeAndCapacity", S, "Acquired"),
    ],
    happy: &["Acquire", "Acquired", "RequestNextTx", "ResponseNextTx"],
    alias: &[("BusyNextTx", "Busy"), ("BusyHasTx", "Busy"), ("BusySizes", "Busy")],
    unjudged: &[],
};

pub static ALL: [&Proto; 9] =
    [&HANDSHAKE, &CHAINSYNC, &BLOCKFETCH, &TXSUBMISSION, &KEEPALIVE, &PEERSHARING, &LOCALSTATE, &LOCALTXSUBMISSION, &TXMONITOR];
